use blsful::*;
use std::time::{SystemTime, UNIX_EPOCH};

#[test]
fn d1_iszero_0x80() {
    let mut b = [0u8; 32];
    b[31] = 0x80;
    let r = SecretKey::<Bls12381G1Impl>::from_be_bytes(&b);
    assert!(bool::from(r.is_some()));
}
#[test]
fn d2_enum_empty() {
    assert!(SecretKeyEnum::try_from(&[][..]).is_err());
    assert!(bool::from(SecretKeyEnum::from_be_bytes(&[]).is_none()));
    assert!(bool::from(SecretKeyEnum::from_le_bytes(&[]).is_none()));
}
#[test]
fn d3_enum_tag_roundtrip() {
    for t in [Bls12381::G1, Bls12381::G2] {
        let sk = SecretKeyEnum::from_hash(t, b"seed");
        let v = Vec::<u8>::from(&sk);
        assert_eq!(SecretKeyEnum::try_from(v.as_slice()).unwrap(), sk);
        assert_eq!(Option::<SecretKeyEnum>::from(SecretKeyEnum::from_be_bytes(&sk.to_be_bytes())).unwrap(), sk);
        assert_eq!(Option::<SecretKeyEnum>::from(SecretKeyEnum::from_le_bytes(&sk.to_le_bytes())).unwrap(), sk);
    }
}
#[test]
fn d4_future_timestamp() {
    let sk = SecretKey::<Bls12381G1Impl>::from_hash(b"k");
    let pk = sk.public_key();
    let sig = sk.sign(SignatureSchemes::Basic, b"m").unwrap();
    let mut p = ProofOfKnowledgeTimestamp::generate(b"m", sig).unwrap();
    p.timestamp = SystemTime::now().duration_since(UNIX_EPOCH).unwrap().as_millis() as u64 + 10_000_000;
    assert!(p.verify(pk, b"m", Some(1000)).is_err());
    p.timestamp = u64::MAX;
    assert!(p.verify(pk, b"m", Some(1000)).is_err());
}
#[test]
fn d5_empty_payload() {
    let sk = SecretKey::<Bls12381G1Impl>::from_hash(b"k");
    let pk = sk.public_key();
    let mut ct = pk.sign_crypt(SignatureSchemes::Basic, b"hello");
    ct.v = vec![];
    assert!(bool::from(ct.decrypt(&sk).is_none()));
    let sig = sk.sign(SignatureSchemes::Basic, b"id").unwrap();
    let mut tc = pk.encrypt_time_lock(SignatureSchemes::Basic, b"hello", b"id").unwrap();
    tc.w = vec![];
    let _ = tc.decrypt(&sig);
}
#[test]
fn d7_share_verify_other_schemes() {
    for scheme in [SignatureSchemes::Basic, SignatureSchemes::MessageAugmentation, SignatureSchemes::ProofOfPossession] {
        let sk = SecretKey::<Bls12381G1Impl>::from_hash(b"k");
        let pk = sk.public_key();
        let shares = sk.split(2, 3).unwrap();
        let ct = pk.sign_crypt(scheme, b"hello world");
        for s in &shares {
            let ds = ct.create_decryption_share(s).unwrap();
            let pks = s.public_key().unwrap();
            assert!(ds.verify(&pks, &ct).is_ok(), "{:?}", scheme);
        }
    }
}
#[test]
fn d8_timelock_aug() {
    let sk = SecretKey::<Bls12381G2Impl>::from_hash(b"k");
    let pk = sk.public_key();
    for scheme in [SignatureSchemes::Basic, SignatureSchemes::MessageAugmentation, SignatureSchemes::ProofOfPossession] {
        let sig = sk.sign(scheme, b"round-1").unwrap();
        let tc = pk.encrypt_time_lock(scheme, b"a message that is long enough", b"round-1").unwrap();
        let m = tc.decrypt(&sig);
        assert!(bool::from(m.is_some()), "{:?}", scheme);
        assert_eq!(m.unwrap(), b"a message that is long enough".to_vec());
    }
}
#[test]
fn d6_json_hex() {
    let r = std::panic::catch_unwind(|| serde_json::from_str::<SecretKey<Bls12381G1Impl>>("\"00\"").is_err());
    assert!(matches!(r, Ok(true)));
}
#[test]
fn d9_pok_message_augmentation() {
    // a holder of a valid MessageAugmentation signature cannot complete the proof of knowledge:
    // the commitment / verifier hash `msg`, the signer hashed `pk || msg`
    let sk = SecretKey::<Bls12381G1Impl>::from_hash(b"k");
    let pk = sk.public_key();
    let sig = sk.sign(SignatureSchemes::MessageAugmentation, b"msg").unwrap();
    assert!(sig.verify(&pk, b"msg").is_ok());
    let (u, x) = ProofCommitment::generate(b"msg", sig).unwrap();
    let y = ProofCommitmentChallenge::from_hash(b"challenge");
    let proof = u.finalize(x, y, sig).unwrap();
    assert!(proof.verify(pk, b"msg", y).is_ok());
    let tp = ProofOfKnowledgeTimestamp::generate(b"msg", sig).unwrap();
    assert!(tp.verify(pk, b"msg", None).is_ok());
}
#[test]
fn d10_json_reader_backends() {
    // the two backends do not accept the same human-readable documents: JSON written by the library decodes through
    // `from_reader` / `from_value` under the pure-Rust backend and is refused ("expected a borrowed string") under blst
    let sk = SecretKey::<Bls12381G1Impl>::from_hash(b"probe");
    let pk = sk.public_key();
    let sig = sk.sign(SignatureSchemes::Basic, b"m").unwrap();
    let (js, jp, jg) = (serde_json::to_string(&sk).unwrap(), serde_json::to_string(&pk).unwrap(), serde_json::to_string(&sig).unwrap());
    assert!(serde_json::from_str::<SecretKey<Bls12381G1Impl>>(&js).is_ok());
    let by_reader = [
        serde_json::from_reader::<_, SecretKey<Bls12381G1Impl>>(js.as_bytes()).is_ok(),
        serde_json::from_reader::<_, PublicKey<Bls12381G1Impl>>(jp.as_bytes()).is_ok(),
        serde_json::from_reader::<_, Signature<Bls12381G1Impl>>(jg.as_bytes()).is_ok(),
        serde_json::from_value::<PublicKey<Bls12381G1Impl>>(serde_json::from_str(&jp).unwrap()).is_ok(),
    ];
    // observed: [false; 4] with the default features, [true; 4] with --no-default-features --features rust
    assert_eq!(by_reader, [cfg!(feature = "rust"); 4]);
}
