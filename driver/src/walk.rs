//! Dependency facts: for every foreign trait whose methods blsful calls, which of the trait's provided
//! (default-bodied) methods each backend-crate impl overrides.  A method that one backend overrides and the other
//! inherits from the trait is a place where the two backends may legitimately behave differently.
use crate::facts::Cx;
use crate::json::J;
use rustc_hir::def::DefKind;
use rustc_hir::def_id::DefId;
use rustc_middle::mir::{Operand, TerminatorKind};
use rustc_middle::ty::TyKind;
use std::collections::{BTreeMap, HashSet};

pub fn walk<'tcx>(cx: &Cx<'tcx>) -> J {
    let tcx = cx.tcx;
    let mut traits: BTreeMap<String, DefId> = BTreeMap::new();
    let mut called: HashSet<(DefId, String)> = HashSet::new();
    for ld in tcx.hir_body_owners() {
        let d = ld.to_def_id();
        if !matches!(tcx.def_kind(d), DefKind::Fn | DefKind::AssocFn | DefKind::Closure) {
            continue;
        }
        if !tcx.is_mir_available(d) {
            continue;
        }
        let body = tcx.optimized_mir(d);
        for bb in body.basic_blocks.iter() {
            if let Some(t) = &bb.terminator {
                if let TerminatorKind::Call { func: Operand::Constant(c), .. } = &t.kind {
                    if let TyKind::FnDef(fd, _) = c.const_.ty().kind() {
                        if matches!(tcx.def_kind(*fd), DefKind::AssocFn) {
                            if let Some(tr) = tcx.trait_of_assoc(*fd) {
                                if !tr.is_local() {
                                    traits.insert(cx.path(tr), tr);
                                    called.insert((tr, tcx.item_name(*fd).to_string()));
                                }
                            }
                        }
                    }
                }
            }
        }
    }
    // direct abort capability of every foreign callee: Assert terminators and calls that never return
    // (panic machinery) in the callee's own body, one level deep
    let mut foreign: BTreeMap<String, DefId> = BTreeMap::new();
    for ld in tcx.hir_body_owners() {
        let d = ld.to_def_id();
        if !matches!(tcx.def_kind(d), DefKind::Fn | DefKind::AssocFn | DefKind::Closure) || !tcx.is_mir_available(d) {
            continue;
        }
        let body = tcx.optimized_mir(d);
        let env = rustc_middle::ty::TypingEnv::post_analysis(tcx, d);
        for bb in body.basic_blocks.iter() {
            if let Some(t) = &bb.terminator {
                if let TerminatorKind::Call { func: Operand::Constant(c), .. } = &t.kind {
                    if let TyKind::FnDef(fd, fargs) = c.const_.ty().kind() {
                        let mut target = *fd;
                        if let Ok(Some(inst)) = rustc_middle::ty::Instance::try_resolve(tcx, env, *fd, fargs) {
                            target = inst.def_id();
                        }
                        if !target.is_local() {
                            foreign.insert(cx.path(target), target);
                        }
                        if !fd.is_local() {
                            foreign.insert(cx.path(*fd), *fd);
                        }
                    }
                }
            }
        }
    }
    let mut aborts = J::obj();
    for (path, d) in foreign {
        if !matches!(tcx.def_kind(d), DefKind::Fn | DefKind::AssocFn) || !tcx.is_mir_available(d) {
            continue;
        }
        let body = tcx.optimized_mir(d);
        let mut asserts: Vec<J> = Vec::new();
        let mut never: Vec<J> = Vec::new();
        for bb in body.basic_blocks.iter() {
            if bb.is_cleanup {
                continue;
            }
            if let Some(t) = &bb.terminator {
                match &t.kind {
                    TerminatorKind::Assert { msg, .. } => {
                        let s = format!("{:?}", msg);
                        asserts.push(J::s(s.chars().take(40).collect::<String>()));
                    }
                    TerminatorKind::Call { func: Operand::Constant(c), target: None, .. } => {
                        if let TyKind::FnDef(fd, _) = c.const_.ty().kind() {
                            never.push(J::s(cx.path(*fd)));
                        }
                    }
                    _ => {}
                }
            }
        }
        if !asserts.is_empty() || !never.is_empty() {
            let mut o = J::obj();
            o.set("crate", J::s(tcx.crate_name(d.krate).to_string()));
            o.set("asserts", J::Arr(asserts));
            o.set("never_returns", J::Arr(never));
            aborts.set(path, o);
        }
    }
    let mut out = Vec::new();
    for (_, tr) in traits {
        let provided: Vec<_> = tcx.provided_trait_methods(tr).collect();
        for im in tcx.all_impls(tr) {
            let krate = tcx.crate_name(im.krate).to_string();
            if krate != "blstrs_plus" && krate != "bls12_381_plus" {
                continue;
            }
            let st = tcx.type_of(im).instantiate_identity().skip_norm_wip();
            let map = tcx.impl_item_implementor_ids(im);
            let mut o = J::obj();
            o.set("trait", J::s(tcx.item_name(tr).to_string()));
            o.set("trait_path", J::s(cx.path(tr)));
            o.set("impl_crate", J::s(krate));
            o.set("self", J::s(cx.ty_s(st)));
            // `#[derive(..)]`-generated impl? (a derived impl in one backend and a hand-written one in the other is a
            // place where the same call may mean different things)
            o.set("derived", J::Bool(tcx.is_automatically_derived(im)));
            o.set("trait_called", J::Bool(called.iter().any(|(t, _)| *t == tr)));
            let mut ms = J::obj();
            for m in &provided {
                let name = tcx.item_name(m.def_id).to_string();
                let mut e = J::obj();
                e.set("overridden", J::Bool(map.contains_key(&m.def_id)));
                e.set("called_by_blsful", J::Bool(called.contains(&(tr, name.clone()))));
                ms.set(&name, e);
            }
            o.set("provided", ms);
            out.push(o);
        }
    }
    J::obj().put("dep_overrides", J::Arr(out)).put("callee_aborts", aborts)
}
