//! Monomorphic instance walk (see DESIGN §3.1).
use crate::facts::Cx;
use crate::json::J;

pub fn walk<'tcx>(_cx: &Cx<'tcx>) -> J {
    J::obj()
}
