//! Minimal JSON value + serializer (the driver has no Cargo dependencies).

use std::fmt::Write;

#[derive(Clone, Debug)]
pub enum J {
    Null,
    Bool(bool),
    Int(i128),
    Str(String),
    Arr(Vec<J>),
    Obj(Vec<(String, J)>),
}

impl J {
    pub fn s<S: Into<String>>(s: S) -> J {
        J::Str(s.into())
    }
    pub fn obj() -> J {
        J::Obj(Vec::new())
    }
    pub fn put<S: Into<String>>(mut self, k: S, v: J) -> J {
        if let J::Obj(ref mut o) = self {
            o.push((k.into(), v));
        }
        self
    }
    pub fn set<S: Into<String>>(&mut self, k: S, v: J) {
        if let J::Obj(ref mut o) = self {
            o.push((k.into(), v));
        }
    }
    pub fn has(&self, k: &str) -> bool {
        if let J::Obj(o) = self {
            o.iter().any(|(kk, _)| kk == k)
        } else {
            false
        }
    }
    pub fn write(&self, out: &mut String) {
        match self {
            J::Null => out.push_str("null"),
            J::Bool(b) => out.push_str(if *b { "true" } else { "false" }),
            J::Int(i) => {
                let _ = write!(out, "{}", i);
            }
            J::Str(s) => write_str(s, out),
            J::Arr(a) => {
                out.push('[');
                for (i, v) in a.iter().enumerate() {
                    if i > 0 {
                        out.push(',');
                    }
                    v.write(out);
                }
                out.push(']');
            }
            J::Obj(o) => {
                out.push('{');
                for (i, (k, v)) in o.iter().enumerate() {
                    if i > 0 {
                        out.push(',');
                    }
                    write_str(k, out);
                    out.push(':');
                    v.write(out);
                }
                out.push('}');
            }
        }
    }
}

fn write_str(s: &str, out: &mut String) {
    out.push('"');
    for c in s.chars() {
        match c {
            '"' => out.push_str("\\\""),
            '\\' => out.push_str("\\\\"),
            '\n' => out.push_str("\\n"),
            '\r' => out.push_str("\\r"),
            '\t' => out.push_str("\\t"),
            c if (c as u32) < 0x20 => {
                let _ = write!(out, "\\u{:04x}", c as u32);
            }
            c => out.push(c),
        }
    }
    out.push('"');
}

pub fn hex(bytes: &[u8]) -> String {
    let mut s = String::with_capacity(bytes.len() * 2);
    for b in bytes {
        let _ = write!(s, "{:02x}", b);
    }
    s
}
