//! MIR/HIR fact extraction for the local crate.

use crate::json::{hex, J};
use rustc_hir::def::DefKind;
use rustc_hir::def_id::{DefId, LocalDefId, LOCAL_CRATE};
use rustc_middle::mir::interpret::{AllocId, GlobalAlloc, Scalar};
use rustc_middle::mir::{
    self, AggregateKind, AssertKind, BasicBlockData, Body, Const as MirConst, ConstValue, Operand,
    Place, PlaceElem, Rvalue, StatementKind, TerminatorKind,
};
use rustc_middle::ty::print::{with_no_trimmed_paths, PrintTraitRefExt};
use rustc_middle::ty::{self, GenericArgsRef, Instance, Ty, TyCtxt, TyKind, TypingEnv};
use rustc_span::Span;
use std::collections::{BTreeMap, HashMap};

pub struct Cx<'tcx> {
    pub tcx: TyCtxt<'tcx>,
    /// DefId -> stable key for local functions/closures
    pub keys: HashMap<DefId, String>,
}

pub fn strip_paths(s: &str) -> String {
    // Drop module qualifiers: `a::b::Name<..>` -> `Name<..>`, but keep associated
    // paths that follow a `>` (`<C as Pairing>::PublicKey`).
    let b: Vec<char> = s.chars().collect();
    let mut out = String::with_capacity(s.len());
    let mut i = 0;
    let is_id = |c: char| c.is_alphanumeric() || c == '_';
    while i < b.len() {
        if is_id(b[i]) && !(i > 0 && is_id(b[i - 1])) {
            // parse ident(::ident)*
            let after_gt = i >= 3 && b[i - 1] == ':' && b[i - 2] == ':' && b[i - 3] == '>';
            let mut segs: Vec<String> = Vec::new();
            let mut j = i;
            loop {
                let st = j;
                while j < b.len() && is_id(b[j]) {
                    j += 1;
                }
                segs.push(b[st..j].iter().collect());
                if j + 2 < b.len() && b[j] == ':' && b[j + 1] == ':' && is_id(b[j + 2]) {
                    j += 2;
                } else {
                    break;
                }
            }
            if after_gt {
                out.push_str(&segs.join("::"));
            } else {
                out.push_str(segs.last().unwrap());
            }
            i = j;
        } else {
            out.push(b[i]);
            i += 1;
        }
    }
    out
}

fn span_str(tcx: TyCtxt<'_>, sp: Span) -> String {
    let sm = tcx.sess.source_map();
    // use the call-site for macro expansions so the line is in the user's file
    let sp = sp.source_callsite();
    let lo = sm.lookup_char_pos(sp.lo());
    let f = match &lo.file.name {
        rustc_span::FileName::Real(r) => match r.local_path() {
            Some(p) => p.to_string_lossy().to_string(),
            None => format!("{:?}", r),
        },
        other => format!("{:?}", other),
    };
    format!("{}:{}", f, lo.line)
}

fn macro_names(sp: Span) -> Vec<String> {
    let mut v = Vec::new();
    for e in sp.macro_backtrace() {
        if let rustc_span::ExpnKind::Macro(_, name) = e.kind {
            v.push(name.to_string());
        } else if let rustc_span::ExpnKind::Desugaring(d) = e.kind {
            v.push(format!("desugar:{:?}", d));
        }
    }
    v
}

impl<'tcx> Cx<'tcx> {
    pub fn ty_s(&self, t: Ty<'tcx>) -> String {
        with_no_trimmed_paths!(strip_paths(&t.to_string()))
    }
    pub fn ty_full(&self, t: Ty<'tcx>) -> String {
        with_no_trimmed_paths!(t.to_string())
    }
    pub fn path(&self, d: DefId) -> String {
        with_no_trimmed_paths!(self.tcx.def_path_str(d))
    }
    pub fn crate_of(&self, d: DefId) -> String {
        self.tcx.crate_name(d.krate).to_string()
    }
    pub fn hash(&self, d: DefId) -> String {
        format!("{:?}", self.tcx.def_path_hash(d).0)
    }

    /// Key construction, see DESIGN Appendix D.
    fn make_key(&self, d: DefId) -> String {
        let tcx = self.tcx;
        let kind = tcx.def_kind(d);
        match kind {
            DefKind::Closure | DefKind::InlineConst | DefKind::AnonConst => {
                let parent = tcx.parent(d);
                let pk = self.make_key(parent);
                let dp = tcx.def_path(d);
                let last = dp.data.last().map(|x| format!("{{{:?}#{}}}", x.data, x.disambiguator)).unwrap_or_default();
                format!("{}::{}", pk, last)
            }
            DefKind::AssocFn | DefKind::AssocConst { .. } | DefKind::AssocTy => {
                let name = tcx.item_name(d).to_string();
                let parent = tcx.parent(d);
                match tcx.def_kind(parent) {
                    DefKind::Trait => format!("{}::{}", tcx.item_name(parent), name),
                    DefKind::Impl { .. } => {
                        let self_ty = tcx.type_of(parent).instantiate_identity().skip_norm_wip();
                        let self_s = self.nested_ty_s(self_ty);
                        if let Some(tr) = tcx.impl_opt_trait_ref(parent) {
                            let tr = tr.instantiate_identity().skip_norm_wip();
                            let trs = with_no_trimmed_paths!(strip_paths(
                                &tr.print_only_trait_path().to_string()
                            ));
                            format!("<{} as {}>::{}", self_s, trs, name)
                        } else {
                            format!("{}::{}", self_s, name)
                        }
                    }
                    _ => format!("{}::{}", self.path(parent), name),
                }
            }
            DefKind::Fn => {
                let name = tcx.item_name(d).to_string();
                let parent = tcx.parent(d);
                match tcx.def_kind(parent) {
                    DefKind::Mod => format!("{}::{}", tcx.opt_item_name(parent).map(|s| s.to_string()).unwrap_or_else(|| "crate".into()), name),
                    _ => format!("{}::{}", self.make_key(parent), name),
                }
            }
            _ => strip_paths(&self.path(d)),
        }
    }

    /// Type string where ADTs nested inside functions (derive helpers, local
    /// visitor structs) are qualified by their enclosing function's key.
    fn nested_ty_s(&self, t: Ty<'tcx>) -> String {
        let tcx = self.tcx;
        if let TyKind::Adt(adt, _) = t.peel_refs().kind() {
            let did = adt.did();
            if did.is_local() {
                let mut p = tcx.parent(did);
                // climb through anon consts (derive wraps impls in `const _: () = {}`)
                loop {
                    match tcx.def_kind(p) {
                        DefKind::Fn | DefKind::AssocFn => {
                            let refs = if t.is_ref() { "&" } else { "" };
                            return format!("{}{}::{}", refs, self.make_key(p), tcx.item_name(did));
                        }
                        DefKind::Mod => break,
                        _ => {
                            if let Some(pp) = tcx.opt_parent(p) {
                                p = pp;
                            } else {
                                break;
                            }
                        }
                    }
                }
            }
        }
        self.ty_s(t)
    }

    pub fn key_of(&self, d: DefId) -> Option<&String> {
        self.keys.get(&d)
    }

    // ---------- constants ----------

    fn alloc_bytes(&self, id: AllocId, off: u64, len: u64) -> Option<Vec<u8>> {
        match self.tcx.try_get_global_alloc(id)? {
            GlobalAlloc::Memory(a) => {
                let a = a.inner();
                let total = a.len() as u64;
                if off + len > total {
                    return None;
                }
                Some(
                    a.inspect_with_uninit_and_ptr_outside_interpreter(
                        off as usize..(off + len) as usize,
                    )
                    .to_vec(),
                )
            }
            GlobalAlloc::Static(d) => {
                let a = self.tcx.eval_static_initializer(d).ok()?;
                let a = a.inner();
                let total = a.len() as u64;
                if off + len > total {
                    return None;
                }
                Some(
                    a.inspect_with_uninit_and_ptr_outside_interpreter(
                        off as usize..(off + len) as usize,
                    )
                    .to_vec(),
                )
            }
            _ => None,
        }
    }

    /// Read a (ptr,len) fat pointer stored at `off` inside allocation `id`.
    fn read_fat_ptr(&self, id: AllocId, off: u64) -> Option<Vec<u8>> {
        let GlobalAlloc::Memory(a) = self.tcx.try_get_global_alloc(id)? else { return None };
        let a = a.inner();
        let psz = self.tcx.data_layout.pointer_size().bytes();
        let mut target = None;
        for (o, prov) in a.provenance().ptrs().iter() {
            if o.bytes() == off {
                target = Some(prov.alloc_id());
            }
        }
        let target = target?;
        let raw = a.inspect_with_uninit_and_ptr_outside_interpreter(
            off as usize..(off + 2 * psz) as usize,
        );
        let mut p = [0u8; 8];
        p.copy_from_slice(&raw[0..8]);
        let inner_off = u64::from_le_bytes(p);
        p.copy_from_slice(&raw[8..16]);
        let len = u64::from_le_bytes(p);
        self.alloc_bytes(target, inner_off, len)
    }

    pub fn const_value_json(&self, val: ConstValue, ty: Ty<'tcx>) -> J {
        let tcx = self.tcx;
        let mut o = J::obj().put("ty", J::s(self.ty_s(ty)));
        match val {
            ConstValue::Scalar(Scalar::Int(i)) => {
                let bits = i.to_bits_unchecked();
                let size = i.size().bytes();
                o.set("int", J::Int(bits as i128));
                o.set("size", J::Int(size as i128));
                if ty.is_signed() {
                    let shift = 128 - size * 8;
                    let sv = ((bits << shift) as i128) >> shift;
                    o.set("sint", J::Int(sv));
                }
                if ty.is_bool() {
                    o.set("bool", J::Bool(bits != 0));
                }
            }
            ConstValue::Scalar(Scalar::Ptr(p, _)) => {
                let (prov, off) = p.into_raw_parts();
                let id = prov.alloc_id();
                // &[u8; N] byte string literal / &T promoted-like
                if let TyKind::Ref(_, inner, _) = ty.kind() {
                    if let TyKind::Array(et, n) = inner.kind() {
                        if *et == tcx.types.u8 {
                            if let Some(n) = n.try_to_target_usize(tcx) {
                                if let Some(b) = self.alloc_bytes(id, off.bytes(), n) {
                                    o.set("bytes_hex", J::s(hex(&b)));
                                    o.set("bytes_str", J::s(String::from_utf8_lossy(&b).to_string()));
                                }
                            }
                        }
                    }
                }
                o.set("ptr", J::Bool(true));
            }
            ConstValue::ZeroSized => {
                if let TyKind::FnDef(d, args) = ty.kind() {
                    o.set("fn", self.callee_json(*d, args, None));
                } else {
                    o.set("zst", J::Bool(true));
                }
            }
            ConstValue::Slice { alloc_id, meta } => {
                if let Some(b) = self.alloc_bytes(alloc_id, 0, meta) {
                    o.set("bytes_hex", J::s(hex(&b)));
                    o.set("bytes_str", J::s(String::from_utf8_lossy(&b).to_string()));
                }
            }
            ConstValue::Indirect { alloc_id, offset } => {
                // &'static [u8] / &str constants: fat pointer in memory
                let is_slice_ref = matches!(ty.kind(), TyKind::Ref(_, inner, _) if matches!(inner.kind(), TyKind::Slice(_) | TyKind::Str));
                if is_slice_ref {
                    if let Some(b) = self.read_fat_ptr(alloc_id, offset.bytes()) {
                        o.set("bytes_hex", J::s(hex(&b)));
                        o.set("bytes_str", J::s(String::from_utf8_lossy(&b).to_string()));
                    }
                } else if let TyKind::Array(et, n) = ty.kind() {
                    if *et == tcx.types.u8 {
                        if let Some(n) = n.try_to_target_usize(tcx) {
                            if let Some(b) = self.alloc_bytes(alloc_id, offset.bytes(), n) {
                                o.set("bytes_hex", J::s(hex(&b)));
                            }
                        }
                    } else if matches!(et.kind(), TyKind::Ref(_, inner, _) if matches!(inner.kind(), TyKind::Slice(_) | TyKind::Str)) {
                        // table of byte-string / str references: one fat pointer (2 words) per element
                        if let Some(n) = n.try_to_target_usize(tcx) {
                            let psz = tcx.data_layout.pointer_size().bytes();
                            let mut items = Vec::new();
                            let mut all = true;
                            for i in 0..n {
                                match self.read_fat_ptr(alloc_id, offset.bytes() + i * 2 * psz) {
                                    Some(b) => items.push(J::s(hex(&b))),
                                    None => {
                                        all = false;
                                        break;
                                    }
                                }
                            }
                            if all {
                                o.set("elems_hex", J::Arr(items));
                            }
                        }
                    }
                }
                o.set("indirect", J::Bool(true));
            }
        }
        // aggregates (arrays / tuples / structs / enums with data): destructured element-wise, bounded depth
        if !o.has("elems_hex") && !o.has("bytes_hex") {
            if let Some(d) = self.destructure_json(val, ty, 0) {
                o.set("agg", d);
            }
        }
        o
    }

    fn destructure_json(&self, val: ConstValue, ty: Ty<'tcx>, depth: u32) -> Option<J> {
        let tcx = self.tcx;
        if depth > 3 {
            return None;
        }
        let is_agg = match ty.kind() {
            TyKind::Array(et, _) => *et != tcx.types.u8,
            TyKind::Tuple(ts) => !ts.is_empty(),
            TyKind::Adt(adt, _) => adt.is_enum() || adt.is_struct(),
            _ => false,
        };
        if !is_agg {
            return None;
        }
        let d = tcx.try_destructure_mir_constant_for_user_output(val, ty)?;
        let mut o = J::obj();
        if let (Some(vi), TyKind::Adt(adt, _)) = (d.variant, ty.kind()) {
            o.set("adt", J::s(tcx.item_name(adt.did()).to_string()));
            o.set("variant", J::s(adt.variant(vi).name.to_string()));
        }
        let mut fs = Vec::new();
        if d.fields.len() > 64 {
            return None;
        }
        for (fv, fty) in d.fields.iter() {
            let mut f = self.const_value_json_depth(*fv, *fty, depth + 1);
            f.set("ty", J::s(self.ty_s(*fty)));
            fs.push(f);
        }
        o.set("fields", J::Arr(fs));
        Some(o)
    }

    fn const_value_json_depth(&self, val: ConstValue, ty: Ty<'tcx>, depth: u32) -> J {
        if depth > 3 {
            return J::obj();
        }
        self.const_value_json(val, ty)
    }

    fn mir_const_json(&self, c: &MirConst<'tcx>, env: TypingEnv<'tcx>) -> J {
        let tcx = self.tcx;
        match c {
            MirConst::Val(v, ty) => self.const_value_json(*v, *ty),
            MirConst::Unevaluated(uv, ty) => {
                let mut o = J::obj().put("ty", J::s(self.ty_s(*ty)));
                let name = if let Some(k) = self.keys.get(&uv.def) {
                    k.clone()
                } else {
                    let parent = tcx.opt_parent(uv.def);
                    match parent.map(|p| (p, tcx.def_kind(p))) {
                        Some((p, DefKind::Trait)) => {
                            format!("{}::{}", tcx.item_name(p), tcx.item_name(uv.def))
                        }
                        _ => strip_paths(&self.path(uv.def)),
                    }
                };
                o.set("uneval", J::s(name));
                o.set("uneval_path", J::s(self.path(uv.def)));
                o.set(
                    "args",
                    J::Arr(uv.args.iter().map(|a| J::s(with_no_trimmed_paths!(strip_paths(&a.to_string())))).collect()),
                );
                if let Some(p) = uv.promoted {
                    o.set("promoted", J::Int(p.as_u32() as i128));
                }
                // try to evaluate (succeeds when not too generic)
                if let Ok(v) = c.eval(tcx, env, rustc_span::DUMMY_SP) {
                    let mut ev = self.const_value_json(v, *ty);
                    if let J::Obj(ref mut items) = ev {
                        items.retain(|(k, _)| k != "ty");
                    }
                    o.set("eval", ev);
                }
                o
            }
            MirConst::Ty(ty, ct) => {
                let mut o = J::obj().put("ty", J::s(self.ty_s(*ty)));
                if let Some(v) = ct.try_to_target_usize(tcx) {
                    o.set("int", J::Int(v as i128));
                } else {
                    o.set("tyconst", J::s(with_no_trimmed_paths!(strip_paths(&ct.to_string()))));
                }
                o
            }
        }
    }

    // ---------- callee ----------

    fn track_caller(&self, d: DefId) -> bool {
        if !matches!(self.tcx.def_kind(d), DefKind::Fn | DefKind::AssocFn) {
            return false;
        }
        self.tcx
            .codegen_fn_attrs(d)
            .flags
            .contains(rustc_middle::middle::codegen_fn_attrs::CodegenFnAttrFlags::TRACK_CALLER)
    }

    pub fn callee_json(
        &self,
        d: DefId,
        args: GenericArgsRef<'tcx>,
        env: Option<TypingEnv<'tcx>>,
    ) -> J {
        let tcx = self.tcx;
        let mut o = J::obj();
        o.set("path", J::s(self.path(d)));
        o.set("crate", J::s(self.crate_of(d)));
        o.set("hash", J::s(self.hash(d)));
        o.set("name", J::s(tcx.opt_item_name(d).map(|s| s.to_string()).unwrap_or_default()));
        o.set("local", J::Bool(d.is_local()));
        if self.track_caller(d) {
            // `#[track_caller]`: std marks the functions that may panic on behalf of their caller (and the allocating ones)
            o.set("track_caller", J::Bool(true));
        }
        if let Some(k) = self.keys.get(&d) {
            o.set("key", J::s(k.clone()));
        } else if d.is_local() && matches!(tcx.def_kind(d), DefKind::AssocFn | DefKind::Fn) {
            // required trait methods have no body but still get a name
            o.set("key", J::s(self.make_key(d)));
        }
        o.set(
            "args",
            J::Arr(args.iter().map(|a| J::s(with_no_trimmed_paths!(strip_paths(&a.to_string())))).collect()),
        );
        o.set(
            "args_full",
            J::Arr(args.iter().map(|a| J::s(with_no_trimmed_paths!(a.to_string()))).collect()),
        );
        if let DefKind::Ctor(of, _) = tcx.def_kind(d) {
            // tuple-struct / tuple-variant constructor used as a function value
            let mut c = J::obj();
            let parent = tcx.parent(d);
            match of {
                rustc_hir::def::CtorOf::Variant => {
                    c.set("variant", J::s(tcx.item_name(parent).to_string()));
                    let en = tcx.parent(parent);
                    c.set("adt", J::s(tcx.item_name(en).to_string()));
                    c.set("adt_path", J::s(self.path(en)));
                }
                rustc_hir::def::CtorOf::Struct => {
                    c.set("variant", J::s(tcx.item_name(parent).to_string()));
                    c.set("adt", J::s(tcx.item_name(parent).to_string()));
                    c.set("adt_path", J::s(self.path(parent)));
                }
            }
            o.set("ctor", c);
        }
        if matches!(tcx.def_kind(d), DefKind::AssocFn) {
            if let Some(tr) = tcx.trait_of_assoc(d) {
                o.set("trait", J::s(tcx.item_name(tr).to_string()));
                o.set("trait_path", J::s(self.path(tr)));
                o.set("trait_crate", J::s(self.crate_of(tr)));
                if args.len() > 0 {
                    if let Some(t) = args[0].as_type() {
                        o.set("self_ty", J::s(self.ty_s(t)));
                    }
                }
            } else if let Some(im) = tcx.impl_of_assoc(d) {
                let st = tcx.type_of(im).instantiate_identity().skip_norm_wip();
                o.set("impl_self", J::s(self.ty_s(st)));
                if let Some(tr) = tcx.impl_opt_trait_ref(im) {
                    let tr = tr.instantiate_identity().skip_norm_wip();
                    o.set("trait", J::s(tcx.item_name(tr.def_id).to_string()));
                    o.set("trait_path", J::s(self.path(tr.def_id)));
                }
            }
        }
        if let Some(env) = env {
            if let Ok(Some(inst)) = Instance::try_resolve(tcx, env, d, args) {
                let rd = inst.def_id();
                if rd != d {
                    let mut r = J::obj();
                    r.set("path", J::s(self.path(rd)));
                    r.set("crate", J::s(self.crate_of(rd)));
                    if self.track_caller(rd) {
                        r.set("track_caller", J::Bool(true));
                    }
                    if let Some(k) = self.keys.get(&rd) {
                        r.set("key", J::s(k.clone()));
                    }
                    r.set("kind", J::s(format!("{:?}", std::mem::discriminant(&inst.def)).chars().take(0).collect::<String>() + inst_kind(&inst)));
                    o.set("resolved", r);
                }
            }
        }
        o
    }

    // ---------- places / operands ----------

    fn place_json(&self, body: &Body<'tcx>, p: &Place<'tcx>) -> J {
        let tcx = self.tcx;
        let mut o = J::obj().put("l", J::Int(p.local.as_u32() as i128));
        if !p.projection.is_empty() {
            let mut proj = Vec::new();
            let mut pty = mir::PlaceTy::from_ty(body.local_decls[p.local].ty);
            for elem in p.projection.iter() {
                let j = match elem {
                    PlaceElem::Deref => J::s("*"),
                    PlaceElem::Field(f, _) => {
                        let idx = f.as_u32();
                        let mut name = format!("{}", idx);
                        if let TyKind::Adt(adt, _) = pty.ty.kind() {
                            let vi = pty.variant_index.unwrap_or(rustc_abi::FIRST_VARIANT);
                            if (vi.as_usize()) < adt.variants().len() {
                                let v = adt.variant(vi);
                                if (idx as usize) < v.fields.len() {
                                    name = v.fields[f].name.to_string();
                                }
                            }
                        }
                        J::obj().put("f", J::Int(idx as i128)).put("n", J::s(name))
                    }
                    PlaceElem::Downcast(name, vi) => J::obj()
                        .put("dc", J::s(name.map(|s| s.to_string()).unwrap_or_default()))
                        .put("vi", J::Int(vi.as_u32() as i128)),
                    PlaceElem::Index(l) => J::obj().put("idx", J::Int(l.as_u32() as i128)),
                    PlaceElem::ConstantIndex { offset, min_length, from_end } => J::obj()
                        .put("cidx", J::Int(offset as i128))
                        .put("min", J::Int(min_length as i128))
                        .put("from_end", J::Bool(from_end)),
                    PlaceElem::Subslice { from, to, from_end } => J::obj()
                        .put("sub", J::Arr(vec![J::Int(from as i128), J::Int(to as i128)]))
                        .put("from_end", J::Bool(from_end)),
                    PlaceElem::OpaqueCast(_) => J::s("opaque"),
                    PlaceElem::UnwrapUnsafeBinder(_) => J::s("unwrap_binder"),
                };
                proj.push(j);
                pty = pty.projection_ty(tcx, elem);
            }
            o.set("p", J::Arr(proj));
        }
        o
    }

    fn operand_json(&self, body: &Body<'tcx>, op: &Operand<'tcx>, env: TypingEnv<'tcx>) -> J {
        match op {
            Operand::Copy(p) => J::obj().put("copy", self.place_json(body, p)),
            Operand::Move(p) => J::obj().put("move", self.place_json(body, p)),
            Operand::Constant(c) => J::obj().put("const", self.mir_const_json(&c.const_, env)),
            #[allow(unreachable_patterns)]
            _ => J::obj().put("other", J::s(format!("{:?}", op))),
        }
    }

    fn rvalue_json(&self, body: &Body<'tcx>, rv: &Rvalue<'tcx>, env: TypingEnv<'tcx>) -> J {
        let tcx = self.tcx;
        match rv {
            Rvalue::Use(op, _) => J::obj().put("use", self.operand_json(body, op, env)),
            Rvalue::Repeat(op, n) => J::obj()
                .put("repeat", self.operand_json(body, op, env))
                .put(
                    "n",
                    n.try_to_target_usize(tcx).map(|v| J::Int(v as i128)).unwrap_or(J::s(n.to_string())),
                ),
            Rvalue::Ref(_, bk, p) => J::obj()
                .put("ref", self.place_json(body, p))
                .put("mut", J::Bool(matches!(bk, mir::BorrowKind::Mut { .. }))),
            Rvalue::RawPtr(k, p) => J::obj()
                .put("rawptr", self.place_json(body, p))
                .put("mut", J::Bool(format!("{:?}", k).contains("Mut"))),
            Rvalue::Cast(k, op, ty) => J::obj()
                .put("cast", J::s(format!("{:?}", k)))
                .put("a", self.operand_json(body, op, env))
                .put("from", J::s(self.ty_s(op.ty(&body.local_decls, tcx))))
                .put("to", J::s(self.ty_s(*ty))),
            Rvalue::BinaryOp(op, ab) => J::obj()
                .put("bin", J::s(format!("{:?}", op)))
                .put("a", self.operand_json(body, &ab.0, env))
                .put("b", self.operand_json(body, &ab.1, env))
                .put("ty", J::s(self.ty_s(ab.0.ty(&body.local_decls, tcx)))),
            Rvalue::UnaryOp(op, a) => J::obj()
                .put("un", J::s(format!("{:?}", op)))
                .put("a", self.operand_json(body, a, env))
                .put("ty", J::s(self.ty_s(a.ty(&body.local_decls, tcx)))),
            Rvalue::Discriminant(p) => {
                let pt = p.ty(&body.local_decls, tcx).ty;
                let mut o = J::obj().put("discr", self.place_json(body, p));
                if let TyKind::Adt(adt, _) = pt.kind() {
                    o.set("adt", J::s(tcx.item_name(adt.did()).to_string()));
                    o.set("adt_path", J::s(self.path(adt.did())));
                }
                o
            }
            Rvalue::Aggregate(kind, ops) => {
                let k = match &**kind {
                    AggregateKind::Array(t) => J::obj().put("array", J::s(self.ty_s(*t))),
                    AggregateKind::Tuple => J::obj().put("tuple", J::Bool(true)),
                    AggregateKind::Adt(did, vi, _args, _, _) => {
                        let adt = tcx.adt_def(*did);
                        let v = adt.variant(*vi);
                        J::obj()
                            .put("adt", J::s(tcx.item_name(*did).to_string()))
                            .put("adt_path", J::s(self.path(*did)))
                            .put("variant", J::s(v.name.to_string()))
                            .put("vi", J::Int(vi.as_u32() as i128))
                            .put(
                                "fields",
                                J::Arr(v.fields.iter().map(|f| J::s(f.name.to_string())).collect()),
                            )
                    }
                    AggregateKind::Closure(did, _) => {
                        let mut o = J::obj().put("closure", J::s(self.path(*did)));
                        if let Some(k) = self.keys.get(did) {
                            o.set("key", J::s(k.clone()));
                        }
                        o
                    }
                    other => J::obj().put("other", J::s(format!("{:?}", other))),
                };
                J::obj()
                    .put("agg", k)
                    .put("ops", J::Arr(ops.iter().map(|o| self.operand_json(body, o, env)).collect()))
            }
            Rvalue::CopyForDeref(p) => J::obj().put("use", J::obj().put("copy", self.place_json(body, p))),
            Rvalue::ThreadLocalRef(d) => J::obj().put("tls", J::s(self.path(*d))),
            other => J::obj().put("other", J::s(format!("{:?}", other))),
        }
    }

    fn span_json(&self, o: &mut J, sp: Span) {
        o.set("sp", J::s(span_str(self.tcx, sp)));
        if sp.from_expansion() {
            o.set("mac", J::Arr(macro_names(sp).into_iter().map(J::s).collect()));
        }
    }

    fn block_json(&self, body: &Body<'tcx>, bb: &BasicBlockData<'tcx>, env: TypingEnv<'tcx>) -> J {
        let tcx = self.tcx;
        let mut stmts = Vec::new();
        for st in &bb.statements {
            match &st.kind {
                StatementKind::Assign(b) => {
                    let (p, rv) = &**b;
                    let mut o = J::obj()
                        .put("k", J::s("assign"))
                        .put("place", self.place_json(body, p))
                        .put("rv", self.rvalue_json(body, rv, env));
                    self.span_json(&mut o, st.source_info.span);
                    stmts.push(o);
                }
                StatementKind::SetDiscriminant { place, variant_index } => {
                    let mut o = J::obj()
                        .put("k", J::s("setdiscr"))
                        .put("place", self.place_json(body, place))
                        .put("vi", J::Int(variant_index.as_u32() as i128));
                    self.span_json(&mut o, st.source_info.span);
                    stmts.push(o);
                }
                StatementKind::Intrinsic(i) => {
                    let mut o = J::obj().put("k", J::s("intrinsic")).put("s", J::s(format!("{:?}", i)));
                    self.span_json(&mut o, st.source_info.span);
                    stmts.push(o);
                }
                _ => {}
            }
        }
        let term = bb.terminator();
        let mut t = match &term.kind {
            TerminatorKind::Goto { target } => J::obj().put("k", J::s("goto")).put("target", J::Int(target.as_u32() as i128)),
            TerminatorKind::SwitchInt { discr, targets } => {
                let dty = discr.ty(&body.local_decls, tcx);
                J::obj()
                    .put("k", J::s("switch"))
                    .put("discr", self.operand_json(body, discr, env))
                    .put("ty", J::s(self.ty_s(dty)))
                    .put(
                        "arms",
                        J::Arr(
                            targets
                                .iter()
                                .map(|(v, t)| J::Arr(vec![J::Int(v as i128), J::Int(t.as_u32() as i128)]))
                                .collect(),
                        ),
                    )
                    .put("otherwise", J::Int(targets.otherwise().as_u32() as i128))
            }
            TerminatorKind::Return => J::obj().put("k", J::s("return")),
            TerminatorKind::Unreachable => J::obj().put("k", J::s("unreachable")),
            TerminatorKind::UnwindResume => J::obj().put("k", J::s("resume")),
            TerminatorKind::UnwindTerminate(_) => J::obj().put("k", J::s("terminate")),
            TerminatorKind::Drop { place, target, .. } => J::obj()
                .put("k", J::s("drop"))
                .put("place", self.place_json(body, place))
                .put("target", J::Int(target.as_u32() as i128)),
            TerminatorKind::Call { func, args, destination, target, fn_span, .. } => {
                let mut o = J::obj().put("k", J::s("call"));
                let fty = func.ty(&body.local_decls, tcx);
                match fty.kind() {
                    TyKind::FnDef(d, ga) => {
                        o.set("callee", self.callee_json(*d, ga, Some(env)));
                    }
                    _ => {
                        o.set("callee_indirect", self.operand_json(body, func, env));
                        o.set("callee_ty", J::s(self.ty_s(fty)));
                    }
                }
                o.set(
                    "args",
                    J::Arr(args.iter().map(|a| self.operand_json(body, &a.node, env)).collect()),
                );
                o.set(
                    "arg_tys",
                    J::Arr(args.iter().map(|a| J::s(self.ty_s(a.node.ty(&body.local_decls, tcx)))).collect()),
                );
                o.set("dest", self.place_json(body, destination));
                o.set("target", target.map(|t| J::Int(t.as_u32() as i128)).unwrap_or(J::Null));
                o.set("fn_sp", J::s(span_str(tcx, *fn_span)));
                o
            }
            TerminatorKind::TailCall { func, args, .. } => {
                let mut o = J::obj().put("k", J::s("tailcall"));
                let fty = func.ty(&body.local_decls, tcx);
                if let TyKind::FnDef(d, ga) = fty.kind() {
                    o.set("callee", self.callee_json(*d, ga, Some(env)));
                }
                o.set(
                    "args",
                    J::Arr(args.iter().map(|a| self.operand_json(body, &a.node, env)).collect()),
                );
                o
            }
            TerminatorKind::Assert { cond, expected, msg, target, .. } => {
                let mut o = J::obj()
                    .put("k", J::s("assert"))
                    .put("cond", self.operand_json(body, cond, env))
                    .put("expected", J::Bool(*expected))
                    .put("target", J::Int(target.as_u32() as i128));
                let (kind, ops): (String, Vec<&Operand<'tcx>>) = match &**msg {
                    AssertKind::BoundsCheck { len, index } => ("BoundsCheck".into(), vec![len, index]),
                    AssertKind::Overflow(op, a, b) => (format!("Overflow({:?})", op), vec![a, b]),
                    AssertKind::OverflowNeg(a) => ("OverflowNeg".into(), vec![a]),
                    AssertKind::DivisionByZero(a) => ("DivisionByZero".into(), vec![a]),
                    AssertKind::RemainderByZero(a) => ("RemainderByZero".into(), vec![a]),
                    AssertKind::MisalignedPointerDereference { required, found } => {
                        ("MisalignedPointerDereference".into(), vec![required, found])
                    }
                    AssertKind::NullPointerDereference => ("NullPointerDereference".into(), vec![]),
                    AssertKind::InvalidEnumConstruction(a) => ("InvalidEnumConstruction".into(), vec![a]),
                    other => (format!("{:?}", std::mem::discriminant(other)), vec![]),
                };
                o.set("kind", J::s(kind));
                o.set("ops", J::Arr(ops.iter().map(|x| self.operand_json(body, x, env)).collect()));
                if let Some(first) = ops.first() {
                    o.set("op_ty", J::s(self.ty_s(first.ty(&body.local_decls, tcx))));
                }
                o
            }
            TerminatorKind::FalseEdge { real_target, .. } => {
                J::obj().put("k", J::s("goto")).put("target", J::Int(real_target.as_u32() as i128))
            }
            TerminatorKind::FalseUnwind { real_target, .. } => {
                J::obj().put("k", J::s("goto")).put("target", J::Int(real_target.as_u32() as i128))
            }
            other => J::obj().put("k", J::s("other")).put("s", J::s(format!("{:?}", other))),
        };
        self.span_json(&mut t, term.source_info.span);
        let mut o = J::obj();
        if bb.is_cleanup {
            o.set("cleanup", J::Bool(true));
        }
        o.set("stmts", J::Arr(stmts));
        o.set("term", t);
        o
    }

    pub fn body_json(&self, body: &Body<'tcx>, env: TypingEnv<'tcx>) -> J {
        let mut o = J::obj();
        o.set("arg_count", J::Int(body.arg_count as i128));
        // user variable names
        let mut names: BTreeMap<u32, String> = BTreeMap::new();
        for v in &body.var_debug_info {
            if let mir::VarDebugInfoContents::Place(p) = &v.value {
                if p.projection.is_empty() {
                    names.entry(p.local.as_u32()).or_insert_with(|| v.name.to_string());
                }
            }
        }
        let mut locals = Vec::new();
        for (l, d) in body.local_decls.iter_enumerated() {
            let mut lo = J::obj().put("ty", J::s(self.ty_s(d.ty)));
            if let TyKind::Adt(adt, _) = d.ty.peel_refs().kind() {
                lo.set("adt", J::s(self.tcx.item_name(adt.did()).to_string()));
            }
            if let Some(n) = names.get(&l.as_u32()) {
                lo.set("name", J::s(n.clone()));
            }
            locals.push(lo);
        }
        o.set("locals", J::Arr(locals));
        let mut blocks = Vec::new();
        for (_bb, data) in body.basic_blocks.iter_enumerated() {
            blocks.push(self.block_json(body, data, env));
        }
        o.set("blocks", J::Arr(blocks));
        o
    }

    fn fn_json(&self, ld: LocalDefId) -> Option<J> {
        let tcx = self.tcx;
        let d = ld.to_def_id();
        let kind = tcx.def_kind(d);
        if !matches!(kind, DefKind::Fn | DefKind::AssocFn | DefKind::Closure) {
            return None;
        }
        if !tcx.is_mir_available(d) {
            return None;
        }
        let body = tcx.optimized_mir(d);
        let env = TypingEnv::post_analysis(tcx, d);
        let mut o = J::obj();
        o.set("key", J::s(self.keys.get(&d).cloned().unwrap_or_default()));
        o.set("path", J::s(self.path(d)));
        o.set("hash", J::s(self.hash(d)));
        o.set("kind", J::s(format!("{:?}", kind)));
        o.set("name", J::s(tcx.opt_item_name(d).map(|s| s.to_string()).unwrap_or_else(|| "{closure}".into())));
        let sp = tcx.def_span(d);
        o.set("span", J::s(span_str(tcx, sp)));
        o.set("from_expansion", J::Bool(sp.from_expansion()));
        if sp.from_expansion() {
            o.set("mac", J::Arr(macro_names(sp).into_iter().map(J::s).collect()));
        }
        if matches!(kind, DefKind::Fn | DefKind::AssocFn) {
            o.set("vis", J::s(format!("{:?}", tcx.visibility(d))));
            let g = tcx.generics_of(d);
            let mut gs = Vec::new();
            let mut cur = Some(g);
            let mut all = Vec::new();
            while let Some(gg) = cur {
                all.push(gg);
                cur = gg.parent.map(|p| tcx.generics_of(p));
            }
            for gg in all.iter().rev() {
                for p in &gg.own_params {
                    gs.push(J::s(p.name.to_string()));
                }
            }
            o.set("generics", J::Arr(gs));
        }
        let parent = tcx.parent(d);
        match tcx.def_kind(parent) {
            DefKind::Trait => {
                o.set("trait_default_of", J::s(tcx.item_name(parent).to_string()));
            }
            DefKind::Impl { .. } => {
                let st = tcx.type_of(parent).instantiate_identity().skip_norm_wip();
                o.set("impl_self", J::s(self.ty_s(st)));
                if let TyKind::Adt(adt, _) = st.peel_refs().kind() {
                    o.set("impl_self_adt", J::s(tcx.item_name(adt.did()).to_string()));
                }
                if let Some(tr) = tcx.impl_opt_trait_ref(parent) {
                    let tr = tr.instantiate_identity().skip_norm_wip();
                    o.set("impl_trait", J::s(tcx.item_name(tr.def_id).to_string()));
                    o.set(
                        "impl_trait_ref",
                        J::s(with_no_trimmed_paths!(strip_paths(&tr.print_only_trait_path().to_string()))),
                    );
                    o.set("impl_trait_crate", J::s(self.crate_of(tr.def_id)));
                }
            }
            _ => {}
        }
        if matches!(kind, DefKind::Closure) {
            if let Some(k) = self.keys.get(&parent) {
                o.set("parent_key", J::s(k.clone()));
            }
        }
        // signature
        if matches!(kind, DefKind::Fn | DefKind::AssocFn) {
            let sig = tcx.fn_sig(d).instantiate_identity().skip_norm_wip().skip_binder();
            o.set("inputs", J::Arr(sig.inputs().iter().map(|t| J::s(self.ty_s(*t))).collect()));
            o.set("output", J::s(self.ty_s(sig.output())));
        }
        let bj = self.body_json(body, env);
        if let J::Obj(items) = bj {
            for (k, v) in items {
                o.set(k, v);
            }
        }
        // promoted bodies
        let proms = tcx.promoted_mir(d);
        if !proms.is_empty() {
            let mut pj = Vec::new();
            for pb in proms.iter() {
                pj.push(self.body_json(pb, env));
            }
            o.set("promoted", J::Arr(pj));
        }
        Some(o)
    }

    fn adts_json(&self) -> J {
        let tcx = self.tcx;
        let mut out = Vec::new();
        for ld in tcx.hir_crate_items(()).definitions() {
            let d = ld.to_def_id();
            if !matches!(tcx.def_kind(d), DefKind::Struct | DefKind::Enum | DefKind::Union) {
                continue;
            }
            let adt = tcx.adt_def(d);
            let mut o = J::obj();
            o.set("name", J::s(tcx.item_name(d).to_string()));
            o.set("path", J::s(self.path(d)));
            o.set("kind", J::s(if adt.is_enum() { "enum" } else if adt.is_struct() { "struct" } else { "union" }));
            o.set("span", J::s(span_str(tcx, tcx.def_span(d))));
            o.set("from_expansion", J::Bool(tcx.def_span(d).from_expansion()));
            let repr = adt.repr();
            if let Some(i) = repr.int {
                o.set("repr", J::s(format!("{:?}", i)));
            }
            o.set("vis", J::s(format!("{:?}", tcx.visibility(d))));
            let g = tcx.generics_of(d);
            o.set("generics", J::Arr(g.own_params.iter().map(|p| J::s(p.name.to_string())).collect()));
            let mut vs = Vec::new();
            let discrs: Vec<(rustc_abi::VariantIdx, ty::util::Discr<'tcx>)> =
                if adt.is_enum() { adt.discriminants(tcx).collect() } else { Vec::new() };
            for (vi, v) in adt.variants().iter_enumerated() {
                let mut vo = J::obj().put("name", J::s(v.name.to_string()));
                vo.set("index", J::Int(vi.as_u32() as i128));
                if let Some((_, dv)) = discrs.iter().find(|(i, _)| *i == vi) {
                    vo.set("discr", J::Int(dv.val as i128));
                }
                let mut fs = Vec::new();
                for f in v.fields.iter() {
                    let fty = tcx.type_of(f.did).instantiate_identity().skip_norm_wip();
                    fs.push(J::obj().put("name", J::s(f.name.to_string())).put("ty", J::s(self.ty_s(fty))));
                }
                vo.set("fields", J::Arr(fs));
                vs.push(vo);
            }
            o.set("variants", J::Arr(vs));
            out.push(o);
        }
        J::Arr(out)
    }

    fn impls_json(&self) -> J {
        let tcx = self.tcx;
        let mut out = Vec::new();
        for ld in tcx.hir_crate_items(()).definitions() {
            let d = ld.to_def_id();
            if !matches!(tcx.def_kind(d), DefKind::Impl { .. }) {
                continue;
            }
            let st = tcx.type_of(d).instantiate_identity().skip_norm_wip();
            let mut o = J::obj();
            o.set("self", J::s(self.ty_s(st)));
            if let TyKind::Adt(adt, _) = st.peel_refs().kind() {
                o.set("self_adt", J::s(tcx.item_name(adt.did()).to_string()));
            }
            o.set("span", J::s(span_str(tcx, tcx.def_span(d))));
            o.set("from_expansion", J::Bool(tcx.def_span(d).from_expansion()));
            if let Some(tr) = tcx.impl_opt_trait_ref(d) {
                let tr = tr.instantiate_identity().skip_norm_wip();
                o.set("trait", J::s(tcx.item_name(tr.def_id).to_string()));
                o.set("trait_ref", J::s(with_no_trimmed_paths!(strip_paths(&tr.print_only_trait_path().to_string()))));
                o.set("trait_crate", J::s(self.crate_of(tr.def_id)));
            }
            let g = tcx.generics_of(d);
            o.set("generics", J::Arr(g.own_params.iter().map(|p| J::s(p.name.to_string())).collect()));
            let mut fns = Vec::new();
            let mut consts = Vec::new();
            let mut tys = Vec::new();
            for it in tcx.associated_items(d).in_definition_order() {
                match tcx.def_kind(it.def_id) {
                    DefKind::AssocFn => {
                        if let Some(k) = self.keys.get(&it.def_id) {
                            fns.push(J::s(k.clone()));
                        }
                    }
                    DefKind::AssocConst { .. } => {
                        let cty = tcx.type_of(it.def_id).instantiate_identity().skip_norm_wip();
                        let mut c = J::obj().put("name", J::s(it.name().to_string()));
                        if g.own_params.is_empty() {
                            if let Ok(v) = tcx.const_eval_poly(it.def_id) {
                                c.set("value", self.const_value_json(v, cty));
                            }
                        }
                        consts.push(c);
                    }
                    DefKind::AssocTy => {
                        let aty = tcx.type_of(it.def_id).instantiate_identity().skip_norm_wip();
                        let mut t = J::obj().put("name", J::s(it.name().to_string())).put("ty", J::s(self.ty_s(aty)));
                        if g.own_params.is_empty() {
                            let env = TypingEnv::fully_monomorphized();
                            if let Ok(l) = tcx.layout_of(env.as_query_input(aty)) {
                                t.set("size", J::Int(l.size.bytes() as i128));
                            }
                        }
                        tys.push(t);
                    }
                    _ => {}
                }
            }
            o.set("fns", J::Arr(fns));
            o.set("consts", J::Arr(consts));
            o.set("types", J::Arr(tys));
            out.push(o);
        }
        J::Arr(out)
    }

    fn traits_json(&self) -> J {
        let tcx = self.tcx;
        let mut out = Vec::new();
        for ld in tcx.hir_crate_items(()).definitions() {
            let d = ld.to_def_id();
            if !matches!(tcx.def_kind(d), DefKind::Trait) {
                continue;
            }
            let mut o = J::obj().put("name", J::s(tcx.item_name(d).to_string()));
            o.set("path", J::s(self.path(d)));
            let mut provided = Vec::new();
            let mut required = Vec::new();
            let mut consts = Vec::new();
            for it in tcx.associated_items(d).in_definition_order() {
                match tcx.def_kind(it.def_id) {
                    DefKind::AssocFn => {
                        if it.defaultness(tcx).has_value() {
                            provided.push(J::s(it.name().to_string()));
                        } else {
                            required.push(J::s(it.name().to_string()));
                        }
                    }
                    DefKind::AssocConst { .. } => consts.push(J::s(it.name().to_string())),
                    _ => {}
                }
            }
            o.set("provided", J::Arr(provided));
            o.set("required", J::Arr(required));
            o.set("consts", J::Arr(consts));
            // supertraits (direct)
            let mut sup = Vec::new();
            for (p, _) in tcx.explicit_super_predicates_of(d).iter_identity_copied().map(|x| x.skip_norm_wip()) {
                if let Some(tp) = p.as_trait_clause() {
                    sup.push(J::s(tcx.item_name(tp.def_id()).to_string()));
                }
            }
            o.set("supertraits", J::Arr(sup));
            out.push(o);
        }
        J::Arr(out)
    }

    fn consts_json(&self) -> J {
        let tcx = self.tcx;
        let mut out = Vec::new();
        for ld in tcx.hir_crate_items(()).definitions() {
            let d = ld.to_def_id();
            match tcx.def_kind(d) {
                DefKind::Const { .. } => {
                    let g = tcx.generics_of(d);
                    if g.own_params.is_empty() && g.parent_count == 0 {
                        let cty = tcx.type_of(d).instantiate_identity().skip_norm_wip();
                        let mut o = J::obj();
                        let name = tcx.opt_item_name(d).map(|s| s.to_string()).unwrap_or_default();
                        let parent = tcx.parent(d);
                        let pk = match tcx.def_kind(parent) {
                            DefKind::Mod => tcx.opt_item_name(parent).map(|s| s.to_string()).unwrap_or_else(|| "crate".into()),
                            _ => self.keys.get(&parent).cloned().unwrap_or_else(|| strip_paths(&self.path(parent))),
                        };
                        o.set("key", J::s(format!("{}::{}", pk, name)));
                        o.set("name", J::s(name));
                        o.set("path", J::s(self.path(d)));
                        o.set("span", J::s(span_str(tcx, tcx.def_span(d))));
                        o.set("from_expansion", J::Bool(tcx.def_span(d).from_expansion()));
                        if let Ok(v) = tcx.const_eval_poly(d) {
                            o.set("value", self.const_value_json(v, cty));
                        }
                        out.push(o);
                    }
                }
                _ => {}
            }
        }
        J::Arr(out)
    }

    fn statics_json(&self) -> J {
        let tcx = self.tcx;
        let mut out = Vec::new();
        for ld in tcx.hir_crate_items(()).definitions() {
            let d = ld.to_def_id();
            if let DefKind::Static { .. } = tcx.def_kind(d) {
                let sty = tcx.type_of(d).instantiate_identity().skip_norm_wip();
                out.push(
                    J::obj()
                        .put("path", J::s(self.path(d)))
                        .put("ty", J::s(self.ty_s(sty)))
                        .put("span", J::s(span_str(tcx, tcx.def_span(d))))
                        .put("from_expansion", J::Bool(tcx.def_span(d).from_expansion()))
                        .put("thread_local", J::Bool(tcx.is_thread_local_static(d)))
                        .put("mutable", J::Bool(tcx.is_mutable_static(d)))
                        // `Freeze` = no interior mutability: an immutable Freeze static is a plain constant table
                        .put("freeze", J::Bool(sty.is_freeze(tcx, ty::TypingEnv::fully_monomorphized()))),
                );
            }
        }
        J::Arr(out)
    }
}

fn inst_kind(i: &Instance<'_>) -> &'static str {
    match i.def {
        ty::InstanceKind::Item(_) => "item",
        ty::InstanceKind::Intrinsic(_) => "intrinsic",
        ty::InstanceKind::Virtual(..) => "virtual",
        ty::InstanceKind::ClosureOnceShim { .. } => "closure_once_shim",
        ty::InstanceKind::FnPtrShim(..) => "fn_ptr_shim",
        ty::InstanceKind::DropGlue(..) => "drop_glue",
        ty::InstanceKind::CloneShim(..) => "clone_shim",
        ty::InstanceKind::ReifyShim(..) => "reify_shim",
        ty::InstanceKind::VTableShim(..) => "vtable_shim",
        _ => "other",
    }
}

pub fn dump<'tcx>(tcx: TyCtxt<'tcx>) -> J {
    let mut cx = Cx { tcx, keys: HashMap::new() };
    // pass 1: keys
    let mut owners: Vec<LocalDefId> = tcx.hir_body_owners().collect();
    owners.sort_by_key(|d| tcx.def_path_hash(d.to_def_id()));
    let mut seen: HashMap<String, Vec<DefId>> = HashMap::new();
    let mut tmp: Vec<(DefId, String)> = Vec::new();
    for ld in &owners {
        let d = ld.to_def_id();
        if !matches!(tcx.def_kind(d), DefKind::Fn | DefKind::AssocFn | DefKind::Closure) {
            continue;
        }
        let k = cx.make_key(d);
        seen.entry(k.clone()).or_default().push(d);
        tmp.push((d, k));
    }
    // also trait-required methods / assoc consts so references get names
    let mut seen2: HashMap<String, Vec<DefId>> = HashMap::new();
    let mut tmp2: Vec<(DefId, String)> = Vec::new();
    for (d, k) in tmp {
        let k = if seen[&k].len() > 1 {
            // disambiguate by full path
            format!("{}@{}", k, cx.path(d))
        } else {
            k
        };
        seen2.entry(k.clone()).or_default().push(d);
        tmp2.push((d, k));
    }
    for (d, k) in tmp2 {
        let group = &seen2[&k];
        let k = if group.len() > 1 {
            // still ambiguous (derive helpers in sibling block scopes): number by source order
            let mut g: Vec<DefId> = group.clone();
            // definition order: the disambiguators along the def path (siblings of the
            // same name are numbered in source order, i.e. field order for derive helpers)
            g.sort_by_key(|x| tcx.def_path(*x).data.iter().map(|e| e.disambiguator).collect::<Vec<u32>>());
            let i = g.iter().position(|x| *x == d).unwrap();
            format!("{}#{}", k, i)
        } else {
            k
        };
        cx.keys.insert(d, k);
    }
    // pass 2: facts
    let mut fns = Vec::new();
    for ld in &owners {
        if let Some(f) = cx.fn_json(*ld) {
            fns.push(f);
        }
    }
    let mut doc = J::obj();
    let mut meta = J::obj();
    meta.set("crate", J::s(tcx.crate_name(LOCAL_CRATE).to_string()));
    meta.set("debug_assertions", J::Bool(tcx.sess.opts.debug_assertions));
    meta.set("overflow_checks", J::Bool(tcx.sess.overflow_checks()));
    let feats: Vec<J> = tcx
        .sess
        .opts
        .cg
        .target_feature
        .split(',')
        .filter(|s| !s.is_empty())
        .map(|s| J::s(s.to_string()))
        .collect();
    meta.set("target_features", J::Arr(feats));
    let mut cfgs: Vec<String> = tcx
        .sess
        .config
        .iter()
        .filter_map(|(k, v)| if k.as_str() == "feature" { v.map(|v| v.to_string()) } else { None })
        .collect();
    cfgs.sort();
    meta.set("features", J::Arr(cfgs.into_iter().map(J::s).collect()));
    meta.set("rustc", J::s(option_env!("CFG_VERSION").unwrap_or("nightly").to_string()));
    doc.set("meta", meta);
    doc.set("adts", cx.adts_json());
    doc.set("impls", cx.impls_json());
    doc.set("traits", cx.traits_json());
    doc.set("consts", cx.consts_json());
    doc.set("statics", cx.statics_json());
    doc.set("fns", J::Arr(fns));
    doc.set("walk", crate::walk::walk(&cx));
    doc
}
