#![feature(rustc_private)]
#![allow(clippy::all)]
//! blsful fact extractor: a rustc driver that, for the crate named by
//! VERIF_CRATE (default `blsful`), dumps MIR/HIR facts as one JSON document to
//! the path given in VERIF_FACTS_OUT. Every other crate is compiled unchanged.
//!
//! Used as RUSTC_WORKSPACE_WRAPPER: argv[1] is the real rustc path and is dropped.

extern crate rustc_abi;
extern crate rustc_data_structures;
extern crate rustc_driver;
extern crate rustc_hir;
extern crate rustc_interface;
extern crate rustc_middle;
extern crate rustc_session;
extern crate rustc_span;

mod facts;
mod json;
mod walk;

use rustc_driver::{Callbacks, Compilation};
use rustc_interface::interface::Compiler;
use rustc_middle::ty::TyCtxt;

struct Cb;

impl Callbacks for Cb {
    fn after_analysis<'tcx>(&mut self, _c: &Compiler, tcx: TyCtxt<'tcx>) -> Compilation {
        let want = std::env::var("VERIF_CRATE").unwrap_or_else(|_| "blsful".to_string());
        let name = tcx.crate_name(rustc_span::def_id::LOCAL_CRATE).to_string();
        if name == want {
            if let Ok(out) = std::env::var("VERIF_FACTS_OUT") {
                // only the lib target (cargo check --lib) is analysed; guard against
                // test/bin targets of the same crate name overwriting the file
                if tcx.sess.opts.test {
                    return Compilation::Continue;
                }
                let doc = facts::dump(tcx);
                let mut s = String::with_capacity(32 << 20);
                doc.write(&mut s);
                std::fs::write(&out, s).expect("cannot write facts");
            }
        }
        Compilation::Continue
    }
}

fn main() {
    let mut args: Vec<String> = std::env::args().collect();
    // RUSTC_WORKSPACE_WRAPPER=<this> : cargo runs `<this> <rustc> <args..>`
    if args.len() > 1 && (args[1].ends_with("rustc") || args[1].contains("/rustc")) {
        args.remove(1);
    }
    let code = rustc_driver::catch_with_exit_code(|| {
        rustc_driver::run_compiler(&args, &mut Cb);
    });
    std::process::exit(if code == std::process::ExitCode::SUCCESS { 0 } else { 1 });
}
