//! Positive controls: every zero-count rule of /verif must fire on this crate.
#![allow(dead_code)]
use blstrs_plus::group::GroupEncoding;
use blstrs_plus::{G1Projective, G2Projective};
use rand_chacha::ChaCha20Rng;
use rand_core::SeedableRng;
use std::cell::RefCell;

// E7 unchecked decoder
pub fn decode_unchecked(b: &<G1Projective as GroupEncoding>::Repr) -> Option<G1Projective> {
    G1Projective::from_bytes_unchecked(b).into()
}
pub fn decode_unchecked2(b: &[u8; 96]) -> Option<blstrs_plus::G2Affine> {
    blstrs_plus::G2Affine::from_compressed_unchecked(b).into()
}
pub fn g2(b: &<G2Projective as GroupEncoding>::Repr) -> Option<G2Projective> {
    G2Projective::from_bytes(b).into()
}

// E7 seeded / cached generators
pub fn seeded() -> ChaCha20Rng {
    ChaCha20Rng::from_seed([7u8; 32])
}
pub fn seeded2() -> ChaCha20Rng {
    ChaCha20Rng::seed_from_u64(42)
}
pub fn threadrng() -> u32 {
    use rand::Rng;
    rand::thread_rng().gen()
}
pub static CACHED: std::sync::OnceLock<[u8; 32]> = std::sync::OnceLock::new();
thread_local! {
    pub static COUNTER: RefCell<u64> = RefCell::new(0);
}
pub fn use_cached() -> [u8; 32] {
    *CACHED.get_or_init(|| [1u8; 32])
}

// E7 element-dropping adapters
pub fn drop_some(v: &[u8]) -> Vec<u8> {
    v.iter().skip(1).step_by(2).copied().collect()
}
pub fn chunky(v: &[u8]) -> bool {
    v.chunks_exact(2).all(|w| w[0] == w[1])
}
pub fn dedup_only(mut v: Vec<Vec<u8>>) -> usize {
    v.dedup();
    v.len()
}

// E8 abort sites
pub fn aborts(v: &[u8]) -> u8 {
    let x: Result<u8, ()> = Err(());
    v[0] + x.unwrap()
}
pub fn clock() -> std::time::SystemTime {
    std::time::SystemTime::now()
}

// E4 table keyed by an 8-bit value with fewer than 256 slots
pub fn short_table(ids: &[u8]) -> bool {
    let mut seen = [false; u8::MAX as usize];
    for id in ids.iter().map(|i| *i as usize) {
        match seen.get_mut(id) {
            Some(used) if !*used => *used = true,
            _ => return false,
        }
    }
    true
}
pub static PLAIN_TABLE: [u8; 4] = [1, 2, 3, 4];

// E7 type reflection: a value that names / measures a type
pub fn reflects<T>() -> (&'static str, usize) {
    (core::any::type_name::<T>(), core::mem::size_of::<T>())
}

// E7 ordering of backend-typed values (name-based control: a type called Scalar)
#[derive(PartialEq, Eq, PartialOrd, Ord, Clone, Copy)]
pub struct Scalar(pub u64);
pub fn orders(a: Scalar, b: Scalar) -> Scalar {
    core::cmp::max(a, b)
}

// E7 textual rendering of a backend-typed value used as data (name-based control: the type called Scalar)
impl core::fmt::Display for Scalar {
    fn fmt(&self, f: &mut core::fmt::Formatter<'_>) -> core::fmt::Result {
        write!(f, "{}", self.0)
    }
}
pub fn renders(a: Scalar) -> (String, String) {
    (a.to_string(), format!("{}", a))
}
