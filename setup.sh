#!/bin/bash
# Build the fact-extraction driver (offline, nightly toolchain, no Cargo dependencies).
set -e
cd "$(dirname "$0")/driver"
export CARGO_NET_OFFLINE=true
cargo +nightly build --release --offline 2>&1 | tail -3
test -x target/release/blsful-facts
echo "driver ready"
