#!/bin/bash
# usage: ingest_benign.sh <worktree> <tag> <first S number> : verify each benign_i.diff (37 tests) and store it as seeded/benign/S<n>
WT=$1; TAG=$2; N=$3
for d in $(ls $WT/benign_*.diff 2>/dev/null | sort); do
  i=$(basename $d .diff | sed 's/benign_//')
  [ -s "$d" ] || { echo "$d empty"; continue; }
  res=$(/verif/tools/verify_benign.sh $d 2>&1)
  passed=$(echo "$res" | grep "^test result" | sed 's/.* \([0-9]*\) passed.*/\1/' | paste -sd+ | bc)
  failed=$(echo "$res" | grep -c "FAILED\|^error")
  if [ "$passed" = "37" ] && [ "$failed" = "0" ]; then
    mkdir -p /verif/seeded/benign/S$N
    cp $d /verif/seeded/benign/S$N/patch.diff
    echo "[sub-agent $TAG] $(cat $WT/benign_$i.txt 2>/dev/null | head -3)" > /verif/seeded/benign/S$N/desc.txt
    echo "S$N <- $d (37 passed)"
    N=$((N+1))
  else
    echo "REJECTED $d: passed=$passed failed=$failed"; echo "$res" | tail -5
  fi
done
echo "next=$N"
