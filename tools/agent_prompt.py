#!/usr/bin/env python3
"""Print the prompt for a mutation sub-agent: property text + scratch worktree only."""
import json, sys
pid, wt = sys.argv[1], sys.argv[2]
variant = sys.argv[3] if len(sys.argv) > 3 else ""
for l in open('/verif/properties.jsonl'):
    p = json.loads(l)
    if p['id'] == pid:
        break
print(f"""You are helping test how well a Rust library's behaviour is protected against regressions.

The library is `blsful` (BLS12-381 signatures: basic/augmentation/proof-of-possession schemes, aggregation, threshold shares, signcryption, time-lock and ElGamal encryption). You have your own scratch git worktree of it at `{wt}` (a detached checkout; Cargo.lock is already in place). Work ONLY inside `{wt}`. Do not read or touch /repo or /verif or any other directory. The sandbox is offline: always pass `--offline` to cargo (e.g. `cd {wt} && cargo test --offline`). The existing test suite (37 tests) passes on the unmodified tree.

Here is a behavioural property the library is supposed to satisfy:

  Title: {p['title']}
  Statement: {p['statement']}
  Quantified over: {p['quantifier']['text']}

Your task: produce ONE small, realistic source change to the library (under `{wt}/src`) that BREAKS this property, while
  (a) the library still compiles (`cargo build --offline`) and
  (b) the entire existing test suite still passes unchanged (`cargo test --offline` -> all 37 pass; do not edit or delete existing tests),
and a DEMONSTRATION: a new integration test file `{wt}/tests/demo_{pid.lower()}.rs` (or a small example program) that FAILS with your change applied and PASSES on the original code.

Requirements for the change:
  - It must look like a plausible regression a maintainer could introduce (a refactor gone wrong, an "optimisation", a dropped check, a swapped constant/argument, an off-by-one, a mismatched branch), not sabotage with obviously weird code.
  - It must need something specific to manifest: an unusual input, a particular variant/scheme/group, a multi-step sequence of operations, a particular build profile, or two cooperating sites that each look fine alone. It must NOT be something ordinary use or the existing tests would expose at once.
  - Keep it small (ideally 1-15 changed lines) and confined to `src/`.
  {variant}

Procedure:
  1. Read the relevant code under `{wt}/src` and `{wt}/tests` to see what the tests do and do not cover.
  2. Write the demonstration test first and check it PASSES on the unmodified code (`cargo test --offline --test demo_{pid.lower()}`).
  3. Make the change. Check the demo now FAILS, and that `cargo test --offline` otherwise still passes all 37 original tests (the only failure must be your demo).
  4. Save the source change as a patch that applies to the original tree:  `cd {wt} && git diff -- src > {wt}/patch.diff`  (the demo test file must NOT be in patch.diff; leave it as an untracked file in tests/).
  5. Leave the worktree with the change applied and the demo in place.

Final answer (short): the property id ({pid}), a 2-4 sentence description of the change and why the existing tests miss it, what is needed for it to manifest, and the exact commands you ran with their pass/fail outcome. If after honest effort you cannot find any such change, say so and explain what you tried.""")
