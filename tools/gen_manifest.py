#!/usr/bin/env python3
"""Generate /verif/MANIFEST.json from the table below + which rule modules exist."""
import importlib
import json
import os
import sys

V = os.path.dirname(os.path.dirname(os.path.abspath(__file__)))
sys.path.insert(0, V)

LEVEL_NOTE_COMMON = (
    "Static analysis of rustc MIR/HIR facts of /repo's current tree (no blsful code is executed). Trusted base: rustc "
    "nightly front end and MIR construction at mir-opt-level=0; the dependency contracts listed in the evidence "
    "'assumptions'; pinned oracle tables under analysis/spec (IETF strings transcribed from the draft, own-protocol "
    "values from the pinned commit). "
)

TECH = {
    "C01": "value numbering + sibling agreement of (tag, message) terms; scheme-arm edge dominance; effect reachability on the call graph; exit census",
    "C02": "must-pass-through (dominance) of the pairing test; pass-through chain on value-numbered terms; iterator pipeline shape; dependence summaries",
    "C03": "const-evaluation vs IETF table; resolved generic arguments; construction terms (bytes normal form) vs pinned spec",
    "C04": "guard dominance on the CFG + subtle::Choice algebra (NNF conjunct test); who-may-call pairing census",
    "C05": "exhaustive constant comparison; scheme-arm purity by edge dominance; tag control dependence; purpose separation on terms",
    "C06": "guard dominance; exit census; iterator-adapter deny-list with positive control; pipeline shape; uniqueness idiom classification",
    "C07": "guard dominance; arm-to-exit rule; accumulation must-pass-through in loops; pass-through of the accumulated key",
    "C08": "pass-through on value-numbered terms; guard dominance; scheme purity; type-level layout check",
    "C09": "sibling agreement of prove/verify construction terms; effect reachability; dependence summaries",
    "C10": "scheme-arm purity / diagonal rule; construction terms; comparison-direction and unit rule on the timeout branch; abort census",
    "C11": "CtOption flag provenance (value numbering); Choice algebra; framing writer/reader inverse-by-shape; dependence summaries",
    "C12": "tag control dependence; Choice algebra; dependence summaries; checked-conversion who-may-call",
    "C13": "Choice algebra on the open flag; diagonal scheme match; sibling agreement seal/unseal/signer; framing",
    "C14": "merlin event-sequence equality (prover/verifier/pinned); field-wise dependence of Add/AddAssign; guard dominance",
    "C15": "codec-kind classification of writer/reader pairs; wire-tag table composition; serde wrapper pairing; endianness shape",
    "C16": "who-may-call (unchecked decoders) with positive control; exact-length guard dominance; reader classification",
    "C17": "abort-site census (MIR Assert + panicking callees) over the untrusted-input call graph with re-checked justifications; finite-domain evaluation of the zero test",
    "C18": "pinned-spec comparison of constants, construction terms, transcript labels, field/variant order",
    "C19": "two-configuration type-check + MIR fact diff modulo backend crate name; cfg census; backend-sampling who-may-call",
    "C20": "RNG constructor census; statics/thread-local census; origin analysis of ephemeral values",
}


def main():
    props = [json.loads(l) for l in open(os.path.join(V, "properties.jsonl"))]
    checks = []
    na = []
    for p in props:
        pid = p["id"]
        modp = os.path.join(V, "analysis", "rules", pid.lower() + ".py")
        if not os.path.exists(modp):
            na.append({"property_id": pid, "reason": "static check for this property is still under construction in this session (design in DESIGN.md section 5); no claim is made yet"})
            continue
        mod = importlib.import_module("analysis.rules." + pid.lower())
        checks.append(
            {
                "property_id": pid,
                "quick_cmd": "./check %s --tier quick" % pid,
                "thorough_cmd": "./check %s --tier thorough" % pid,
                "evidence_file": "evidence/%s.json" % pid,
                "replay_cmd_template": "./check %s --explain {path}" % pid,
                "engine": "blsful-facts + analysis",
                "level_claimed": {
                    "category": "other",
                    "text": mod.EXPLANATION,
                    "design_ref": "DESIGN.md section 5 (%s) and section 12" % pid,
                },
                "level_note": LEVEL_NOTE_COMMON + "Decides the structural clauses named above (necessary conditions of the behaviour), not the arithmetic of the curve/hash dependencies.",
                "technique": "static analysis: " + TECH.get(pid, mod.RULE),
            }
        )
    man = {
        "version": 1,
        "setup_cmd": "./setup.sh",
        "hooks": {
            "guard": "blsful_verif",
            "enable": "none needed: the analysis reads MIR of the unmodified crate (no instrumentation); the guard name is reserved and unused",
            "baseline_off_cmd": "cd /repo && cargo test --workspace --no-fail-fast --offline",
            "source_commits": [],
            "add_only": True,
        },
        "engines": [
            {"name": "blsful-facts", "path": "driver/", "serves_properties": [c["property_id"] for c in checks], "kind_free_text": "rustc_private driver (nightly) used as RUSTC_WORKSPACE_WRAPPER: dumps MIR/HIR facts (CFG, resolved callees, constants, layouts) as JSON"},
            {"name": "analysis", "path": "analysis/", "serves_properties": [c["property_id"] for c in checks], "kind_free_text": "Python rule engines over the facts: dominators, value numbering, Choice algebra, bytes normal form, who-may-call, abort census, codec tables, configuration diff"},
        ],
        "checks": checks,
        "not_applicable": na,
        "notes": "All checks are static (family: static analysis). Repairs of genuine defects in /repo are 'fix:' commits listed in known_findings.json; no hooks are installed.",
    }
    with open(os.path.join(V, "MANIFEST.json"), "w") as fh:
        json.dump(man, fh, indent=1)
    print("claimed:", [c["property_id"] for c in checks])
    print("not_applicable:", [x["property_id"] for x in na])


if __name__ == "__main__":
    main()
