#!/bin/bash
# usage: scratch.sh <patch.diff> -> prints dir of a patched scratch copy of /repo (caller removes it)
d=$(mktemp -d /tmp/verif-scr-XXXX)
cp -r /repo/src /repo/Cargo.toml /repo/Cargo.lock $d/ 2>/dev/null
[ -f /repo/build.rs ] && cp /repo/build.rs $d/
(cd $d && patch -p1 -s -f -i "$1") || { echo PATCHFAIL >&2; }
echo $d
