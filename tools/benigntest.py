#!/usr/bin/env python3
"""Apply each behaviour-preserving variant to /repo, run every claimed check (must stay silent), undo."""
import json, os, subprocess, sys
V = '/verif'
names = [a for a in sys.argv[1:] if not a.startswith('--')] or sorted(os.listdir(V + '/seeded/benign'))
man = json.load(open(V + '/MANIFEST.json'))
props = [c['property_id'] for c in man['checks']]
for a in sys.argv[1:]:
    if a.startswith('--props='):
        props = a.split('=')[1].split(',')
assert subprocess.run(['git', '-C', '/repo', 'status', '--porcelain', '--', 'src'], capture_output=True, text=True).stdout.strip() == ''
res = {}
for n in names:
    d = os.path.join(V, 'seeded', 'benign', n)
    r = subprocess.run(['git', '-C', '/repo', 'apply', d + '/patch.diff'], capture_output=True, text=True)
    if r.returncode:
        print(n, 'PATCH DOES NOT APPLY'); continue
    try:
        alarms = []
        for p in props:
            q = subprocess.run([V + '/check', p], capture_output=True, text=True, cwd=V)
            if q.returncode != 0:
                v = [l for l in q.stdout.splitlines() if l.startswith('  violation')]
                alarms.append((p, v[:2] or q.stdout.strip().splitlines()[-2:]))
        res[n] = alarms
        print('%-5s %s' % (n, 'silent' if not alarms else 'FALSE ALARM: ' + '; '.join('%s %s' % (p, (v[0] if v else '')[:200]) for p, v in alarms)))
        sys.stdout.flush()
    finally:
        subprocess.run(['git', '-C', '/repo', 'checkout', '--', '.'], check=True)
json.dump(res, open('/tmp/benigntest.json', 'w'), indent=1)
