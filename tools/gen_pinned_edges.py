#!/usr/bin/env python3
"""Add `edges` (crate-local call edges caller -> callee of the pinned tree, all configurations) to analysis/spec/pinned_fns.json.
Run on the unchanged tree only.  Used by the MIR inliner: a call edge between two existing functions that the pinned
tree does not have is spliced (normalisation only, like the helper splicing)."""
import json, os, sys
sys.path.insert(0, '/verif')
from analysis.core.report import Ctx
p = '/verif/analysis/spec/pinned_fns.json'
d = json.load(open(p))
edges = set()
ctx = Ctx('C19', 'quick', 0)
progs = [ctx.prog('blst', 'dev'), ctx.prog('blst', 'nodebug'), ctx.prog('rust', 'dev')]
for P in progs:
    keys = {j['key'] for j in P.facts['fns']}
    for j in P.facts['fns']:
        for b in j['blocks']:
            t = b['term']
            if t['k'] in ('call', 'tailcall'):
                c = t.get('callee') or {}
                for k in (c.get('key'), (c.get('resolved') or {}).get('key')):
                    if k and k in keys:
                        edges.add('%s -> %s' % (j['key'], k))
d['edges'] = sorted(edges)
from analysis.core.mirinline import body_hash
hashes = {}
for P in progs:
    for j in P.facts['fns']:
        hashes.setdefault(j['key'], set()).add(body_hash(j))
d['hashes'] = {k: sorted(v) for k, v in sorted(hashes.items())}
d['comment'] = d.get('comment', '') 
json.dump(d, open(p, 'w'), indent=0)
print(len(edges), 'edges', len(hashes), 'hashed bodies')
