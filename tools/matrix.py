#!/usr/bin/env python3
"""Run checks against every seeded change / behaviour-preserving variant on scratch copies (parallel; /repo untouched).
usage: matrix.py seeds|benign|all [name ...] [--props=own|all|C01,C02]
seeds: expected CAUGHT by own property; benign: expected silent for every property."""
import json, os, shutil, subprocess, sys, tempfile
from concurrent.futures import ThreadPoolExecutor
V = '/verif'
args = [a for a in sys.argv[1:] if not a.startswith('--')]
mode = args[0] if args else 'all'
names = args[1:]
props_arg = None
for a in sys.argv[1:]:
    if a.startswith('--props='):
        props_arg = a.split('=', 1)[1]
man = json.load(open(V + '/MANIFEST.json'))
claimed = [c['property_id'] for c in man['checks']]

def copy_repo(dst):
    for n in ('src', 'Cargo.toml', 'Cargo.lock', 'build.rs'):
        p = os.path.join('/repo', n)
        if os.path.isdir(p): shutil.copytree(p, os.path.join(dst, n))
        elif os.path.exists(p): shutil.copy(p, os.path.join(dst, n))

def run(kind, name):
    d = os.path.join(V, 'seeded', name) if kind == 'seed' else os.path.join(V, 'seeded', 'benign', name)
    if kind == 'seed':
        meta = json.load(open(d + '/meta.json'))
        pa = props_arg or 'own'
        props = [meta['property']] + meta.get('also', []) if pa == 'own' else (claimed if pa == 'all' else pa.split(','))
        own = [meta['property']] + meta.get('also', [])
    else:
        pa = props_arg or 'all'
        props = claimed if pa == 'all' else pa.split(',')
        own = []
    t = tempfile.mkdtemp(prefix='verif-mx-')
    out = []
    try:
        copy_repo(t)
        r = subprocess.run(['patch', '-p1', '-s', '-f', '-i', d + '/patch.diff'], cwd=t, capture_output=True, text=True)
        if r.returncode:
            return (kind, name, [('-', 'PATCH-FAILS', r.stdout[:100])])
        env = dict(os.environ, VERIF_REPO=t, VERIF_NO_AUDIT='1', VERIF_EVIDENCE_DIR=t + '/evidence')
        for p in props:
            q = subprocess.run([V + '/check', p], cwd=V, env=env, capture_output=True, text=True)
            viol = [l.strip() for l in q.stdout.splitlines() if l.startswith('  violation')]
            st = 'CAUGHT' if q.returncode == 1 and 'VIOLATION property=' in q.stdout else ('silent' if q.returncode == 0 else 'rc%d' % q.returncode)
            out.append((p, st, viol[0][:230] if viol else ((q.stdout + q.stderr).strip().splitlines() or [''])[-1][:200] if st.startswith('rc') else ''))
    finally:
        shutil.rmtree(t, ignore_errors=True)
    return (kind, name, out, own)

jobs = []
if mode in ('seeds', 'all'):
    for s in sorted(os.listdir(V + '/seeded')):
        if os.path.exists(V + '/seeded/' + s + '/meta.json') and (not names or s in names):
            jobs.append(('seed', s))
if mode in ('benign', 'all'):
    for s in sorted(os.listdir(V + '/seeded/benign')):
        if not names or s in names:
            jobs.append(('benign', s))
res = {}
with ThreadPoolExecutor(max_workers=14) as ex:
    for r in ex.map(lambda j: run(*j), jobs):
        kind, name, out = r[0], r[1], r[2]
        own = r[3] if len(r) > 3 else []
        res[name] = out
        if kind == 'seed':
            owncaught = [p for p, st, _ in out if p in own and st == 'CAUGHT']
            others = [p for p, st, _ in out if p not in own and st != 'silent']
            first = own[0] if own else None
            tested_own = any(p == first for p, _, _ in out)
            verdict = 'CAUGHT by ' + ','.join(owncaught) if owncaught else 'MISSED'
            if owncaught and tested_own and first not in owncaught:
                verdict = 'OWN-MISSED (' + first + '); caught by ' + ','.join(owncaught)
            print('%-18s %s%s' % (name, verdict, ('  (also: ' + ','.join(others) + ')') if others else ''))
            for p, st, v in out:
                if st != 'silent':
                    print('      %s %s %s' % (p, st, v))
        else:
            al = [(p, st, v) for p, st, v in out if st != 'silent']
            print('%-18s %s' % (name, 'silent' if not al else 'FALSE ALARM'))
            for p, st, v in al:
                print('      %s %s %s' % (p, st, v))
        sys.stdout.flush()
json.dump(res, open('/tmp/matrix.json', 'w'), indent=1)
