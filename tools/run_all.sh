#!/bin/bash
# Run every claimed check on /repo's current tree and validate MANIFEST + evidence.
#   run_all.sh            quick tier
#   run_all.sh thorough   thorough tier (second backend + mutation audit; slow)
#   run_all.sh both       quick, then thorough without the mutation audit (catches config-dependent alarms), then quick
#                         again so that the committed evidence is the quick tier's
cd "$(dirname "$0")/.."
tier=${1:-quick}
rc=0
props=$(python3 -c "import json;print(' '.join(c['property_id'] for c in json.load(open('MANIFEST.json'))['checks']))")
run() {
  for p in $props; do
    $2 ./check $p --tier $1 2>/dev/null | grep -E "^C[0-9]+:|VIOLATION|KNOWN-FINDING" || rc=1
    [ "${PIPESTATUS[0]}" = "0" ] || rc=1
  done
}
if [ "$tier" = "both" ]; then
  run thorough "env VERIF_NO_AUDIT=1"
  run quick ""
else
  run $tier ""
fi
python3-vt tools/validate.py || rc=1
exit $rc
