#!/bin/bash
# Run every claimed check (quick tier by default) on /repo's current tree and validate MANIFEST + evidence.
cd "$(dirname "$0")/.."
tier=${1:-quick}
rc=0
for p in $(python3 -c "import json;print(' '.join(c['property_id'] for c in json.load(open('MANIFEST.json'))['checks']))"); do
  ./check $p --tier $tier 2>/dev/null | grep -E "^C[0-9]+:|VIOLATION|KNOWN-FINDING" || rc=1
  [ "${PIPESTATUS[0]}" = "0" ] || rc=1
done
python3-vt tools/validate.py || rc=1
exit $rc
