#!/bin/bash
# usage: verify_benign.sh <patch.diff> : apply to a scratch worktree of /repo, run the pinned suite, remove the worktree
set -e
p=$(readlink -f "$1")
d=$(mktemp -d /tmp/verif-wt-XXXX); rmdir $d
git -C /repo worktree add -q --detach $d HEAD
trap 'git -C /repo worktree remove --force $d >/dev/null 2>&1; rm -rf $d' EXIT
git -C $d apply "$p"
(cd $d && CARGO_NET_OFFLINE=true CARGO_TARGET_DIR=/tmp/verif-benign-target cargo test --workspace --no-fail-fast --offline 2>&1 | grep -E "^test result|FAILED|error(\[|:)" | head -20)
