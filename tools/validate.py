#!/usr/bin/env python3-vt
import json, jsonschema, sys, glob
jsonschema.validate(json.load(open('/verif/MANIFEST.json')), json.load(open('/root/.vp/MANIFEST.schema.json')))
sch = json.load(open('/root/.vp/EVIDENCE.schema.json'))
n = 0
for p in sorted(glob.glob('/verif/evidence/C??.json')):
    jsonschema.validate(json.load(open(p)), sch); n += 1
print('manifest valid; %d evidence files valid' % n)
