#!/usr/bin/env python3
"""Prompt for a sub-agent that writes behaviour-preserving refactorings (to test for false alarms)."""
import sys
wt, area, n = sys.argv[1], sys.argv[2], sys.argv[3]
print(f"""You are helping test a code-review tool for false alarms. The tool inspects a Rust library and must stay silent when the code's behaviour has not changed.

The library is `blsful` (BLS12-381 signatures, aggregation, threshold shares, signcryption, time-lock and ElGamal encryption). You have a scratch git worktree of it at `{wt}` (Cargo.lock is in place). Work ONLY inside `{wt}`; do not read or touch /repo or /verif or other directories. The sandbox is offline: always pass `--offline` to cargo.

Your task: produce {n} DIFFERENT, realistic, strictly BEHAVIOUR-PRESERVING refactorings of the library's source, each as a separate patch, in this area of the code: {area}.

Rules for each refactoring:
  - The observable behaviour of every public function must be EXACTLY the same for every input (same results, same errors in the same situations, no new panics, no removed checks, same bytes on the wire). Think carefully about edge cases (empty inputs, overflow, order of checks when both fail is allowed to change only if the returned error variant stays the same).
  - It should be the kind of change a maintainer makes while tidying up: extract a helper function, inline a helper, rewrite a loop with iterator adapters (or the reverse), replace `if let` by `match`, reorder independent statements or match arms, rename locals, use a different but equivalent std API (e.g. HashSet instead of HashMap when the value is unused, `resize` under a length guard instead of a push loop, `windows(2)` instead of comparing with the first element when that is equivalent, `fold` instead of a for loop), move a function to another module, introduce a small private mapping function for a repeated `match`, etc.
  - 5 to 40 changed lines each, confined to `src/`. Each patch must apply to the ORIGINAL tree on its own (not stacked).
  - The library must compile (`cargo build --offline`) and the full test suite must pass (`cargo test --offline`, 37 tests) with the patch applied.

Procedure for each refactoring i = 1..{n}:
  1. start from a clean tree (`cd {wt} && git checkout -- src`),
  2. make the change, run `cargo test --offline` and confirm all 37 tests pass,
  3. save it: `git diff -- src > {wt}/benign_i.diff` (use the actual number for i),
  4. write one line describing it to `{wt}/benign_i.txt`.
Finish with a clean tree (`git checkout -- src`).

Final answer: a numbered list of the {n} refactorings (one sentence each, naming the function touched) and confirmation that each passed the 37 tests.""")
