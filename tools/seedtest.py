#!/usr/bin/env python3
"""Apply each seeded change to /repo, run checks, undo.  usage: seedtest.py [seed ...] [--props C01,C02|all|own]
Prints a matrix seed x property -> caught (exit 1 with VIOLATION) / missed."""
import json, os, subprocess, sys
V = '/verif'
seeds = [a for a in sys.argv[1:] if not a.startswith('--')]
props_arg = 'own'
for a in sys.argv[1:]:
    if a.startswith('--props'):
        props_arg = a.split('=', 1)[1]
if not seeds:
    seeds = sorted(s for s in os.listdir(V + '/seeded') if os.path.exists(V + '/seeded/' + s + '/meta.json'))
man = json.load(open(V + '/MANIFEST.json')) if os.path.exists(V + '/MANIFEST.json') else {'checks': []}
claimed = [c['property_id'] for c in man['checks']]
res = {}
assert subprocess.run(['git', '-C', '/repo', 'status', '--porcelain', '--', 'src', 'Cargo.toml'], capture_output=True, text=True).stdout.strip() == '', '/repo not clean'
for s in seeds:
    d = os.path.join(V, 'seeded', s)
    meta = json.load(open(d + '/meta.json'))
    if props_arg == 'own':
        props = [meta['property']] + [p for p in meta.get('also', [])]
    elif props_arg == 'all':
        props = claimed
    else:
        props = props_arg.split(',')
    r = subprocess.run(['git', '-C', '/repo', 'apply', d + '/patch.diff'], capture_output=True, text=True)
    if r.returncode != 0:
        print(s, 'PATCH DOES NOT APPLY', r.stderr[:200]); continue
    try:
        for p in props:
            if not os.path.exists(V + '/analysis/rules/%s.py' % p.lower()):
                res[(s, p)] = 'nocheck'; continue
            q = subprocess.run([V + '/check', p], capture_output=True, text=True, cwd=V)
            viol = [l for l in q.stdout.splitlines() if l.startswith('  violation')]
            res[(s, p)] = 'CAUGHT' if q.returncode == 1 and 'VIOLATION property=' in q.stdout else ('missed' if q.returncode == 0 else 'rc%d' % q.returncode)
            print('%-8s %-4s %-7s %s' % (s, p, res[(s, p)], (viol[0][:220] if viol else (q.stdout.strip().splitlines() or [''])[-1][:160] if q.returncode not in (0,1) else '')))
            sys.stdout.flush()
    finally:
        subprocess.run(['git', '-C', '/repo', 'checkout', '--', '.'], check=True)
json.dump({'%s/%s' % k: v for k, v in res.items()}, open('/tmp/seedtest.json', 'w'), indent=1)
