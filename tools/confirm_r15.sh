#!/bin/bash
# usage: confirm_r3.sh <Cxx> "<change>" "<needs>" [also,props]
P=$1; CH=$2; NEEDS=$3; ALSO=${4:-}
N=A15-$P; WT=/tmp/wt/r15-$P
/verif/tools/confirm_seed.sh $N $WT $P > /tmp/wt/confirm-r15-$P.log 2>&1
tail -2 /tmp/wt/confirm-r15-$P.log
if grep -q "^CONFIRMED" /tmp/wt/confirm-r15-$P.log; then
python3 - "$N" "$P" "$CH" "$NEEDS" "$ALSO" <<'PY'
import json, sys
n, p, ch, needs, also = sys.argv[1:6]
m = {"property": p, "also": [a for a in also.split(',') if a], "source": "independent sub-agent, fifteenth round (given only the property text, a scratch worktree and a one-line hint of what earlier attempts did)", "change": ch, "needs_to_manifest": needs,
     "confirmed": {"with_change": "cargo test --offline --no-fail-fast: 37 original tests pass, demo fails (with_change.summary)", "without_change": "demo passes (without_change.summary)", "by": "tools/confirm_seed.sh in the scratch worktree, then worktree removed"},
     "demo": [f for f in __import__('os').listdir('/verif/seeded/' + n) if f.startswith('demo_')][0]}
json.dump(m, open('/verif/seeded/%s/meta.json' % n, 'w'), indent=1)
PY
git -C /repo worktree remove --force $WT && rm -rf $WT
else
echo "NOT CONFIRMED: worktree kept at $WT"
fi
