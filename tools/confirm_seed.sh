#!/bin/bash
# usage: confirm_seed.sh <seed-name> <worktree> <property> ; confirms a sub-agent's change and stores it under /verif/seeded/<seed-name>
# steps: (1) patch applied: full suite -> 37 original pass, demo fails; (2) patch reverted: demo passes; (3) store; worktree removed by caller
set -u
NAME=$1; WT=$2; PROP=$3
OUT=/verif/seeded/$NAME
mkdir -p $OUT
cd $WT || exit 2
DEMO=$(ls tests/demo_* 2>/dev/null | head -1)
[ -z "$DEMO" ] && { echo "no demo"; exit 2; }
DEMONAME=$(basename $DEMO .rs)
git diff -- src > $OUT/patch.diff
[ -s $OUT/patch.diff ] || { echo "empty patch"; exit 2; }
cp $DEMO $OUT/
export CARGO_NET_OFFLINE=true
# (1) with change
cargo test --offline --no-fail-fast > $OUT/with_change.log 2>&1
ORIG_PASS=$(grep -E "^test result:" $OUT/with_change.log | awk '{s+=$4} END{print s}')
DEMO_FAIL=$(awk "/Running tests\/$DEMONAME.rs/,/test result:/" $OUT/with_change.log | grep -E "^test result:" | awk '{print $6}')
DEMO_PASS_W=$(awk "/Running tests\/$DEMONAME.rs/,/test result:/" $OUT/with_change.log | grep -E "^test result:" | awk '{print $4}')
OTHER_FAIL=$(grep -E "^test result:" $OUT/with_change.log | awk '{s+=$6} END{print s}')
# (2) without change
git apply -R $OUT/patch.diff || { echo "cannot reverse patch"; exit 2; }
cargo test --offline --test $DEMONAME > $OUT/without_change.log 2>&1
RC2=$?
git apply $OUT/patch.diff
DEMO_PASS_WO=$(grep -E "^test result:" $OUT/without_change.log | awk '{print $4}')
DEMO_FAIL_WO=$(grep -E "^test result:" $OUT/without_change.log | awk '{print $6}')
ORIG37=$((ORIG_PASS - ${DEMO_PASS_W:-0}))
echo "seed=$NAME prop=$PROP with_change: original_passed=$ORIG37 demo_failed=${DEMO_FAIL:-?} all_failed=$OTHER_FAIL ; without_change: demo_passed=${DEMO_PASS_WO:-?} demo_failed=${DEMO_FAIL_WO:-?} rc=$RC2"
if [ "$ORIG37" = "37" ] && [ "${DEMO_FAIL:-0}" -ge 1 ] && [ "$OTHER_FAIL" = "${DEMO_FAIL}" ] && [ "$RC2" = "0" ]; then
  echo CONFIRMED
  tail -5 $OUT/with_change.log > $OUT/with_change.tail; grep -E "^test result:|Running|panicked" $OUT/with_change.log | head -40 > $OUT/with_change.summary
  grep -E "^test result:|Running" $OUT/without_change.log > $OUT/without_change.summary
  rm -f $OUT/with_change.log $OUT/without_change.log $OUT/with_change.tail
  exit 0
else
  echo NOT-CONFIRMED; exit 1
fi
