"""MIR-level desugaring of Option / Result / bool combinators that take a closure literal, and jump threading over
known constructors.  Applied (by mirinline.inline_helpers) only to functions whose body differs from the pinned tree.

`opt.map(|x| ..)`, `.filter(..)`, `.map_or_else(.., ..)`, `.ok_or_else(..)`, `res.map_err(..)`, `flag.then(..)` are
calls into std that hide a branch and a closure body.  Rewritten as what they mean - a switch on the discriminant with
the closure bodies spliced into the arms - the guard rules, the abort census and the byte-layout rules see the same
control flow as for the `match` / `if let` the combinator stands for.  A second pass threads jumps: when every way into
`x?` / `match x` assigns `x` a known constructor, each way gets its own copy of the test and goes straight to the arm
its constructor selects (otherwise the branch that built `Err(..)` and the `?` that tests for it look unrelated)."""
import copy

from .mirinline import _remap, _preds_of, _known_ctor, _succs, MAX_BLOCKS

OPTION = {"adt": "Option", "adt_path": "std::option::Option"}
RESULT = {"adt": "Result", "adt_path": "std::result::Result"}

# receiver kind, method -> {variant: expression}.  Expressions:
#   ("payload",) | ("call", k, "payload"|"ref_payload"|"none") | ("ctor", kind, variant, expr|None) | ("arg", k)
#   | ("bool", 0|1) | ("if", call_expr, then_expr, else_expr)
# k indexes the call's arguments (0 is the receiver).
TABLE = {
    ("Option", "map"): {"Some": ("ctor", "Option", "Some", ("call", 1, "payload")), "None": ("ctor", "Option", "None", None)},
    ("Option", "and_then"): {"Some": ("call", 1, "payload"), "None": ("ctor", "Option", "None", None)},
    ("Option", "filter"): {"Some": ("if", ("call", 1, "ref_payload"), ("ctor", "Option", "Some", ("payload",)), ("ctor", "Option", "None", None)), "None": ("ctor", "Option", "None", None)},
    ("Option", "map_or"): {"Some": ("call", 2, "payload"), "None": ("arg", 1)},
    ("Option", "map_or_else"): {"Some": ("call", 2, "payload"), "None": ("call", 1, "none")},
    ("Option", "unwrap_or_else"): {"Some": ("payload",), "None": ("call", 1, "none")},
    ("Option", "ok_or_else"): {"Some": ("ctor", "Result", "Ok", ("payload",)), "None": ("ctor", "Result", "Err", ("call", 1, "none"))},
    ("Option", "or_else"): {"Some": ("ctor", "Option", "Some", ("payload",)), "None": ("call", 1, "none")},
    ("Option", "is_some_and"): {"Some": ("call", 1, "payload"), "None": ("bool", 0)},
    ("Option", "is_none_or"): {"Some": ("call", 1, "payload"), "None": ("bool", 1)},
    ("Result", "map"): {"Ok": ("ctor", "Result", "Ok", ("call", 1, "payload")), "Err": ("ctor", "Result", "Err", ("payload",))},
    ("Result", "map_err"): {"Ok": ("ctor", "Result", "Ok", ("payload",)), "Err": ("ctor", "Result", "Err", ("call", 1, "payload"))},
    ("Result", "and_then"): {"Ok": ("call", 1, "payload"), "Err": ("ctor", "Result", "Err", ("payload",))},
    ("Result", "or_else"): {"Ok": ("ctor", "Result", "Ok", ("payload",)), "Err": ("call", 1, "payload")},
    ("Result", "unwrap_or_else"): {"Ok": ("payload",), "Err": ("call", 1, "payload")},
    ("Result", "is_ok_and"): {"Ok": ("call", 1, "payload"), "Err": ("bool", 0)},
    ("Result", "is_err_and"): {"Ok": ("bool", 0), "Err": ("call", 1, "payload")},
    ("bool", "then"): {"true": ("ctor", "Option", "Some", ("call", 1, "none")), "false": ("ctor", "Option", "None", None)},
}
VARIANTS = {"Option": [("None", 0, False), ("Some", 1, True)], "Result": [("Ok", 0, True), ("Err", 1, True)]}


def _receiver_kind(c):
    s = str(c.get("impl_self") or "")
    if s.startswith("Option<"):
        return "Option"
    if s.startswith("Result<"):
        return "Result"
    if s == "bool" or c.get("path", "").startswith("core::bool::<impl bool>") or c.get("path", "").startswith("std::bool::<impl bool>"):
        return "bool"
    return None


def _fn_item(a):
    """The function a constant operand names (`BlsError::from`, a tuple-struct constructor), else None."""
    if isinstance(a, dict) and isinstance(a.get("const"), dict) and isinstance(a["const"].get("fn"), dict):
        return a["const"]["fn"]
    return None


def _closure_defs(j):
    """local -> (closure key, block, stmt index) for closure aggregates assigned exactly once."""
    out, many = {}, set()
    for bi, b in enumerate(j["blocks"]):
        for si, s in enumerate(b["stmts"]):
            if s["k"] == "assign" and "p" not in s["place"] and isinstance(s["rv"].get("agg"), dict) and s["rv"]["agg"].get("closure"):
                l = s["place"]["l"]
                if l in out:
                    many.add(l)
                out[l] = (s["rv"]["agg"].get("key"), bi, si)
    for l in many:
        out.pop(l, None)
    return out


def _uses_of(j, local):
    n = 0
    for b in j["blocks"]:
        for x in _walk(b):
            if isinstance(x, dict) and x.get("l") == local:
                n += 1
    return n


def _walk(x):
    if isinstance(x, dict):
        yield x
        for v in x.values():
            for y in _walk(v):
                yield y
    elif isinstance(x, list):
        for v in x:
            for y in _walk(v):
                yield y


def _calls_in(expr):
    if not isinstance(expr, tuple):
        return []
    out = []
    if expr[0] == "call":
        out.append(expr[1])
    for e in expr[1:]:
        out += _calls_in(e)
    return out


def desugar_combinators(j, by_key, depth=0):
    """Copy of function JSON j with the combinator calls of TABLE (whose closure arguments are closure literals built
    in j) lowered to switches with the closure bodies spliced in.  Returns j itself when nothing applies."""
    if depth > 2 or len(j["blocks"]) > MAX_BLOCKS:
        return j
    cdefs = _closure_defs(j)
    sites = []
    for i, b in enumerate(j["blocks"]):
        t = b["term"]
        if t["k"] != "call" or t.get("target") is None:
            continue
        c = t.get("callee") or {}
        if c.get("crate") not in ("core", "std", "alloc"):
            continue
        kind = _receiver_kind(c)
        spec = TABLE.get((kind, c.get("name")))
        if spec is None or not isinstance(t.get("dest"), dict):
            continue
        need = sorted({k for e in spec.values() for k in _calls_in(e)})
        ok = True
        for k in need:
            if k >= len(t["args"]):
                ok = False
                break
            a = t["args"][k]
            fi = _fn_item(a)
            if fi is not None:
                # a function item (`.map_err(BlsError::from)`, `.map(Wrapper)`): called / built in the arm
                if fi.get("ctor") and fi["ctor"].get("variant") != fi["ctor"].get("adt"):
                    ok = False
                    break
                continue
            pl = (a.get("move") or a.get("copy")) if isinstance(a, dict) else None
            if not pl or "p" in pl or pl["l"] not in cdefs or cdefs[pl["l"]][0] not in by_key:
                ok = False
                break
            h = by_key[cdefs[pl["l"]][0]]
            if len(h["blocks"]) > MAX_BLOCKS or any(bb["term"]["k"] in ("call", "tailcall") and (bb["term"].get("callee") or {}).get("key") == h["key"] for bb in h["blocks"]):
                ok = False
                break
        # the receiver must be a plain local moved in
        r0 = t["args"][0] if t["args"] else None
        rpl = (r0.get("move") or r0.get("copy")) if isinstance(r0, dict) else None
        if not ok or not rpl or "p" in rpl:
            continue
        sites.append((i, kind, spec))
    if not sites:
        return j
    nj = dict(j)
    nj["locals"] = list(j["locals"])
    nj["blocks"] = [dict(b, stmts=list(b["stmts"])) for b in j["blocks"]]
    nj["desugared"] = list(j.get("desugared", []))
    blocks = nj["blocks"]

    def new_local(ty="?"):
        nj["locals"].append({"ty": ty})
        return len(nj["locals"]) - 1

    def new_block(stmts, term):
        blocks.append({"stmts": stmts, "term": term})
        return len(blocks) - 1

    for i, kind, spec in sites:
        t = blocks[i]["term"]
        sp = t.get("sp")
        dest, cont = t["dest"], t["target"]
        recv = (t["args"][0].get("move") or t["args"][0].get("copy"))["l"]

        def emit(expr, payload_place, out_place, nxt):
            """Blocks computing `expr` into out_place and continuing at nxt; returns the entry block."""
            k = expr[0]
            if k == "payload":
                return new_block([{"k": "assign", "place": out_place, "rv": {"use": {"move": payload_place}}, "sp": sp}], {"k": "goto", "target": nxt, "sp": sp})
            if k == "arg":
                return new_block([{"k": "assign", "place": out_place, "rv": {"use": t["args"][expr[1]]}, "sp": sp}], {"k": "goto", "target": nxt, "sp": sp})
            if k == "bool":
                return new_block([{"k": "assign", "place": out_place, "rv": {"use": {"const": {"bool": bool(expr[1]), "ty": "bool"}}}, "sp": sp}], {"k": "goto", "target": nxt, "sp": sp})
            if k == "ctor":
                _, adt, var, inner = expr
                meta = dict(OPTION if adt == "Option" else RESULT)
                vi = {"None": 0, "Some": 1, "Ok": 0, "Err": 1}[var]
                if inner is None:
                    return new_block([{"k": "assign", "place": out_place, "rv": {"agg": dict(meta, variant=var, vi=vi, fields=[]), "ops": []}, "sp": sp}], {"k": "goto", "target": nxt, "sp": sp})
                tmp = new_local()
                wrap = new_block([{"k": "assign", "place": out_place, "rv": {"agg": dict(meta, variant=var, vi=vi, fields=["0"]), "ops": [{"move": {"l": tmp}}]}, "sp": sp}], {"k": "goto", "target": nxt, "sp": sp})
                return emit(inner, payload_place, {"l": tmp}, wrap)
            if k == "if":
                _, cond, et, ee = expr
                cl = new_local("bool")
                bt = emit(et, payload_place, out_place, nxt)
                be = emit(ee, payload_place, out_place, nxt)
                sw = new_block([], {"k": "switch", "discr": {"move": {"l": cl}}, "ty": "bool", "arms": [[0, be]], "otherwise": bt, "sp": sp})
                return emit(cond, payload_place, {"l": cl}, sw)
            if k == "call":
                _, ak, mode = expr
                fi = _fn_item(t["args"][ak])
                if fi is not None:
                    if mode == "none":
                        cargs = []
                        pre_ = []
                    elif mode == "ref_payload":
                        rl = new_local()
                        pre_ = [{"k": "assign", "place": {"l": rl}, "rv": {"ref": payload_place, "mut": False}, "sp": sp}]
                        cargs = [{"move": {"l": rl}}]
                    else:
                        pre_ = []
                        cargs = [{"move": payload_place}]
                    if fi.get("ctor"):
                        ct = fi["ctor"]
                        return new_block(pre_ + [{"k": "assign", "place": out_place, "rv": {"agg": {"adt": ct["adt"], "adt_path": ct.get("adt_path"), "variant": ct["variant"], "vi": 0, "fields": ["0"] if cargs else []}, "ops": cargs}, "sp": sp}], {"k": "goto", "target": nxt, "sp": sp})
                    return new_block(pre_, {"k": "call", "callee": dict(fi), "args": cargs, "arg_tys": ["?"] * len(cargs), "dest": out_place, "target": nxt, "sp": sp, "fn_sp": sp})
                cl_local = (t["args"][ak].get("move") or t["args"][ak].get("copy"))["l"]
                h = desugar_combinators(by_key[cdefs[cl_local][0]], by_key, depth + 1)
                lo, bo = len(nj["locals"]), len(blocks)
                nj["locals"].extend(copy.deepcopy(h["locals"]))
                po = len(nj.get("promoted") or [])
                if h.get("promoted"):
                    nj["promoted"] = list(nj.get("promoted") or []) + list(h["promoted"])
                pre = []
                envty = str(h["locals"][1].get("ty") or "") if len(h["locals"]) > 1 else ""
                if envty.startswith("&"):
                    pre.append({"k": "assign", "place": {"l": lo + 1}, "rv": {"ref": {"l": cl_local}, "mut": envty.startswith("&mut")}, "sp": sp})
                else:
                    pre.append({"k": "assign", "place": {"l": lo + 1}, "rv": {"use": {"copy": {"l": cl_local}}}, "sp": sp})
                if mode != "none" and h["arg_count"] >= 2:
                    if mode == "ref_payload":
                        pre.append({"k": "assign", "place": {"l": lo + 2}, "rv": {"ref": payload_place, "mut": False}, "sp": sp})
                    else:
                        pre.append({"k": "assign", "place": {"l": lo + 2}, "rv": {"use": {"move": payload_place}}, "sp": sp})
                for hb in h["blocks"]:
                    nb = _remap(hb, lo, bo, po if h.get("promoted") else 0)
                    if nb["term"]["k"] == "return":
                        nb["stmts"] = list(nb["stmts"]) + [{"k": "assign", "place": out_place, "rv": {"use": {"move": {"l": lo}}}, "sp": sp}]
                        nb["term"] = {"k": "goto", "target": nxt, "sp": sp}
                    blocks.append(nb)
                nj["desugared"].append(h["key"])
                return new_block(pre, {"k": "goto", "target": bo, "sp": sp})
            raise ValueError(k)

        if kind == "bool":
            bt = emit(spec["true"], None, dest, cont)
            bf = emit(spec["false"], None, dest, cont)
            blocks[i]["term"] = {"k": "switch", "discr": {"copy": {"l": recv}}, "ty": "bool", "arms": [[0, bf]], "otherwise": bt, "sp": sp, "desugared_call": (t.get("callee") or {}).get("path")}
            continue
        meta = OPTION if kind == "Option" else RESULT
        arms = []
        for var, vi, has in VARIANTS[kind]:
            pp = {"l": recv, "p": [{"dc": var, "vi": vi}, {"f": 0, "n": "0"}]} if has else None
            arms.append([vi, emit(spec[var], pp, dest, cont)])
        dl = new_local("isize")
        unreachable = new_block([], {"k": "unreachable", "sp": sp})
        blocks[i]["stmts"].append({"k": "assign", "place": {"l": dl}, "rv": dict({"discr": {"l": recv}}, **meta), "sp": sp})
        blocks[i]["term"] = {"k": "switch", "discr": {"move": {"l": dl}}, "ty": "isize", "arms": arms, "otherwise": unreachable, "sp": sp, "desugared_call": (t.get("callee") or {}).get("path")}
    _retire_closures(nj)
    return nj



def desugar_for_each(j, by_key):
    """`iter.for_each(|x| body)` with a closure literal is the loop `for x in iter { body }`: rewritten as such (a header
    calling `Iterator::next`, a switch on its discriminant, the closure body spliced in with the Some payload as its
    parameter), so that the loop rules - push loops, transcript loops, per-element guards - read it like any `for`."""
    if len(j["blocks"]) > MAX_BLOCKS:
        return j
    cdefs = _closure_defs(j)
    sites = []
    for i, b in enumerate(j["blocks"]):
        t = b["term"]
        if t["k"] != "call" or t.get("target") is None or not isinstance(t.get("dest"), dict):
            continue
        c = t.get("callee") or {}
        if c.get("crate") not in ("core", "std") or c.get("trait") != "Iterator" or c.get("name") != "for_each" or len(t.get("args", [])) != 2:
            continue
        it, cl = t["args"]
        ipl = (it.get("move") or it.get("copy")) if isinstance(it, dict) else None
        cpl = (cl.get("move") or cl.get("copy")) if isinstance(cl, dict) else None
        if not ipl or "p" in ipl or not cpl or "p" in cpl or cpl["l"] not in cdefs or cdefs[cpl["l"]][0] not in by_key:
            continue
        h = by_key[cdefs[cpl["l"]][0]]
        if len(h["blocks"]) > MAX_BLOCKS or h["arg_count"] != 2:
            continue
        sites.append(i)
    if not sites:
        return j
    nj = dict(j)
    nj["locals"] = list(j["locals"])
    nj["blocks"] = [dict(b, stmts=list(b["stmts"])) for b in j["blocks"]]
    nj["desugared"] = list(j.get("desugared", []))
    blocks = nj["blocks"]

    def new_local(ty="?"):
        nj["locals"].append({"ty": ty})
        return len(nj["locals"]) - 1

    def new_block(stmts, term):
        blocks.append({"stmts": stmts, "term": term})
        return len(blocks) - 1

    for i in sites:
        t = blocks[i]["term"]
        sp = t.get("sp")
        c = t["callee"]
        itl = (t["args"][0].get("move") or t["args"][0].get("copy"))["l"]
        cl_local = (t["args"][1].get("move") or t["args"][1].get("copy"))["l"]
        ity = (c.get("args") or ["?"])[0]
        h = by_key[cdefs[cl_local][0]]
        opt = new_local("Option<?>")
        refl = new_local("&mut " + str(ity))
        dl = new_local("isize")
        unit = new_local("()")
        exitb = new_block([{"k": "assign", "place": t["dest"], "rv": {"agg": {"tuple": True}, "ops": []}, "sp": sp}], {"k": "goto", "target": t["target"], "sp": sp})
        unreachable = new_block([], {"k": "unreachable", "sp": sp})
        # header: _opt = Iterator::next(&mut it)
        next_callee = {"path": "std::iter::Iterator::next", "crate": "core", "name": "next", "local": False, "args": [ity], "args_full": [ity], "trait": "Iterator", "trait_path": "std::iter::Iterator", "trait_crate": "core", "self_ty": ity}
        sw = new_block([{"k": "assign", "place": {"l": dl}, "rv": dict({"discr": {"l": opt}}, **OPTION), "sp": sp}], None)
        header = new_block([{"k": "assign", "place": {"l": refl}, "rv": {"ref": {"l": itl}, "mut": True}, "sp": sp}], {"k": "call", "callee": next_callee, "args": [{"move": {"l": refl}}], "arg_tys": ["&mut " + str(ity)], "dest": {"l": opt}, "target": sw, "sp": sp, "fn_sp": sp, "mac": ["desugar:ForLoop"]})
        # body: the closure with the Some payload as its argument
        lo, bo = len(nj["locals"]), len(blocks)
        nj["locals"].extend(copy.deepcopy(h["locals"]))
        po = len(nj.get("promoted") or [])
        if h.get("promoted"):
            nj["promoted"] = list(nj.get("promoted") or []) + list(h["promoted"])
        pre = []
        envty = str(h["locals"][1].get("ty") or "") if len(h["locals"]) > 1 else ""
        if envty.startswith("&"):
            pre.append({"k": "assign", "place": {"l": lo + 1}, "rv": {"ref": {"l": cl_local}, "mut": envty.startswith("&mut")}, "sp": sp})
        else:
            pre.append({"k": "assign", "place": {"l": lo + 1}, "rv": {"use": {"copy": {"l": cl_local}}}, "sp": sp})
        pre.append({"k": "assign", "place": {"l": lo + 2}, "rv": {"use": {"move": {"l": opt, "p": [{"dc": "Some", "vi": 1}, {"f": 0, "n": "0"}]}}}, "sp": sp})
        for hb in h["blocks"]:
            nb = _remap(hb, lo, bo, po if h.get("promoted") else 0)
            if nb["term"]["k"] == "return":
                nb["stmts"] = list(nb["stmts"]) + [{"k": "assign", "place": {"l": unit}, "rv": {"use": {"move": {"l": lo}}}, "sp": sp}]
                nb["term"] = {"k": "goto", "target": header, "sp": sp}
            blocks.append(nb)
        body = new_block(pre, {"k": "goto", "target": bo, "sp": sp})
        blocks[sw]["term"] = {"k": "switch", "discr": {"move": {"l": dl}}, "ty": "isize", "arms": [[0, exitb], [1, body]], "otherwise": unreachable, "sp": sp, "desugared_call": c.get("path")}
        blocks[i]["term"] = {"k": "goto", "target": header, "sp": sp, "desugared_call": c.get("path")}
        nj["desugared"].append(h["key"])
    _retire_closures(nj)
    return nj


def _assigned_once(j, local):
    """(block, stmt index, rvalue) of the only assignment to a bare local (also not a call destination), else None."""
    hit = None
    for bi, b in enumerate(j["blocks"]):
        for si, st in enumerate(b["stmts"]):
            if st["k"] == "assign" and st["place"].get("l") == local and "p" not in st["place"]:
                if hit is not None:
                    return None
                hit = (bi, si, st["rv"])
        t = b["term"]
        if t["k"] == "call" and isinstance(t.get("dest"), dict) and t["dest"].get("l") == local and "p" not in t["dest"]:
            return None
    return hit


UNROLL_MAX_ELEMS = 8
UNROLL_MAX_BODY = 24


def unroll_array_loops(j):
    """`for x in [a, b, c] { body }` over an array written out in the function is `body(a); body(b); body(c)`: the loop
    is replaced by one copy of its body per element (the `Iterator::next` call of copy k becomes `Some(element k)`, the
    one after the last copy `None`), so that what a loop feeds into a hasher / transcript / extractor reads as the
    straight-line sequence it abbreviates.  Only by-value iteration of an array aggregate of at most 8 elements whose
    iterator is used for nothing else; loops with a bigger body or any other shape are left alone."""
    blocks0 = j["blocks"]
    if len(blocks0) > MAX_BLOCKS:
        return j
    cands = []
    for pi, b in enumerate(blocks0):
        t = b["term"]
        c = t.get("callee") or {} if t["k"] == "call" else {}
        if not (t["k"] == "call" and c.get("crate") == "core" and c.get("trait") == "IntoIterator" and c.get("name") == "into_iter" and len(t.get("args", [])) == 1 and t.get("target") is not None):
            continue
        a = t["args"][0]
        apl = a.get("move") if isinstance(a, dict) else None
        if not apl or "p" in apl or not isinstance(t.get("dest"), dict) or "p" in t["dest"]:
            continue
        d = _assigned_once(j, apl["l"])
        if d is None or not (isinstance(d[2].get("agg"), dict) and "array" in d[2]["agg"]):
            continue
        ops = d[2].get("ops") or []
        if not (1 <= len(ops) <= UNROLL_MAX_ELEMS):
            continue
        cands.append((pi, t["dest"]["l"], ops))
    if not cands:
        return j
    nj = None
    for pi, it0, ops in cands:
        cur = nj if nj is not None else j
        blocks = cur["blocks"]
        # the iterator local the loop advances: `it0` itself or the single local it is moved into
        its = {it0}
        for b in blocks:
            for st in b["stmts"]:
                if st["k"] == "assign" and "p" not in st["place"] and isinstance(st["rv"].get("use"), dict) and (st["rv"]["use"].get("move") or {}).get("l") == it0 and "p" not in (st["rv"]["use"].get("move") or {}):
                    its.add(st["place"]["l"])
        if len(its) > 2:
            continue
        # header: `_r = &mut it; [_r2 = &mut *_r;] _opt = Iterator::next(move _r2)`
        H = None
        for hi, b in enumerate(blocks):
            t = b["term"]
            c = t.get("callee") or {} if t["k"] == "call" else {}
            if not (t["k"] == "call" and c.get("crate") == "core" and c.get("trait") == "Iterator" and c.get("name") == "next" and len(t.get("args", [])) == 1 and t.get("target") is not None):
                continue
            rl = (t["args"][0].get("move") or t["args"][0].get("copy") or {}).get("l") if isinstance(t["args"][0], dict) else None
            src = rl
            for st in reversed(b["stmts"]):
                if st["k"] == "assign" and st["place"].get("l") == src and "p" not in st["place"] and isinstance(st["rv"].get("ref"), dict):
                    src = st["rv"]["ref"]["l"]
            if src in its and isinstance(t.get("dest"), dict) and "p" not in t["dest"]:
                if H is not None:
                    H = -1
                    break
                H = hi
        if H is None or H < 0:
            continue
        opt = blocks[H]["term"]["dest"]["l"]
        S = blocks[H]["term"]["target"]
        st_ = blocks[S]["term"]
        if st_["k"] != "switch" or sorted(v for v, _ in st_["arms"]) != [0, 1]:
            continue
        exit_b = [tg for v, tg in st_["arms"] if v == 0][0]
        body_b = [tg for v, tg in st_["arms"] if v == 1][0]
        # loop blocks: reachable from the body entry without passing the header, and able to come back to it
        reach, stack = set(), [body_b]
        while stack:
            x = stack.pop()
            if x in reach or x == H:
                continue
            reach.add(x)
            stack.extend(_succs(blocks[x]["term"]))
        preds = _preds_of(blocks)
        back, stack = set(), [p_ for p_ in preds.get(H, []) if p_ in reach]
        while stack:
            x = stack.pop()
            if x in back:
                continue
            back.add(x)
            stack.extend(p_ for p_ in preds.get(x, []) if p_ in reach)
        loop = back
        if not loop or body_b not in loop or len(loop) > UNROLL_MAX_BODY or S in loop or exit_b in loop:
            continue
        # the iterator is used for nothing but the header's borrow (and moves / drops outside the loop)
        def mentions(x, l):
            if isinstance(x, dict):
                return any((k == "l" and v == l) or mentions(v, l) for k, v in x.items() if k not in ("callee", "const"))
            if isinstance(x, list):
                return any(mentions(v, l) for v in x)
            return False
        if any(mentions(blocks[b_], l_) for b_ in loop for l_ in its) or any(mentions(blocks[b_], opt) and b_ not in loop for b_ in range(len(blocks)) if b_ not in (H, S)):
            continue
        if nj is None:
            nj = dict(j)
            nj["locals"] = list(j["locals"])
            nj["blocks"] = [dict(b, stmts=list(b["stmts"])) for b in j["blocks"]]
            nj["desugared"] = list(j.get("desugared", []))
            blocks = nj["blocks"]
        sp = blocks[H]["term"].get("sp")
        order = sorted(loop)
        n = len(ops)
        heads = []
        for k in range(n + 1):
            heads.append(len(blocks))
            blocks.append(None)  # placeholder, filled below
            if k < n:
                base = len(blocks)
                idx = {b_: base + i for i, b_ in enumerate(order)}
                for b_ in order:
                    blocks.append(None)
                heads[-1] = (heads[-1], idx)
        # fill in
        for k in range(n + 1):
            if k < n:
                hb, idx = heads[k]
                nxt = heads[k + 1][0] if k + 1 < n else heads[k + 1]
                blocks[hb] = {"stmts": [{"k": "assign", "place": {"l": opt}, "rv": {"agg": dict(OPTION, variant="Some", vi=1, fields=["0"]), "ops": [copy.deepcopy(ops[k])]}, "sp": sp}], "term": {"k": "goto", "target": idx[body_b], "sp": sp, "mac": ["desugar:ForLoop"]}}
                for b_ in order:
                    nb = copy.deepcopy(blocks[b_])
                    t = nb["term"]
                    def re(x):
                        return nxt if x == H else idx.get(x, x)
                    if t["k"] in ("goto", "drop", "call", "assert") and t.get("target") is not None:
                        t["target"] = re(t["target"])
                    if t["k"] == "switch":
                        t["arms"] = [[v, re(tg)] for v, tg in t["arms"]]
                        t["otherwise"] = re(t["otherwise"])
                    blocks[idx[b_]] = nb
            else:
                hb = heads[k]
                blocks[hb] = {"stmts": [{"k": "assign", "place": {"l": opt}, "rv": {"agg": dict(OPTION, variant="None", vi=0, fields=[]), "ops": []}, "sp": sp}], "term": {"k": "goto", "target": exit_b, "sp": sp, "mac": ["desugar:ForLoop"]}}
        # entries into the old header from outside the loop go to the first copy
        first = heads[0][0]
        for bi in range(len(blocks)):
            if blocks[bi] is None or bi in loop or bi == H:
                continue
            if bi >= heads[0][0]:
                continue
            if H in _succs(blocks[bi]["term"]):
                blocks[bi] = dict(blocks[bi], term=_retarget(blocks[bi]["term"], H, first))
        nj["desugared"].append("unroll[%d]@bb%d" % (n, H))
    return nj if nj is not None else j


def _retire_closures(nj):
    """Closure values whose bodies were spliced in and that are not handed to any remaining call: build them as plain
    tuples of their captures (the closure function is no longer called from here)."""
    blocks = nj["blocks"]
    done = set(nj.get("desugared", []))
    # locals that (transitively, through moves and refs) carry a closure value
    for l, (key, bi, si) in _closure_defs(nj).items():
        if key not in done:
            continue
        carriers = {l}
        changed = True
        while changed:
            changed = False
            for b in blocks:
                for st in b["stmts"]:
                    if st["k"] == "assign" and "p" not in st["place"]:
                        rv = st["rv"]
                        src = rv.get("use") if "use" in rv else ({"copy": rv["ref"]} if "ref" in rv else None)
                        pl = (src.get("move") or src.get("copy")) if isinstance(src, dict) else None
                        if pl and "p" not in pl and pl.get("l") in carriers and st["place"]["l"] not in carriers:
                            carriers.add(st["place"]["l"])
                            changed = True
        still_called = False
        for b in blocks:
            tt = b["term"]
            if tt["k"] in ("call", "tailcall"):
                for a in tt.get("args", []):
                    pl = (a.get("move") or a.get("copy")) if isinstance(a, dict) else None
                    if pl and pl.get("l") in carriers:
                        still_called = True
        if not still_called:
            st = blocks[bi]["stmts"][si]
            blocks[bi]["stmts"][si] = dict(st, rv={"agg": {"tuple": True}, "ops": st["rv"].get("ops", [])})


def splice_closure_calls(j, by_key, depth=0):
    """`f(x)` for a local closure `f` is `Fn::call(&f, (x,))` in MIR, resolved to the closure's body: the body is spliced
    in (environment = the first argument, parameters = the fields of the argument tuple)."""
    if depth > 2:
        return j
    sites = []
    defs = {}
    for b in j["blocks"]:
        for st in b["stmts"]:
            if st["k"] == "assign" and "p" not in st["place"]:
                defs.setdefault(st["place"]["l"], []).append(st["rv"])

    def closure_of(l):
        """Key of the closure literal a local holds (followed through plain moves and `&x`), else None."""
        for _ in range(6):
            ds = defs.get(l, [])
            if len(ds) != 1:
                return None
            rv = ds[0]
            if isinstance(rv.get("agg"), dict) and rv["agg"].get("closure"):
                return rv["agg"].get("key")
            src = rv.get("use") if "use" in rv else ({"copy": rv["ref"]} if "ref" in rv else None)
            pl = (src.get("move") or src.get("copy")) if isinstance(src, dict) else None
            if not pl or "p" in pl:
                return None
            l = pl["l"]
        return None

    for i, b in enumerate(j["blocks"]):
        t = b["term"]
        if t["k"] != "call" or t.get("target") is None:
            continue
        c = t.get("callee") or {}
        r = c.get("resolved") or {}
        if c.get("name") in ("call", "call_mut", "call_once") and c.get("trait") in ("Fn", "FnMut", "FnOnce") and not r.get("key") and len(t.get("args", [])) == 2:
            a0_ = t["args"][0]
            pl0_ = (a0_.get("move") or a0_.get("copy")) if isinstance(a0_, dict) else None
            k_ = closure_of(pl0_["l"]) if pl0_ and "p" not in pl0_ else None
            if k_:
                r = {"key": k_}
        if c.get("name") in ("call", "call_mut", "call_once") and c.get("trait") in ("Fn", "FnMut", "FnOnce") and r.get("key") in by_key and by_key[r["key"]].get("kind") == "Closure" and len(t.get("args", [])) == 2 and r["key"] != j["key"]:
            a1 = t["args"][1]
            pl = (a1.get("move") or a1.get("copy")) if isinstance(a1, dict) else None
            if pl and "p" not in pl and len(by_key[r["key"]]["blocks"]) <= MAX_BLOCKS:
                sites.append((i, r["key"], pl["l"]))
    if not sites:
        return j
    nj = dict(j)
    nj["locals"] = list(j["locals"])
    nj["blocks"] = [dict(b, stmts=list(b["stmts"])) for b in j["blocks"]]
    nj["desugared"] = list(j.get("desugared", []))
    blocks = nj["blocks"]
    for i, key, tl in sites:
        t = blocks[i]["term"]
        sp = t.get("sp")
        h = splice_closure_calls(desugar_combinators(by_key[key], by_key, depth + 1), by_key, depth + 1)
        lo, bo = len(nj["locals"]), len(blocks)
        nj["locals"].extend(copy.deepcopy(h["locals"]))
        po = len(nj.get("promoted") or [])
        if h.get("promoted"):
            nj["promoted"] = list(nj.get("promoted") or []) + list(h["promoted"])
        envty = str(h["locals"][1].get("ty") or "") if len(h["locals"]) > 1 else ""
        a0 = t["args"][0]
        a0ty = (t.get("arg_tys") or [""])[0]
        pre = []
        if envty.startswith("&") == str(a0ty).startswith("&"):
            pre.append({"k": "assign", "place": {"l": lo + 1}, "rv": {"use": a0}, "sp": sp})
        elif envty.startswith("&"):
            pl0 = a0.get("move") or a0.get("copy")
            pre.append({"k": "assign", "place": {"l": lo + 1}, "rv": {"ref": pl0, "mut": envty.startswith("&mut")}, "sp": sp})
        else:
            pl0 = dict(a0.get("move") or a0.get("copy"))
            pl0["p"] = list(pl0.get("p", [])) + ["*"]
            pre.append({"k": "assign", "place": {"l": lo + 1}, "rv": {"use": {"copy": pl0}}, "sp": sp})
        for k in range(2, h["arg_count"] + 1):
            pre.append({"k": "assign", "place": {"l": lo + k}, "rv": {"use": {"move": {"l": tl, "p": [{"f": k - 2, "n": str(k - 2)}]}}}, "sp": sp})
        blocks[i]["stmts"] = blocks[i]["stmts"] + pre
        blocks[i]["term"] = {"k": "goto", "target": bo, "sp": sp, "inlined_call": key}
        for hb in h["blocks"]:
            nb = _remap(hb, lo, bo, po if h.get("promoted") else 0)
            if nb["term"]["k"] == "return":
                nb["stmts"] = list(nb["stmts"]) + [{"k": "assign", "place": t["dest"], "rv": {"use": {"move": {"l": lo}}}, "sp": sp}]
                nb["term"] = {"k": "goto", "target": t["target"], "sp": sp}
            blocks.append(nb)
        nj["desugared"].append(key)
    _retire_closures(nj)
    return nj


def _retarget(t, old, new):
    t = dict(t)
    if t["k"] in ("goto", "drop", "call") and t.get("target") == old:
        t["target"] = new
    if t["k"] == "switch":
        t["arms"] = [[v, new if tg == old else tg] for v, tg in t["arms"]]
        if t["otherwise"] == old:
            t["otherwise"] = new
    return t


def thread_known_ctors(j, limit=24):
    """Jump threading inside one function: a block that tests `x` (`x?` = Try::branch + switch, `match x`, `if flag`)
    and is entered from several places, some of which assign `x` a known constructor, is copied for those places and the
    copy jumps straight to the arm the constructor selects."""
    blocks = j["blocks"]
    out = None
    done = 0
    for T0i in range(len(blocks)):
        if done >= limit:
            break
        blocks = out["blocks"] if out is not None else j["blocks"]
        T0 = blocks[T0i]
        t0 = T0["term"]
        kind, xl, X = None, None, None
        neg = False
        if t0["k"] == "switch":
            d = t0["discr"].get("move") or t0["discr"].get("copy")
            if d and "p" not in d:
                if t0.get("ty") == "bool":
                    kind, xl = "bool", d["l"]
                    # `if !flag`: the tested local is `Not(flag)` (or a copy) computed in this block
                    for _ in range(3):
                        df = [st for st in T0["stmts"] if st["k"] == "assign" and st["place"].get("l") == xl and "p" not in st["place"]]
                        if len(df) != 1:
                            break
                        rv = df[0]["rv"]
                        src = None
                        if rv.get("un") == "Not":
                            src = rv.get("a")
                        elif "use" in rv:
                            src = rv["use"]
                        pl_ = (src.get("move") or src.get("copy")) if isinstance(src, dict) else None
                        if not pl_ or "p" in pl_:
                            break
                        if rv.get("un") == "Not":
                            neg ^= True
                        xl = pl_["l"]
                else:
                    for st in T0["stmts"]:
                        if st["k"] == "assign" and st["place"].get("l") == d["l"] and isinstance(st["rv"].get("discr"), dict) and "p" not in st["rv"]["discr"]:
                            kind, xl = "discr", st["rv"]["discr"]["l"]
        elif t0["k"] == "call" and (t0.get("callee") or {}).get("name") == "branch" and t0.get("target") is not None and t0.get("args") and isinstance(t0.get("dest"), dict) and "p" not in t0["dest"]:
            a0 = t0["args"][0]
            pl = (a0.get("move") or a0.get("copy")) if isinstance(a0, dict) else None
            if pl and "p" not in pl:
                Xb = blocks[t0["target"]]
                if Xb["term"]["k"] == "switch":
                    dk = Xb["term"]["discr"].get("move") or Xb["term"]["discr"].get("copy")
                    rl = t0["dest"]["l"]
                    if dk and any(st["k"] == "assign" and st["place"].get("l") == dk.get("l") and isinstance(st["rv"].get("discr"), dict) and st["rv"]["discr"].get("l") == rl for st in Xb["stmts"]):
                        kind, xl, X = "try", pl["l"], t0["target"]
        if kind is None:
            continue
        preds = _preds_of(blocks)
        # ways in: predecessors of the test block, looking back through straight-line blocks that only move values
        # around (staged merges of an if / else-if chain, the return slot of a spliced closure): (pred, chain) where
        # chain = the blocks from the merge point down to the test block
        def passthrough(bi):
            bb = blocks[bi]
            if bb["term"]["k"] != "goto":
                return False
            for st in bb["stmts"]:
                if st["k"] != "assign":
                    continue
                if "use" not in st["rv"]:
                    return False
            return True

        ways, stack, seen_ch = [], [(T0i, (T0i,))], set()
        while stack:
            tg, chain = stack.pop()
            for p in preds.get(tg, []):
                if p in chain:
                    continue
                if passthrough(p) and len(chain) < 6 and (p, chain) not in seen_ch:
                    seen_ch.add((p, chain))
                    stack.append((p, (p,) + chain))
                    if len(preds.get(p, [])) >= 2:
                        continue
                    continue
                ways.append((p, chain))
        if len(ways) < 2:
            continue
        # the tested value must not be (re)assigned in T0 itself before the test
        if any(st["k"] == "assign" and st["place"].get("l") == xl for st in T0["stmts"]):
            continue

        def pick(sw, val):
            for v, tg in sw["arms"]:
                if v == val:
                    return tg
            return sw["otherwise"]

        for p, chain in ways:
            if blocks[p]["term"]["k"] not in ("goto", "switch", "drop", "call"):
                continue
            # constructor of the tested value at the test when coming in through p
            pov = dict(preds)
            pov[chain[0]] = [p]
            for a_, b_ in zip(chain, chain[1:]):
                pov[b_] = [a_]
            ctor = _known_ctor(blocks, T0i, xl, pov) if not any(st["k"] == "assign" and st["place"].get("l") == xl for st in T0["stmts"]) else None
            if ctor is None:
                continue
            if out is None:
                out = dict(j, blocks=[dict(b, stmts=list(b["stmts"])) for b in j["blocks"]])
                blocks = out["blocks"]
                T0 = blocks[T0i]
                t0 = T0["term"]
            if kind == "bool" and ctor[0] == "bool":
                last = dict(T0, stmts=list(T0["stmts"]), term={"k": "goto", "target": pick(t0, (1 - ctor[1]) if neg else ctor[1]), "sp": t0.get("sp"), "threaded": True})
                tail = [last]
            elif kind == "discr" and ctor[0] in ("Result", "Option"):
                val = {"None": 0, "Some": 1, "Ok": 0, "Err": 1}[ctor[1]]
                tail = [dict(T0, stmts=list(T0["stmts"]), term={"k": "goto", "target": pick(t0, val), "sp": t0.get("sp"), "threaded": True})]
            elif kind == "try" and ctor[0] in ("Result", "Option"):
                val = 0 if ctor[1] in ("Ok", "Some") else 1
                Xb = blocks[X]
                xclone = dict(Xb, stmts=list(Xb["stmts"]), term={"k": "goto", "target": pick(Xb["term"], val), "sp": Xb["term"].get("sp"), "threaded": True})
                blocks.append(xclone)
                tail = [dict(T0, stmts=list(T0["stmts"]), term=dict(t0, target=len(blocks) - 1))]
            else:
                continue
            # private copies of the chain: chain[0] .. chain[-2] (pass-through blocks) then the test block's copy
            first = None
            prev = None
            for ci in chain[:-1]:
                blocks.append(dict(blocks[ci], stmts=list(blocks[ci]["stmts"]), term=dict(blocks[ci]["term"])))
                idx_ = len(blocks) - 1
                if first is None:
                    first = idx_
                if prev is not None:
                    blocks[prev]["term"] = dict(blocks[prev]["term"], target=idx_)
                prev = idx_
            blocks.append(tail[0])
            tidx = len(blocks) - 1
            if prev is not None:
                blocks[prev]["term"] = dict(blocks[prev]["term"], target=tidx)
            if first is None:
                first = tidx
            blocks[p] = dict(blocks[p], term=_retarget(blocks[p]["term"], chain[0], first))
            done += 1
    return out if out is not None else j
