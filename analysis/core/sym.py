"""Forward value numbering over MIR: a term for every operand at every program point.

No path enumeration and no solver: one pass over the pruned CFG in reverse post-order,
phi-merging at joins, loop-carried locals summarised as `loop` atoms (the value flowing
round the back edge is kept in a side table).  Pointers to locals are tracked as
(`addr`, local, projection) so that `&mut x` passed to a call re-defines `x` as a
`mutcall` term (builder chains: Vec, hashers, HKDF, merlin transcript).
"""
import re
from .terms import T, UNDEF, mk_phi, mk_deref, mk_ref, mk_field, mk_downcast, subst, subterms, show
from .program import const_bool, const_int


_ID = re.compile(r"[A-Za-z_][A-Za-z0-9_]*")


def strip_paths(s):
    """`a::b::Name<T>` -> `Name<T>`, keeping `<X as Y>::Assoc` tails."""
    out = []
    i = 0
    n = len(s)
    while i < n:
        m = _ID.match(s, i)
        if m and not (i > 0 and (s[i - 1].isalnum() or s[i - 1] == "_")):
            after_gt = i >= 3 and s[i - 3 : i] == ">::"
            segs = [m.group(0)]
            j = m.end()
            while s.startswith("::", j):
                m2 = _ID.match(s, j + 2)
                if not m2:
                    break
                segs.append(m2.group(0))
                j = m2.end()
            out.append("::".join(segs) if after_gt else segs[-1])
            i = j
        else:
            out.append(s[i])
            i += 1
    return "".join(out)


def callee_id(c):
    """Canonical (name, generic-args) for a callee JSON."""
    if c.get("key"):
        name = c["key"]
    elif c.get("trait"):
        name = "%s::%s" % (c["trait"], c["name"])
    else:
        name = strip_paths(c["path"])
        if "::" not in name:
            if c.get("impl_self"):
                # inherent method of a non-generic type: keep the type name
                ty = c["impl_self"].split("<")[0]
                name = "%s::%s" % (ty, name)
            else:
                # free function of a dependency: crate::name (re-export independent)
                name = "%s::%s" % (c.get("crate", "?"), name)
    return (name, tuple(c.get("args", ())))


def const_term(c):
    """Term for a MIR constant JSON."""
    if "uneval" in c:
        ev = c.get("eval")
        if ev is not None and "promoted" not in c:
            # associated/module constant that evaluates: keep its name AND value
            v = _val(ev, c.get("ty"))
            return T("named", c["uneval"], tuple(c.get("args", ())), v)
        if "promoted" in c:
            return T("promoted", c["promoted"])
        return T("assoc", c["uneval"], tuple(c.get("args", ())))
    return _val(c, c.get("ty"))


def _val(c, ty):
    if "bytes_hex" in c:
        return T("const", "bytes", c["bytes_hex"])
    if "elems_hex" in c:
        # table of string / byte-string references: an array of byte constants
        return T("agg", ("array",), tuple(T("const", "bytes", h) for h in c["elems_hex"]))
    if "agg" in c and c["agg"].get("fields"):
        # destructured aggregate constant (table of tuples / enum values / byte strings)
        a = c["agg"]
        ops = tuple(_val(f, f.get("ty")) for f in a["fields"])
        if a.get("variant"):
            kind = ("adt", a.get("adt"), a["variant"], tuple(str(i) for i in range(len(ops))))
        elif str(c.get("ty") or ty or "").startswith("["):
            kind = ("array",)
        else:
            kind = ("tuple",)
        return T("agg", kind, ops)
    if "fn" in c:
        ct = c["fn"].get("ctor")
        if ct:
            return T("const", "fn", callee_id(c["fn"]), ("ctor", ct["adt"], ct["variant"]))
        return T("const", "fn", callee_id(c["fn"]))
    if "bool" in c:
        return T("const", "int", 1 if c["bool"] else 0, "bool")
    if "sint" in c:
        return T("const", "int", c["sint"], ty)
    if "int" in c:
        return T("const", "int", c["int"], ty)
    if c.get("zst"):
        return T("const", "zst", ty)
    if "tyconst" in c:
        tc = c["tyconst"]
        if ty in ("&str", "&'static str") and len(tc) >= 2 and tc[0] == '"' and tc[-1] == '"':
            try:
                raw = tc[1:-1].encode().decode("unicode_escape").encode("latin-1")
                return T("const", "bytes", raw.hex())
            except Exception:
                pass
        return T("const", "tyconst", tc)
    return T("const", "opaque", ty)


MODEL_MUT_PARAMS = True


class Site:
    __slots__ = ("bb", "term", "callee", "args", "value", "arg_tys", "span", "fn", "mut_effects", "raw", "alt_callees")

    def __repr__(self):
        return "<Site %s bb%d %s>" % (self.fn.key, self.bb, self.callee[0] if self.callee else "?")


class Eval:
    """Result of evaluating one function body."""

    def __init__(self, fn, promoted_of=None, assume=None):
        self.fn = fn
        self.prog = fn.prog
        # specialisation: {(param name, projection path string): variant name}; switch edges on the
        # discriminant of such a place that contradict the assumption are treated as dead
        self.assume = dict(assume or {})
        self.dead = set()
        self.sites = {}  # bb -> Site
        self.switch = {}  # bb -> discr term
        self.ret = UNDEF  # merged returned value
        self.ret_at = {}  # return bb -> value
        self.entry_state = {}  # bb -> state dict at entry
        self.exit_state = {}
        self.loop_step = {}  # (header, local) -> term flowing on the back edge(s)
        self.asserts = {}  # bb -> (cond term, operand terms)
        self.param_effects = {}  # param index -> final value of *param for &mut params
        self._promoted = {}
        self._mref_hit = None
        self._run()

    # ---- helpers -------------------------------------------------------
    def pname(self, i):
        return self.fn.locals[i].get("name") or ""

    def _promoted_term(self, idx):
        if idx in self._promoted:
            return self._promoted[idx]
        pj = self.fn.j.get("promoted")
        t = T("promoted", idx)
        if pj and idx < len(pj):
            try:
                sub = dict(self.fn.j)
                sub.update(pj[idx])
                sub["promoted"] = None
                from .program import Fn

                pf = Fn(self.prog, dict(sub, key=self.fn.key + "::{promoted#%d}" % idx))
                ev = Eval(pf)
                t = ev.ret
            except Exception:
                t = T("promoted", idx)
        self._promoted[idx] = t
        return t

    def operand(self, op, st):
        if "copy" in op:
            return self.read_place(op["copy"], st)
        if "move" in op:
            return self.read_place(op["move"], st)
        if "const" in op:
            t = const_term(op["const"])
            if t.op == "promoted":
                return self._promoted_term(t.a[0])
            return t
        return T("opaque", str(op)[:60])

    def _proj_items(self, place):
        return place.get("p", [])

    def locate(self, place, st):
        """Resolve a place to ('loc', local, proj tuple) or ('val', term)."""
        l = place["l"]
        proj = ()
        cur_loc = (l, ())
        val = None  # when term-based
        for p in self._proj_items(place):
            if p == "*":
                if val is None:
                    base = self._read_loc(cur_loc, st)
                else:
                    base = val
                if base.op == "addr":
                    cur_loc = (base.a[0], base.a[1])
                    val = None
                elif base.op == "mref":
                    val = mk_deref(self._mref_value(base, st))
                    cur_loc = None
                    self._mref_hit = base
                else:
                    val = mk_deref(base)
                    cur_loc = None
            else:
                item = self._pitem(p, st)
                if val is None:
                    cur_loc = (cur_loc[0], cur_loc[1] + (item,))
                else:
                    val = self._apply(val, item)
        if val is None:
            return ("loc", cur_loc[0], cur_loc[1])
        return ("val", val)

    def _pitem(self, p, st):
        if isinstance(p, dict):
            if "f" in p:
                return ("f", p["f"], p["n"])
            if "dc" in p:
                return ("dc", p["dc"])
            if "idx" in p:
                return ("idx", self._read_loc((p["idx"], ()), st))
            if "cidx" in p:
                return ("cidx", p["cidx"], p.get("from_end", False))
            if "sub" in p:
                return ("sub", p["sub"][0], p["sub"][1], p.get("from_end", False))
        return ("other", str(p))

    def _apply(self, base, item):
        k = item[0]
        if k == "f":
            return mk_field(base, item[1], item[2])
        if k == "dc":
            return mk_downcast(base, item[1])
        if k == "idx":
            return T("index", base, item[1])
        if k == "cidx":
            if base.op == "agg" and base.a[0][0] == "array" and not item[2] and item[1] < len(base.a[1]):
                return base.a[1][item[1]]
            return T("index", base, T("const", "int", item[1], "usize"))
        if k == "sub":
            return T("subslice", base, item[1], item[2], item[3])
        return T("proj", base, item[1])

    def _read_loc(self, loc, st):
        l, proj = loc
        t = st.get(l, UNDEF)
        if t is UNDEF and 1 <= l <= self.fn.arg_count:
            t = T("param", l, self.pname(l))
        for item in proj:
            t = self._apply(t, item)
        return t

    def read_place(self, place, st):
        r = self.locate(place, st)
        if r[0] == "loc":
            return self._read_loc((r[1], r[2]), st)
        return r[1]

    def write_place(self, place, val, st):
        self._mref_hit = None
        r = self.locate(place, st)
        if r[0] == "loc":
            self._write_loc((r[1], r[2]), val, st)
        elif self._mref_hit is not None:
            m = self._mref_hit
            old = self._read_loc((m.a[0], m.a[1]), st)
            self._write_loc((m.a[0], m.a[1]), T("store", old, self._mref_value(m, st), val), st)
        # writes through unknown pointers are dropped (no aliasing model beyond locals)

    def _write_loc(self, loc, val, st):
        l, proj = loc
        if not proj:
            st[l] = val
        else:
            old = st.get(l, UNDEF)
            if old is UNDEF and 1 <= l <= self.fn.arg_count:
                old = T("param", l, self.pname(l))
            path = tuple((i[0], i[1]) for i in proj)
            st[l] = T("upd", old, path, val)

    def value_of(self, t, st):
        """Convert frame pointers to value-level refs when a term escapes."""
        if t.op == "addr":
            v = self._read_loc((t.a[0], t.a[1]), st)
            if v.op in ("addr", "mref"):
                v = self.value_of(v, st)  # a pointer to a pointer (`&mut rng` where rng is itself `&mut outer`)
            return mk_ref(v)
        if t.op == "mref":
            return self._mref_value(t, st)
        if t.op == "agg":
            ops = tuple(self.value_of(x, st) for x in t.a[1])
            if ops != t.a[1]:
                return T("agg", t.a[0], ops)
        return t

    def _mref_value(self, m, st):
        """Value seen through a derived &mut: the handing-out call re-applied to the
        pointee's *current* value."""
        cur = self._read_loc((m.a[0], m.a[1]), st)
        # the call itself re-defined the pointee as mutcall(..); later writes stack on top
        first = None
        call = m.a[2]
        where = call.a[2] if len(call.a) > 2 else None
        first = T("mutcall", call.a[0], 0, call.a[1], where) if where is not None else None
        if first is not None and cur is first:
            return call
        old = m.a[3]
        return subst(call, {mk_ref(old): mk_ref(cur)})

    # ---- rvalues -------------------------------------------------------
    def rvalue(self, rv, st):
        if "use" in rv:
            return self.operand(rv["use"], st)
        if "ref" in rv or "rawptr" in rv:
            place = rv.get("ref") or rv.get("rawptr")
            self._mref_hit = None
            r = self.locate(place, st)
            if r[0] == "loc":
                return T("addr", r[1], r[2])
            if self._mref_hit is not None and place.get("p") == ["*"]:
                return self._mref_hit  # reborrow of a derived &mut
            return mk_ref(r[1])
        if "cast" in rv:
            a = self.operand(rv["a"], st)
            kind = rv["cast"]
            if kind.startswith("PointerCoercion(Unsize") or kind == "Transmute" and False:
                return a  # &[T;N] -> &[T] : identity on the value
            if kind.startswith("PointerCoercion"):
                return a
            return T("cast", kind, a, rv["to"], rv.get("from"))
        if "bin" in rv:
            return T("bin", rv["bin"], self.operand(rv["a"], st), self.operand(rv["b"], st))
        if "un" in rv:
            a = self.operand(rv["a"], st)
            if rv["un"] == "PtrMetadata":
                return T("len", self.value_of(a, st))
            if rv["un"] == "Not":
                av = self.value_of(a, st)
                if av.op == "const" and av.a[0] == "int" and len(av.a) > 2 and av.a[2] == "bool":
                    return T("const", "int", 0 if av.a[1] else 1, "bool")
            return T("un", rv["un"], a)
        if "discr" in rv:
            return T("discr", self.read_place(rv["discr"], st))
        if "agg" in rv:
            k = rv["agg"]
            ops = tuple(self.operand(o, st) for o in rv["ops"])
            if "tuple" in k:
                kind = ("tuple",)
            elif "array" in k:
                kind = ("array",)
                # elements that are references to locals are read now (`[alpha, digest.as_slice()].concat()`)
                ops = tuple(self.value_of(o, st) if o.op == "addr" else o for o in ops)
            elif "adt" in k:
                kind = ("adt", k["adt"], k["variant"], tuple(k.get("fields", ())))
            elif "closure" in k:
                kind = ("closure", k.get("key") or k["closure"])
                ops = tuple(self.value_of(o, st) for o in ops)
            else:
                kind = ("other", str(k)[:40])
            return T("agg", kind, ops)
        if "repeat" in rv:
            return T("repeat", self.operand(rv["repeat"], st), rv["n"])
        if "tls" in rv:
            return T("tls", rv["tls"])
        return T("opaque", str(rv)[:80])

    # ---- main loop -----------------------------------------------------
    def _run(self):
        fn = self.fn
        cfg = fn.cfg
        order = [n for n in cfg.rpo() if isinstance(n, int)]
        pos = {b: i for i, b in enumerate(order)}
        back = set(cfg.back_edges())
        headers = {}
        for src, h in back:
            headers.setdefault(h, set()).update(cfg.natural_loop(src, h))
        # `&mut T` parameters point to a synthetic location that starts as `*param`: writes through the parameter (and
        # through reborrows handed to calls) are then seen by later reads, like writes to a local
        mut_params = [i for i in range(1, fn.arg_count + 1) if str(fn.locals[i]["ty"]).startswith("&mut ")] if MODEL_MUT_PARAMS else []
        self.mut_params = mut_params
        # locals assigned inside each loop
        loop_defs = {}
        for h, body in headers.items():
            defs = set()
            for b in body:
                blk = fn.blocks[b]
                for s in blk["stmts"]:
                    if s["k"] == "assign":
                        pl = s["place"]
                        if "*" not in [p for p in pl.get("p", []) if isinstance(p, str)]:
                            defs.add(pl["l"])
                        rv = s["rv"]
                        if ("ref" in rv and rv.get("mut")) or "rawptr" in rv:
                            tgt = rv.get("ref") or rv.get("rawptr")
                            if "*" not in [p for p in tgt.get("p", []) if isinstance(p, str)]:
                                defs.add(tgt["l"])
                t = blk["term"]
                if t["k"] == "call":
                    d = t["dest"]
                    defs.add(d["l"])
            if mut_params and self._loop_touches_pointees(body):
                defs.update(self._pm(i) for i in mut_params)
            loop_defs[h] = defs
        exit_state = {}
        ret_vals = []
        for b in order:
            preds = [(p, l) for (p, l) in cfg.pred[b] if (p, b) not in back and p in exit_state and (p, b, l) not in self.dead]
            if b != 0 and not preds and self.assume:
                continue  # unreachable under the assumption
            if b == 0 and not preds:
                st = {}
                for i in mut_params:
                    st[self._pm(i)] = mk_deref(T("param", i, self.pname(i)))
                    st[i] = T("addr", self._pm(i), ())
            else:
                if not preds:
                    st = {}
                elif len(preds) == 1:
                    st = dict(exit_state[preds[0][0]])
                else:
                    st = {}
                    keys = set()
                    for p, _ in preds:
                        keys.update(exit_state[p].keys())
                    for k in keys:
                        vals = [exit_state[p].get(k, UNDEF) for p, _ in preds]
                        first = vals[0]
                        if all(v is first for v in vals):
                            st[k] = first
                        else:
                            st[k] = mk_phi(vals)
            if b in headers:
                for l in loop_defs[b]:
                    init = st.get(l, UNDEF)
                    if init is UNDEF and 1 <= l <= fn.arg_count:
                        init = T("param", l, self.pname(l))
                    # pointers are not loop-summarised (their target is)
                    if init.op in ("addr", "mref"):
                        continue
                    st[l] = T("loop", b, l, init)
            self.entry_state[b] = dict(st)
            self._block(b, st)
            exit_state[b] = st
            self.exit_state[b] = st
            t = fn.blocks[b]["term"]
            if t["k"] == "return":
                rv = self.value_of(st.get(0, UNDEF), st)
                self.ret_at[b] = rv
                ret_vals.append(rv)
                for i in mut_params:
                    self.param_effects.setdefault(i, []).append(st.get(self._pm(i), UNDEF))
        self.ret = mk_phi(ret_vals) if ret_vals else UNDEF
        # loop steps
        for src, h in back:
            if src in exit_state:
                for l in loop_defs[h]:
                    v = exit_state[src].get(l, UNDEF)
                    key = (h, l)
                    if key in self.loop_step:
                        self.loop_step[key] = mk_phi([self.loop_step[key], v])
                    else:
                        self.loop_step[key] = v

    def _pm(self, i):
        return 100000 + i

    def _loop_touches_pointees(self, body):
        fn = self.fn
        for b in body:
            blk = fn.blocks[b]
            for s_ in blk["stmts"]:
                if s_["k"] == "assign":
                    if "*" in [p for p in s_["place"].get("p", []) if isinstance(p, str)]:
                        return True
                    rv = s_["rv"]
                    if ("ref" in rv and rv.get("mut")) or "rawptr" in rv:
                        return True
            t = blk["term"]
            if t["k"] == "call" and any(str(ty).startswith("&mut ") for ty in t.get("arg_tys", [])):
                return True
        return False

    def _unit_variant(self, y):
        """(adt, variant name) of a field-less enum value written as a constant / aggregate, else None."""
        yy = y
        while yy.op in ("ref", "deref"):
            yy = yy.a[0]
        if yy.op == "promoted":
            pv = self._promoted_term(yy.a[0])
            if pv is None or pv.op == "promoted":
                return None
            yy = pv
            while yy.op in ("ref", "deref"):
                yy = yy.a[0]
        if yy.op == "const" and yy.a[0] == "int" and len(yy.a) > 2 and yy.a[2] in self.prog.adts:
            for v in self.prog.adts[yy.a[2]]["variants"]:
                if v.get("discr", v["index"]) == yy.a[1]:
                    return (yy.a[2], v["name"])
        elif yy.op == "agg" and yy.a[0][0] == "adt" and not yy.a[1]:
            return (yy.a[0][1], yy.a[0][2])
        return None

    def _derived_discr_eq(self, adt):
        """Does `<adt as PartialEq>::eq` compare exactly the two discriminants of a field-less enum?"""
        f = self.prog.fns.get("<%s as PartialEq>::eq" % adt)
        a = self.prog.adts.get(adt)
        if f is None or not a or any(v.get("fields") for v in a["variants"]):
            return False
        r = strip_sites(evaluate(f).ret)
        if not (r.op == "bin" and r.a[0] == "Eq"):
            return False
        ps = []
        for x in r.a[1:]:
            if x.op != "discr":
                return False
            y = x.a[0]
            while y.op in ("ref", "deref"):
                y = y.a[0]
            if y.op != "param":
                return False
            ps.append(y.a[0])
        return sorted(ps) == [1, 2]

    def _fold_variant_eq(self, a, b):
        """`x == CONST_VARIANT` where x is an assumed root: the comparison is decided by the assumption.
        Two known field-less variants compared by the derived `==` are decided as well."""
        ua, ub = self._unit_variant(a), self._unit_variant(b)
        if ua and ub and ua[0] == ub[0] and self._derived_discr_eq(ua[0]):
            return ua[1] == ub[1]
        for x, y in ((a, b), (b, a)):
            r = place_root(strip_sites(x))
            if r is None or r not in self.assume:
                continue
            yy = y
            while yy.op in ("ref", "deref"):
                yy = yy.a[0]
            if yy.op == "promoted":
                pv = self._promoted_term(yy.a[0])
                if pv is not None and pv.op == "promoted":
                    pv = None
                if pv is None:
                    continue
                yy = pv
                while yy.op in ("ref", "deref"):
                    yy = yy.a[0]
            name = None
            if yy.op == "const" and yy.a[0] == "int" and len(yy.a) > 2 and yy.a[2] in self.prog.adts:
                for v in self.prog.adts[yy.a[2]]["variants"]:
                    if v.get("discr", v["index"]) == yy.a[1]:
                        name = v["name"]
            elif yy.op == "agg" and yy.a[0][0] == "adt" and not yy.a[1]:
                name = yy.a[0][2]
            if name is not None:
                return self.assume[r] == name
        return None

    def _indirect_value(self, fv, args, where, default):
        while fv.op == "cast" or fv.op in ("ref", "deref"):
            fv = fv.a[1] if fv.op == "cast" else fv.a[0]
        if fv.op == "phi":
            alts = [self._indirect_value(x, args, where, None) for x in fv.a[0]]
            if all(a is not None for a in alts):
                return mk_phi(alts)
            return default
        if fv.op == "const" and fv.a[0] == "fn":
            if len(fv.a) > 2 and fv.a[2] and fv.a[2][0] == "ctor":
                return T("agg", ("adt", fv.a[2][1], fv.a[2][2], tuple(str(i) for i in range(len(args)))), tuple(args))
            return T("call", fv.a[1], tuple(args), where)
        return default

    def _apply_assumption(self, b, t):
        """Mark switch edges that contradict self.assume as dead."""
        d = self.switch.get(b)
        if d is not None and d.op == "const" and d.a[0] == "int":
            # the switched value became a constant under the assumptions made so far (e.g. `matches!(x, V)`)
            val = d.a[1]
            arms = {v: tg for v, tg in t["arms"]}
            keep_label = ("sw", b, val) if val in arms else ("sw", b, "otherwise")
            for tgt, lab in self.fn.cfg.succ[b]:
                if lab is not None and lab != keep_label:
                    self.dead.add((b, tgt, lab))
            return
        if d is not None and d.op == "discr":
            # discriminant of a value that is a known constructor application under the current assumptions
            av = d.a[0]
            while av.op in ("ref", "deref"):
                av = av.a[0]
            if av.op == "agg" and av.a[0][0] == "adt":
                adt_name, var = av.a[0][1], av.a[0][2]
                val = {"Option": {"None": 0, "Some": 1}, "Result": {"Ok": 0, "Err": 1}}.get(adt_name, {}).get(var)
                if val is None and adt_name in self.prog.adts:
                    for v in self.prog.adts[adt_name]["variants"]:
                        if v["name"] == var:
                            val = v.get("discr", v["index"])
                if val is not None:
                    arms = {v: tg for v, tg in t["arms"]}
                    keep_label = ("sw", b, val) if val in arms else ("sw", b, "otherwise")
                    for tgt, lab in self.fn.cfg.succ[b]:
                        if lab is not None and lab != keep_label:
                            self.dead.add((b, tgt, lab))
                    return
        if d is None or d.op != "discr" or not self.assume:
            return
        root = place_root(d.a[0])
        if root is None or root not in self.assume:
            # a computed value (e.g. the decoded tag byte) can be assumed too: keyed by its site-free term
            root = ("@", strip_sites(d.a[0]))
            if root not in self.assume:
                return
        want = self.assume[root]
        # which ADT is switched on: from the discriminant statement in this block
        blk = self.fn.blocks[b]
        pl = t["discr"].get("move") or t["discr"].get("copy")
        adt = None
        for s in blk["stmts"]:
            if s["k"] == "assign" and pl and s["place"] == {"l": pl["l"]} and "discr" in s["rv"]:
                adt = self.prog.adts_by_path.get(s["rv"].get("adt_path")) or self.prog.adts.get(s["rv"].get("adt"))
        if adt is None:
            return
        val = None
        for v in adt["variants"]:
            if v["name"] == want:
                val = v.get("discr", v["index"])
        if val is None:
            return
        arms = {v: tg for v, tg in t["arms"]}
        keep_label = ("sw", b, val) if val in arms else ("sw", b, "otherwise")
        for tgt, lab in self.fn.cfg.succ[b]:
            if lab is not None and lab != keep_label:
                self.dead.add((b, tgt, lab))

    def _block(self, b, st):
        fn = self.fn
        blk = fn.blocks[b]
        for s in blk["stmts"]:
            if s["k"] == "assign":
                v = self.rvalue(s["rv"], st)
                self.write_place(s["place"], v, st)
            elif s["k"] == "setdiscr":
                pass
        t = blk["term"]
        k = t["k"]
        if k == "call" or k == "tailcall":
            site = Site()
            site.alt_callees = None
            site.fn = fn
            site.bb = b
            site.raw = t
            site.span = t.get("sp")
            c = t.get("callee")
            if c:
                site.callee = callee_id(c)
            else:
                ind = self.operand(t["callee_indirect"], st) if "callee_indirect" in t else T("opaque", "indirect")
                site.callee = ("<indirect>", (show(self.value_of(ind, st), 3),))
            raw_args = [self.operand(a, st) for a in t["args"]]
            args = tuple(self.value_of(a, st) for a in raw_args)
            site.args = args
            site.arg_tys = t.get("arg_tys", [])
            where = (fn.key, b)
            val = T("call", site.callee, args, where)
            site.value = val
            site.mut_effects = []
            # &mut arguments: the pointee is re-defined by the call
            mloc = None
            for i, (ra, ty) in enumerate(zip(raw_args, site.arg_tys)):
                if ty.startswith("&mut ") and ra.op in ("addr", "mref"):
                    nv = T("mutcall", site.callee, i, args, where)
                    oldv = self._read_loc((ra.a[0], ra.a[1]), st)
                    self._write_loc((ra.a[0], ra.a[1]), nv, st)
                    site.mut_effects.append((i, (ra.a[0], ra.a[1]), nv, oldv))
                    if mloc is None:
                        mloc = (ra.a[0], ra.a[1])
            # a call that takes `&mut place` and returns `&mut _` hands out a pointer
            # into that place (index_mut, as_mut, iter_mut, deref_mut ...)
            if k == "call" and mloc is not None:
                d = t["dest"]
                if "p" not in d and fn.locals[d["l"]]["ty"].startswith("&mut "):
                    val = T("mref", mloc[0], mloc[1], val, site.mut_effects[0][3])
            # closures capturing &mut locals that are passed by value: conservatively
            # treat captured unique borrows as mutated
            for i, ra in enumerate(raw_args):
                if ra.op == "agg" and ra.a[0][0] == "closure":
                    pass
            self.sites[b] = site
            if c and c.get("name") in ("is_some", "is_none", "is_ok", "is_err", "unwrap_or_default", "unwrap_or", "unwrap", "expect", "unwrap_unchecked") and c.get("crate") in ("core", "std") and args:
                # queries on a value built with a known constructor are decided
                rv_ = args[0]
                while rv_.op in ("ref", "deref"):
                    rv_ = rv_.a[0]
                if rv_.op == "agg" and rv_.a[0][0] == "adt" and rv_.a[0][1] in ("Option", "Result"):
                    var_ = rv_.a[0][2]
                    good_ = var_ in ("Some", "Ok")
                    nm_ = c.get("name")
                    if nm_ in ("is_some", "is_ok"):
                        val = T("const", "int", int(good_), "bool")
                        site.value = val
                    elif nm_ in ("is_none", "is_err"):
                        val = T("const", "int", int(not good_), "bool")
                        site.value = val
                    elif good_ and rv_.a[1]:
                        val = rv_.a[1][0]
                        site.value = val
                    elif nm_ == "unwrap_or" and len(args) == 2:
                        val = args[1]
                        site.value = val
            if self.assume and c and c.get("name") in ("eq", "ne") and c.get("trait") == "PartialEq" and len(args) == 2:
                fv = self._fold_variant_eq(args[0], args[1])
                if fv is not None:
                    val = T("const", "int", int(fv if c["name"] == "eq" else not fv), "bool")
                    site.value = val
            if not c and "callee_indirect" in t:
                # call through a function value: constructors and known functions are resolved
                fvv = self.value_of(ind, st)
                val = self._indirect_value(fvv, args, where, val)
                site.value = val
                while fvv.op == "cast" or fvv.op in ("ref", "deref"):
                    fvv = fvv.a[1] if fvv.op == "cast" else fvv.a[0]
                alts = list(fvv.a[0]) if fvv.op == "phi" else [fvv]
                ids = []
                for a_ in alts:
                    while a_.op == "cast" or a_.op in ("ref", "deref"):
                        a_ = a_.a[1] if a_.op == "cast" else a_.a[0]
                    if a_.op == "const" and a_.a[0] == "fn" and not (len(a_.a) > 2 and a_.a[2]):
                        ids.append(a_.a[1])
                    else:
                        ids = None
                        break
                if ids:
                    site.alt_callees = ids
                    if len(ids) == 1:
                        # a single known function: the site reads like a direct call
                        site.callee = ids[0]
                        nm = ids[0][0]
                        site.raw = dict(t, callee={"key": nm, "path": nm, "name": nm.split("::")[-1], "trait": nm.split("::")[0] if "::" in nm and not nm.startswith("<") else None, "local": True, "args": list(ids[0][1]), "synthetic": True})
            if k == "call":
                self.write_place(t["dest"], val, st)
        elif k == "switch":
            self.switch[b] = self.value_of(self.operand(t["discr"], st), st)
            # constant conditions are folded always (a helper spliced into its caller with a literal `true` / `false`
            # argument, a `match` on a freshly built variant); assumptions on scheme roots only when given
            self._apply_assumption(b, t)
        elif k == "assert":
            self.asserts[b] = (
                self.value_of(self.operand(t["cond"], st), st),
                tuple(self.value_of(self.operand(o, st), st) for o in t.get("ops", [])),
            )
        elif k == "drop":
            pass


_cache = {}


def evaluate(fn, assume=None):
    key = (id(fn), tuple(sorted((assume or {}).items(), key=lambda kv: (str(kv[0][0]), str(kv[0][1]), kv[1]))))
    ev = _cache.get(key)
    if ev is None:
        ev = Eval(fn, assume=assume)
        _cache[key] = ev
    return ev


def place_root(t):
    """(param name, path) if t is a pure projection of a parameter, else None."""
    path = []
    while True:
        if t.op in ("ref", "deref"):
            t = t.a[0]
        elif t.op == "field":
            path.append("." + str(t.a[1]))
            t = t.a[0]
        elif t.op == "call" and t.a[0][0] in ("Clone::clone", "Deref::deref", "AsRef::as_ref", "Borrow::borrow") and len(t.a[1]) == 1:
            t = t.a[1][0]
        elif t.op == "index" and t.a[1].op == "const" and t.a[1].a[0] == "int":
            path.append("[%d]" % t.a[1].a[1])
            t = t.a[0]
        elif t.op == "call" and t.a[0][0] == "Index::index" and len(t.a[1]) == 2 and t.a[1][1].op == "const" and t.a[1][1].a[0] == "int":
            path.append("[%d]" % t.a[1][1].a[1])
            t = t.a[1][0]
        elif t.op == "param":
            return (t.a[1], "".join(reversed(path)))
        else:
            return None


# ---------------------------------------------------------------------------
# inter-procedural inlining of local callees (stated bound)


def inline(prog, t, depth=4, _memo=None, only=None):
    """Replace call terms whose callee is a local function with body by the callee's
    returned term with parameters substituted (depth-bounded).  `mutcall` terms on
    local callees are left opaque (effects are summarised separately)."""
    if _memo is None:
        _memo = {}
    if not isinstance(t, T):
        return t
    key = (t, depth)
    if key in _memo:
        return _memo[key]

    def rec(x):
        if isinstance(x, T):
            return inline(prog, x, depth, _memo, only)
        if isinstance(x, tuple):
            return tuple(rec(y) for y in x)
        return x

    a = tuple(rec(x) for x in t.a)
    r = _rebuild(t.op, a)
    if r.op == "call" and depth > 0:
        name = r.a[0][0]
        f = prog.fns.get(name)
        if f is not None and (only is None or only(f)) and not _is_recursive(f, name):
            ev = evaluate(f)
            if ev.ret is not UNDEF:
                mapping = {}
                for i in range(1, f.arg_count + 1):
                    if i - 1 < len(r.a[1]):
                        mapping[T("param", i, ev.pname(i))] = r.a[1][i - 1]
                body = subst(ev.ret, mapping)
                # callee-internal call sites keep their own `where`; fine
                r = inline(prog, body, depth - 1, _memo, only)
    _memo[key] = r
    return r


def _is_recursive(f, name):
    for _, t in f.calls():
        c = t.get("callee")
        if c and c.get("key") == name:
            return True
    return False


def _rebuild(op, a):
    if op == "deref":
        return mk_deref(a[0])
    if op == "ref":
        return mk_ref(a[0])
    if op == "phi":
        return mk_phi(a[0])
    if op == "downcast":
        return mk_downcast(a[0], a[1])
    if op == "field":
        return subst(T("field", *a), {})
    return T(op, *a)


def strip_sites(t, memo=None):
    """Drop the call-site component of call/mutcall terms (for sibling comparison)."""
    if memo is None:
        memo = {}
    if not isinstance(t, T):
        return t
    if t in memo:
        return memo[t]

    def rec(x):
        if isinstance(x, T):
            return strip_sites(x, memo)
        if isinstance(x, tuple):
            return tuple(rec(y) for y in x)
        return x

    if t.op == "call":
        r = T("call", t.a[0], rec(t.a[1]))
    elif t.op == "mutcall":
        r = T("mutcall", t.a[0], t.a[1], rec(t.a[2]))
    elif t.op == "loop":
        r = T("loop", 0, 0, rec(t.a[2]))
    else:
        r = _rebuild(t.op, tuple(rec(x) for x in t.a))
    memo[t] = r
    return r


def atoms(t):
    """Leaves a term depends on: params, named/assoc constants, byte constants, calls without args."""
    out = set()
    for s in subterms(t):
        if s.op in ("param", "assoc", "named", "tls"):
            out.add(s)
        elif s.op == "const" and s.a[0] in ("bytes",):
            out.add(s)
        elif s.op in ("call",) and len(s.a[1]) == 0:
            out.add(s)
    return out


def params_of(t):
    return {s.a[0] for s in subterms(t) if s.op == "param"}


def calls_in(t, name=None):
    out = []
    for s in subterms(t):
        if s.op in ("call", "mutcall"):
            if name is None or s.a[0][0] == name:
                out.append(s)
    return out
