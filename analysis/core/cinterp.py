"""A concrete interpreter for small pure functions over the extracted MIR (constant folding with control flow).

The tag-table rules need "what does this conversion return for the input 1 / "Basic" / the variant G2?".  When the
conversion is a table lookup the branch-free folder (ceval) answers; when it is written with `if` / `match` / early
returns / helpers, the function's blocks are walked with concrete values instead.  Only a closed set of operations is
understood (moves, aggregates, discriminants, comparisons, a handful of std functions, calls to other crate functions);
anything else raises Unknown and the caller falls back to its other methods.  Nothing of the crate is executed: this is
evaluation of the extracted facts over a finite set of inputs."""
from . import ceval as CE
from .sym import const_term

Unknown = CE.Unknown
NONE = CE.NONE

_IDENT = {"from", "into", "clone", "deref", "as_ref", "as_str", "as_bytes", "to_owned", "to_string", "borrow", "iter", "into_iter", "copied", "cloned", "as_slice", "to_vec", "deref_mut", "as_mut", "by_ref", "unwrap_unchecked"}


class Run:
    def __init__(self, P, budget=4000):
        self.P = P
        self.budget = budget
        self.out = []  # strings / bytes handed to a formatter or serializer

    def fn_of(self, key):
        return self.P.fns.get(key) or getattr(self.P, "helpers", {}).get(key)

    # ---- values -------------------------------------------------------
    def const(self, c):
        # a promoted constant (`&"Basic"` compared with `==`): its own little body in the enclosing function's record
        if isinstance(c, dict) and isinstance(c.get("promoted"), int) and getattr(self, "stack", None):
            pj = (getattr(self.stack[-1], "j", None) or {}).get("promoted") or []
            if 0 <= c["promoted"] < len(pj) and isinstance(pj[c["promoted"]], dict) and pj[c["promoted"]].get("blocks"):
                class _Body:
                    pass

                pf = _Body()
                pf.blocks = pj[c["promoted"]]["blocks"]
                pf.j = {"promoted": []}
                pf.kind = "Fn"
                return self.run(pf, [], 1)
        if isinstance(c, dict) and c.get("zst") and c.get("ty") == "()":
            return ()
        return CE.ceval(self.P, const_term(c), {})

    def place(self, pl, st):
        if pl["l"] not in st:
            raise Unknown("uninitialised local %s" % pl["l"])
        v = st[pl["l"]]
        for p in pl.get("p", []):
            if p == "*":
                continue
            if isinstance(p, dict) and "dc" in p:
                continue
            if isinstance(p, dict) and "f" in p:
                i = p["f"]
                if isinstance(v, tuple) and v and v[0] in ("some", "ok", "err") and i == 0:
                    v = v[1]
                elif isinstance(v, tuple) and v and v[0] == "adt":
                    v = v[3][i]
                elif isinstance(v, tuple) and v and v[0] == "closure":
                    v = v[2][i]
                elif isinstance(v, tuple):
                    v = v[i]
                else:
                    raise Unknown("field of scalar")
                continue
            if isinstance(p, dict) and "cidx" in p:
                v = v[p["cidx"]] if not p.get("from_end") else v[-p["cidx"]]
                continue
            if isinstance(p, dict) and "idx" in p:
                v = v[st[p["idx"]]]
                continue
            raise Unknown("projection")
        return v

    def operand(self, o, st):
        if "const" in o:
            return self.const(o["const"])
        pl = o.get("move") or o.get("copy")
        if pl is None:
            raise Unknown("operand")
        return self.place(pl, st)

    def discr(self, v):
        if v == NONE:
            return 0
        if isinstance(v, tuple) and v:
            if v[0] == "some":
                return 1
            if v[0] == "ok":
                return 0
            if v[0] == "err":
                return 1
            if v[0] == "adt":
                a = self.P.adts.get(v[1])
                if a:
                    for vv in a["variants"]:
                        if vv["name"] == v[2]:
                            return vv.get("discr", vv["index"])
        raise Unknown("discriminant")

    def rvalue(self, rv, st):
        if "use" in rv:
            return self.operand(rv["use"], st)
        if "ref" in rv:
            return self.place(rv["ref"], st)
        if "discr" in rv:
            return self.discr(self.place(rv["discr"], st))
        if "agg" in rv:
            k = rv["agg"]
            ops = tuple(self.operand(o, st) for o in rv["ops"])
            if "adt" in k:
                if k["adt"] == "Option":
                    return NONE if k["variant"] == "None" else ("some", ops[0])
                if k["adt"] == "Result":
                    return ("ok", ops[0]) if k["variant"] == "Ok" else ("err", ops[0] if ops else None)
                return ("adt", k["adt"], k["variant"], ops)
            if "closure" in k:
                return ("closure", k.get("key") or k["closure"], ops)
            return ops
        if "cast" in rv:
            v = self.operand(rv["a"], st)
            if isinstance(v, tuple) and v and v[0] == "adt":
                return self.discr(v)
            return v
        if "bin" in rv:
            a, b = self.operand(rv["a"], st), self.operand(rv["b"], st)
            op = rv["bin"]
            if op in ("Eq", "Ne", "Lt", "Le", "Gt", "Ge"):
                r = {"Eq": a == b, "Ne": a != b, "Lt": a < b, "Le": a <= b, "Gt": a > b, "Ge": a >= b}[op]
                return int(r)
            if op.startswith("Add"):
                r = a + b
            elif op.startswith("Sub"):
                r = a - b
            elif op == "BitAnd":
                r = a & b
            elif op == "BitOr":
                r = a | b
            else:
                raise Unknown("bin " + op)
            return (r, 0) if op.endswith("WithOverflow") else r
        if "un" in rv:
            v = self.operand(rv["a"], st)
            if rv["un"] == "Not":
                return int(not v) if v in (0, 1) else ~v
            if rv["un"] == "PtrMetadata":
                return len(v)
            raise Unknown("un " + rv["un"])
        if "repeat" in rv:
            return tuple([self.operand(rv["repeat"], st)] * rv["n"]) if isinstance(rv.get("n"), int) else (_ for _ in ()).throw(Unknown("repeat"))
        if "len" in rv:
            return len(self.place(rv["len"], st))
        raise Unknown("rvalue %s" % list(rv)[:1])

    # ---- calls --------------------------------------------------------
    def apply(self, f, args, depth):
        if isinstance(f, tuple) and f and f[0] == "closure":
            g = self.fn_of(f[1])
            if g is None:
                raise Unknown("closure body")
            return self.run(g, [f] + list(args), depth + 1)
        if isinstance(f, tuple) and f and f[0] == "fn":
            ft = f[1]
            if len(ft.a) > 2 and ft.a[2] and ft.a[2][0] == "ctor":
                return ("adt", ft.a[2][1], ft.a[2][2], tuple(args))
            g = self.fn_of(ft.a[1][0])
            if g is not None:
                return self.run(g, list(args), depth + 1)
        raise Unknown("apply")

    def call(self, t, st, depth):
        c = t.get("callee") or {}
        args = [self.operand(a, st) for a in t.get("args", [])]
        for key in (c.get("key"), (c.get("resolved") or {}).get("key")):
            g = self.fn_of(key) if key else None
            if g is not None and g.kind != "Closure":
                return self.run(g, args, depth + 1)
        name = c.get("name")
        if c.get("name") in ("call", "call_mut", "call_once") and len(args) == 2:
            return self.apply(args[0], list(args[1]) if isinstance(args[1], tuple) else [args[1]], depth)
        # crate conversions reached through a trait call: `<T as From<U>>::from`
        if name in ("from", "into", "try_from", "try_into", "from_str") and len(args) == 1:
            ga = c.get("args") or []
            if len(ga) >= 2:
                tgt, src = (ga[0], ga[1]) if name in ("from", "try_from") else (ga[1], ga[0])
                for key in ("<%s as From<%s>>::from" % (tgt, src), "<%s as TryFrom<%s>>::try_from" % (tgt, src), "<%s as FromStr>::from_str" % (ga[0],)):
                    g = self.fn_of(key)
                    if g is not None and (("try" in key or "from_str" in key) == (name in ("try_from", "try_into", "from_str"))):
                        return self.run(g, args, depth + 1)
        if name == "is_human_readable" and len(args) == 1:
            return int(bool(getattr(self, "human_readable", True)))
        if name == "to_string" and len(args) == 1 and isinstance(args[0], tuple) and args[0] and args[0][0] == "adt":
            g = self.fn_of("<%s as Display>::fmt" % args[0][1])
            if g is not None:
                sub = Run(self.P, self.budget)
                sub.run(g, [args[0], ("adt", "Formatter", "Formatter", ())], depth + 1)
                if len(sub.out) == 1:
                    return sub.out[0]
            raise Unknown("to_string of " + args[0][1])
        if name == "serialize" and c.get("trait") == "Serialize" and len(args) == 2 and isinstance(args[0], (bytes, int)) and not isinstance(args[0], bool):
            self.out.append(args[0])
            return ("ok", ())
        if name in ("eq", "ne") and len(args) == 2:
            r = args[0] == args[1]
            return int(r if name == "eq" else not r)
        if name in _IDENT and len(args) == 1:
            return args[0]
        if name in ("write_str", "serialize_str", "pad") and len(args) == 2:
            self.out.append(args[1])
            return ("ok", ())
        if name in ("serialize_u8",) and len(args) == 2:
            self.out.append(args[1])
            return ("ok", ())
        if name == "branch" and len(args) == 1:
            v = args[0]
            if v == NONE or (isinstance(v, tuple) and v and v[0] == "err"):
                return ("adt", "ControlFlow", "Break", (v,))
            if isinstance(v, tuple) and v and v[0] in ("some", "ok"):
                return ("adt", "ControlFlow", "Continue", (v[1],))
            raise Unknown("branch")
        if name == "from_residual" and len(args) == 1:
            return args[0]
        if name == "get" and len(args) == 2:
            arr, i = args
            return ("some", arr[i]) if isinstance(i, int) and 0 <= i < len(arr) else NONE
        if name in ("unwrap_or",) and len(args) == 2:
            o = args[0]
            return o[1] if o != NONE and o[0] in ("some", "ok") else args[1]
        if name in ("unwrap_or_default", "unwrap", "expect") and args:
            o = args[0]
            if o != NONE and isinstance(o, tuple) and o[0] in ("some", "ok"):
                return o[1]
            raise Unknown("unwrap of none")
        if name in ("unwrap_or_else",) and len(args) == 2:
            o = args[0]
            if o != NONE and o[0] in ("some", "ok"):
                return o[1]
            return self.apply(args[1], [] if o == NONE else [o[1]], depth)
        if name == "map" and len(args) == 2:
            o = args[0]
            if o == NONE or (isinstance(o, tuple) and o and o[0] == "err"):
                return o
            if isinstance(o, tuple) and o and o[0] in ("some", "ok"):
                return (o[0], self.apply(args[1], [o[1]], depth))
            if isinstance(o, tuple):
                return tuple(self.apply(args[1], [x], depth) for x in o)
        if name == "map_err" and len(args) == 2:
            o = args[0]
            if isinstance(o, tuple) and o and o[0] == "err":
                return ("err", None)
            return o
        if name in ("map_or", "map_or_else") and len(args) == 3:
            o = args[0]
            if isinstance(o, tuple) and o and o[0] in ("some", "ok"):
                return self.apply(args[2], [o[1]], depth)
            return args[1] if name == "map_or" else self.apply(args[1], [], depth)
        if name in ("ok_or", "ok_or_else") and len(args) == 2:
            o = args[0]
            return ("ok", o[1]) if o != NONE else ("err", None)
        if name in ("position", "find") and len(args) == 2:
            for i, x in enumerate(args[0]):
                if self.apply(args[1], [x], depth):
                    return ("some", i if name == "position" else x)
            return NONE
        if name == "then_some" and len(args) == 2:
            return ("some", args[1]) if args[0] else NONE
        if name == "from_str" and "fmt::Arguments" in (c.get("path") or "") and len(args) == 1 and isinstance(args[0], bytes):
            return ("fmt", (args[0],))
        if name == "new_const" and len(args) == 1 and isinstance(args[0], tuple) and all(isinstance(x, bytes) for x in args[0]):
            return ("fmt", args[0])
        if name == "write_fmt" and len(args) == 2 and isinstance(args[1], tuple) and args[1] and args[1][0] == "fmt":
            self.out.append(b"".join(args[1][1]))
            return ("ok", ())
        if name in ("new_const", "new_v1", "format", "to_string") or (c.get("path") or "").startswith("core::fmt"):
            raise Unknown("formatting machinery")
        raise Unknown("call " + str(c.get("path") or name))

    # ---- one function ---------------------------------------------------
    def run(self, f, args, depth=0):
        if depth > 6:
            raise Unknown("depth")
        st = {}
        for i, a in enumerate(args):
            st[i + 1] = a
        b = 0
        blocks = f.blocks
        if not hasattr(self, "stack"):
            self.stack = []
        self.stack.append(f)
        try:
            return self._loop(f, st, blocks, depth)
        finally:
            self.stack.pop()

    def _loop(self, f, st, blocks, depth):
        b = 0
        while True:
            self.budget -= 1
            if self.budget <= 0:
                raise Unknown("budget")
            blk = blocks[b]
            for s in blk["stmts"]:
                if s["k"] != "assign":
                    continue
                pl = s["place"]
                v = self.rvalue(s["rv"], st)
                if "p" in pl:
                    if pl["p"] == ["*"] or all(p == "*" for p in pl["p"]):
                        st[pl["l"]] = v
                        continue
                    raise Unknown("projected store")
                st[pl["l"]] = v
            t = blk["term"]
            k = t["k"]
            if k == "goto":
                b = t["target"]
            elif k == "return":
                if 0 not in st:
                    return ()
                return st[0]
            elif k == "switch":
                v = self.operand(t["discr"], st)
                if isinstance(v, tuple):
                    raise Unknown("switch on aggregate")
                tgt = t["otherwise"]
                for val, tg in t["arms"]:
                    if val == v:
                        tgt = tg
                b = tgt
            elif k == "call":
                v = self.call(t, st, depth)
                d = t.get("dest")
                if isinstance(d, dict) and "p" not in d:
                    st[d["l"]] = v
                if t.get("target") is None:
                    raise Unknown("diverging call")
                b = t["target"]
            elif k == "drop":
                b = t["target"]
            elif k == "assert":
                b = t["target"]
            else:
                raise Unknown("terminator " + k)


def run_fn(P, f, args):
    """(result value, [strings / bytes written]) of f on concrete arguments, or raises Unknown."""
    r = Run(P)
    v = r.run(f, list(args))
    return v, r.out
