"""Polynomial normal form of group / scalar arithmetic.

A term built from the operator traits (`Add`, `Sub`, `Mul`, `Neg`, their `*Assign` forms written as in-place updates,
`Group::double`, `Field::square`, `Sum::sum` over a literal array) is read as a polynomial with integer coefficients over
opaque atoms; two terms with the same normal form denote the same element for every value of the atoms (module axioms:
the group is an abelian group under +, scalars form a commutative ring, scalar multiplication distributes).  The normal
form is insensitive to association, operand order, `a - b` versus `a + (-b)`, `-(a * c)` versus `a * (-c)` and similar
rewrites, and sensitive to exactly the changes that alter the denoted element (a flipped sign, a dropped or doubled
term, operands exchanged between monomials)."""
from . import bytesnf as B

_ADD = ("Add::add",)
_SUB = ("Sub::sub",)
_MUL = ("Mul::mul",)
_NEG = ("Neg::neg",)
_ADDA = ("AddAssign::add_assign",)
_SUBA = ("SubAssign::sub_assign",)
_MULA = ("MulAssign::mul_assign",)


def _padd(p, q, k=1):
    r = dict(p)
    for m, c in q.items():
        c2 = r.get(m, 0) + k * c
        if c2:
            r[m] = c2
        else:
            r.pop(m, None)
    return r


def _pmul(p, q):
    r = {}
    for m1, c1 in p.items():
        for m2, c2 in q.items():
            m = tuple(sorted(m1 + m2, key=lambda t: t.id if hasattr(t, "id") else id(t)))
            c = r.get(m, 0) + c1 * c2
            if c:
                r[m] = c
            else:
                r.pop(m, None)
    return r


def poly(t, atom=None, depth=0):
    """{monomial: coefficient}; monomial = tuple of atoms (terms, or whatever `atom(term)` maps them to) sorted by a
    stable key.  `atom` may return None to keep the term itself."""
    t = B.peel(t)
    if depth > 40:
        return {(_key(t, atom),): 1}
    if t.op == "call" and len(t.a[1]) == 2:
        n = B.cname(t)
        if n in _ADD:
            return _padd(poly(t.a[1][0], atom, depth + 1), poly(t.a[1][1], atom, depth + 1))
        if n in _SUB:
            return _padd(poly(t.a[1][0], atom, depth + 1), poly(t.a[1][1], atom, depth + 1), -1)
        if n in _MUL:
            return _pmul_keys(poly(t.a[1][0], atom, depth + 1), poly(t.a[1][1], atom, depth + 1))
    if t.op == "call" and len(t.a[1]) == 1 and B.cname(t) in ("Iterator::sum", "Sum::sum"):
        el = _array_elems(t.a[1][0])
        if el is not None:
            acc = {}
            for e in el:
                acc = _padd(acc, poly(e, atom, depth + 1))
            return acc
    if t.op == "call" and len(t.a[1]) == 1:
        n = B.cname(t)
        if n in _NEG:
            return _padd({}, poly(t.a[1][0], atom, depth + 1), -1)
        if n in ("Group::double", "Field::double"):
            return _padd({}, poly(t.a[1][0], atom, depth + 1), 2)
        if n in ("Field::square",):
            p = poly(t.a[1][0], atom, depth + 1)
            return _pmul_keys(p, p)
        if n in ("Clone::clone",):
            return poly(t.a[1][0], atom, depth + 1)
    if t.op == "mutcall" and len(t.a) >= 3 and t.a[1] == 0 and len(t.a[2]) == 2:
        n = B.cname(t)
        if n in _ADDA:
            return _padd(poly(t.a[2][0], atom, depth + 1), poly(t.a[2][1], atom, depth + 1))
        if n in _SUBA:
            return _padd(poly(t.a[2][0], atom, depth + 1), poly(t.a[2][1], atom, depth + 1), -1)
        if n in _MULA:
            return _pmul_keys(poly(t.a[2][0], atom, depth + 1), poly(t.a[2][1], atom, depth + 1))
    if t.op == "call" and B.cname(t) in ("Group::identity", "Field::ZERO") and not t.a[1]:
        return {}
    if t.op == "named" and str(t.a[0]).endswith(("Field::ZERO", "::ZERO")):
        return {}
    if t.op == "named" and str(t.a[0]).endswith(("Field::ONE", "::ONE")):
        return {(): 1}
    return {(_key(t, atom),): 1}


_ITER_WRAPPERS = ("IntoIterator::into_iter", "slice::<impl [T]>::iter", "Iterator::copied", "Iterator::cloned", "Iterator::by_ref", "array::<impl [T; N]>::iter", "array::<impl [T; N]>::into_iter")


def _array_elems(t):
    """Elements of a literal array that is iterated as a whole (`[a, b, c].into_iter()`, `.iter().copied()`), else None."""
    t = B.peel(t)
    k = 0
    while t.op == "call" and len(t.a[1]) == 1 and B.cname(t) in _ITER_WRAPPERS and k < 6:
        t = B.peel(t.a[1][0])
        k += 1
    if t.op == "agg" and t.a[0][0] == "array":
        return list(t.a[1])
    return None


def _key(t, atom):
    if atom is not None:
        k = atom(t)
        if k is not None:
            return k
    return t


def _skey(k):
    return (0, k) if isinstance(k, str) else (1, getattr(k, "id", None) or id(k))


def _pmul_keys(p, q):
    r = {}
    for m1, c1 in p.items():
        for m2, c2 in q.items():
            m = tuple(sorted(m1 + m2, key=_skey))
            c = r.get(m, 0) + c1 * c2
            if c:
                r[m] = c
            else:
                r.pop(m, None)
    return r


def named(p):
    """Polynomial with every monomial sorted - comparable with a literal {("a","b"): 1, ...} table when `atom` maps every
    atom to a string; None when some atom stayed a term."""
    out = {}
    for m, c in p.items():
        if not all(isinstance(k, str) for k in m):
            return None
        out[tuple(sorted(m))] = c
    return out


def show_poly(p, show=None):
    if not p:
        return "0"
    parts = []
    for m, c in sorted(p.items(), key=lambda kv: [str(_skey(k)) for k in kv[0]]):
        ms = "*".join(k if isinstance(k, str) else (show(k, 3) if show else str(k)) for k in m) or "1"
        parts.append(("+" if c > 0 else "-") + ("" if abs(c) == 1 else str(abs(c)) + "*") + ms)
    s = " ".join(parts)
    return s[1:] if s.startswith("+") else s


def pairs_of(t):
    """The (left, right) operand terms of a literal pairing input `&[(a, b), (c, d), ..]` (array or slice of tuples)."""
    from .terms import subterms

    t = B.peel(t)
    v = _pushed_elems(t)
    if v is not None:
        if v and all(B.peel(e).op == "agg" and B.peel(e).a[0][0] == "tuple" and len(B.peel(e).a[1]) == 2 for e in v):
            return [tuple(B.peel(e).a[1]) for e in v]
        return None
    arrs = [s for s in set([t]) | set(subterms(t)) if s.op == "agg" and s.a[0][0] == "array" and s.a[1] and all(B.peel(e).op == "agg" and B.peel(e).a[0][0] == "tuple" and len(B.peel(e).a[1]) == 2 for e in s.a[1])]
    if len(arrs) != 1:
        return None
    return [tuple(B.peel(e).a[1]) for e in arrs[0].a[1]]


def _pushed_elems(t):
    """Elements of a Vec built by `Vec::new()` / `with_capacity(n)` and a straight sequence of `push`es, handed over whole
    (`&v`, `v.as_slice()`, `&v[..]`), else None."""
    t = B.peel(t)
    k = 0
    while t.op == "call" and len(t.a[1]) >= 1 and B.cname(t) in ("Vec::<T, A>::as_slice", "Deref::deref", "AsRef::as_ref", "Borrow::borrow") and k < 4:
        t = B.peel(t.a[1][0])
        k += 1
    out = []
    while t.op == "mutcall" and B.cname(t) == "Vec::<T, A>::push" and t.a[1] == 0 and len(t.a[2]) == 2:
        out.append(t.a[2][1])
        t = B.peel(t.a[2][0])
    if not out:
        return None
    if t.op == "call" and B.cname(t) in ("Vec::<T>::new", "Vec::<T>::with_capacity", "Vec::<T, A>::new", "Vec::<T, A>::with_capacity"):
        return list(reversed(out))
    return None


def bilinear(pairs, atom=None):
    """Normal form of a pairing product  prod e(L_i, R_i)  written additively: sum_i L_i (x) R_i, with both sides expanded
    as polynomials (bilinearity: e(aP + Q, R) = e(P, R)^a e(Q, R), e(-P, R) = e(P, -R) = e(P, R)^-1)."""
    acc = {}
    for l, r in pairs:
        acc = _padd(acc, _pmul_keys(poly(l, atom), poly(r, atom)))
    return acc


def up_to_sign(p):
    """Canonical representative of {p, -p} (for products only tested against the identity)."""
    if not p:
        return p
    first = sorted(p.items(), key=lambda kv: [str(_skey(k)) for k in kv[0]])[0]
    if first[1] < 0:
        return {m: -c for m, c in p.items()}
    return p
