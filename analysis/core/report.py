"""Check context: obligations, floors, known findings, evidence writer."""
import json
import os
import sys
import time

VERIF = os.path.dirname(os.path.dirname(os.path.dirname(os.path.abspath(__file__))))


class Ctx:
    def __init__(self, prop, tier="quick", seed=0):
        self.prop = prop
        self.tier = tier
        self.seed = seed
        self.t0 = time.time()
        self.obligations = []  # dicts
        self.notes = []
        self.assumptions = []
        self.analysed = {"functions": set(), "call_sites": 0, "configs": set()}
        self.extra = {}
        self._progs = {}
        self.precision = {"strong": 0, "weak": 0}
        self.default_cfg = ("blst", "dev")
        self.key_prefix = ""

    # ---- programs --------------------------------------------------------
    def prog(self, backend="blst", profile="dev"):
        key = (backend, profile)
        if key not in self._progs:
            from ..extract import facts
            from .program import Program

            self._progs[key] = Program(facts(backend, profile))
            try:
                from ..rules.flow import register_accessors

                register_accessors(self._progs[key])
            except Exception:
                pass
            self.analysed["configs"].add("%s/%s" % key)
        return self._progs[key]

    @property
    def P(self):
        return self.prog(*self.default_cfg)

    def prefixed(self, prefix):
        """`with ctx.prefixed("nodebug|"): ...` - obligations recorded inside carry the prefix in their key (the same
        rule run on another configuration of the crate)."""
        ctx = self

        class _P:
            def __enter__(self_):
                self_.old = ctx.key_prefix
                ctx.key_prefix = ctx.key_prefix + prefix

            def __exit__(self_, *a):
                ctx.key_prefix = self_.old
                return False

        return _P()

    # ---- obligations -----------------------------------------------------
    def ob(self, rule, key, ok, detail="", where=None, sample=None, weak=False):
        """Record one decided obligation. key identifies the construct without line numbers."""
        o = {
            "rule": rule,
            "key": "%s%s/%s" % (self.key_prefix, rule, key),
            "ok": bool(ok),
            "detail": detail,
        }
        if where:
            o["where"] = where
        if sample is not None:
            o["sample"] = sample
        if weak:
            o["precision"] = "weak"
            self.precision["weak"] += 1
        else:
            self.precision["strong"] += 1
        self.obligations.append(o)
        return ok

    def floor(self, rule, what, count, minimum):
        """Instance-count floor: a rule that matches fewer sites than confirmed by hand fails closed."""
        return self.ob(
            rule + ".floor",
            what,
            count >= minimum,
            "matched %d instance(s) of %s; floor (confirmed by reading) is %d" % (count, what, minimum),
        )

    def need_fn(self, rule, key, prog=None):
        """Fetch a function that the property's mechanism is anchored in; missing anchor => violation."""
        p = prog or self.P
        f = p.fns.get(key)
        if f is None:
            self.ob(rule + ".anchor", key, False, "required anchor function `%s` not found in the crate" % key)
        else:
            self.analysed["functions"].add(key)
        return f

    def saw(self, fn):
        if fn is not None:
            self.analysed["functions"].add(fn.key if hasattr(fn, "key") else str(fn))

    def note(self, s):
        self.notes.append(s)

    def assume(self, s):
        if s not in self.assumptions:
            self.assumptions.append(s)


def load_known():
    p = os.path.join(VERIF, "known_findings.json")
    if not os.path.exists(p):
        return {"findings": [], "fixed": []}
    with open(p) as fh:
        return json.load(fh)


def finish(ctx, explanation, rule_text, level="other"):
    """Write evidence + report; print KNOWN-FINDING / VIOLATION lines; return exit code."""
    known = load_known()
    known_keys = {}
    for f in known.get("findings", []):
        if f.get("property") == ctx.prop and f.get("status", "open") == "open":
            known_keys[f["key"]] = f
    def base_key(k):
        # the same construct seen in another configuration (thorough tier: `rust|` prefix) is the same finding
        return k.split("|", 1)[1] if "|" in k.split("/", 1)[0] else k

    viol = [o for o in ctx.obligations if not o["ok"]]
    new = [o for o in viol if base_key(o["key"]) not in known_keys]
    kn = [o for o in viol if base_key(o["key"]) in known_keys]
    seen_known = set()
    for o in kn:
        if base_key(o["key"]) in seen_known:
            continue
        seen_known.add(base_key(o["key"]))
        print("KNOWN-FINDING: property=%s %s [%s]" % (ctx.prop, known_keys[base_key(o["key"])].get("what", o["detail"]), base_key(o["key"])))
    ev_dir = os.environ.get("VERIF_EVIDENCE_DIR") or os.path.join(VERIF, "evidence")
    os.makedirs(ev_dir, exist_ok=True)
    report_path = os.path.join(ev_dir, "%s.report.json" % ctx.prop)
    distinct = len({o["key"] for o in ctx.obligations})
    samples = []
    for o in ctx.obligations:
        if len(samples) >= 12:
            break
        if o.get("sample") is not None or o.get("where"):
            samples.append({k: o[k] for k in ("key", "detail", "where", "sample") if k in o})
    if not samples:
        samples = [{"key": o["key"], "detail": o["detail"]} for o in ctx.obligations[:8]]
    n_ok = sum(1 for o in ctx.obligations if o["ok"])
    rules = sorted({o["rule"] for o in ctx.obligations})
    cov = {
        "explanation": explanation,
        "rule": rule_text,
        "obligations": len(ctx.obligations),
        "discharged": n_ok,
        "evaluations": len(ctx.obligations),
        "distinct_nontrivial": distinct,
        "samples": samples,
        "rules_applied": rules,
        "functions_analysed": len(ctx.analysed["functions"]),
        "functions_sample": sorted(ctx.analysed["functions"])[:25],
        "configurations": sorted(ctx.analysed["configs"]),
        "precision": ctx.precision,
        "known_findings_matched": sorted(seen_known),
        "notes": ctx.notes[:40],
    }
    cov.update(ctx.extra)
    ev = {
        "property_id": ctx.prop,
        "tier": ctx.tier,
        "seed": ctx.seed,
        "level": level,
        "coverage": cov,
        "assumptions": ctx.assumptions,
        "wall_s": round(time.time() - ctx.t0, 3),
        "violations": len(new),
    }
    with open(os.path.join(ev_dir, "%s.json" % ctx.prop), "w") as fh:
        json.dump(ev, fh, indent=1, sort_keys=True, default=str)
    with open(report_path, "w") as fh:
        json.dump(
            {
                "property": ctx.prop,
                "violations": new,
                "known": kn,
                "all_obligations": ctx.obligations,
            },
            fh,
            indent=1,
            default=str,
        )
    print(
        "%s: %d obligations, %d discharged, %d known finding(s), %d violation(s); %d functions, configs=%s, %.1fs"
        % (ctx.prop, len(ctx.obligations), n_ok, len(seen_known), len(new), len(ctx.analysed["functions"]), ",".join(sorted(ctx.analysed["configs"])), time.time() - ctx.t0)
    )
    if new:
        for o in new[:40]:
            print("  violation %s: %s%s" % (o["key"], o["detail"], (" @ " + str(o["where"])) if o.get("where") else ""))
        print("VIOLATION property=%s replay=%s" % (ctx.prop, report_path))
        return 1
    return 0
