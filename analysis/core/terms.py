"""Hash-consed term DAG used by the value-numbering evaluator."""


class T:
    __slots__ = ("op", "a", "_h", "_size")
    _tab = {}

    def __new__(cls, op, *a):
        key = (op, a)
        t = cls._tab.get(key)
        if t is None:
            t = object.__new__(cls)
            t.op = op
            t.a = a
            t._h = hash(key)
            t._size = None
            cls._tab[key] = t
        return t

    def __hash__(self):
        return self._h

    def __eq__(self, o):
        return self is o

    def __ne__(self, o):
        return self is not o

    def __lt__(self, o):
        return show(self) < show(o)

    def __repr__(self):
        return show(self, 6)

    def kids(self):
        for x in self.a:
            if isinstance(x, T):
                yield x
            elif isinstance(x, tuple):
                for y in x:
                    if isinstance(y, T):
                        yield y


def show(t, depth=12):
    if not isinstance(t, T):
        if isinstance(t, tuple):
            return "(" + ", ".join(show(x, depth) for x in t) + ")"
        return str(t)
    if depth <= 0:
        return "…"
    op, a = t.op, t.a
    d = depth - 1
    if op == "param":
        return "P%s" % (a[1] if len(a) > 1 and a[1] else a[0])
    if op == "const":
        k = a[0]
        if k == "bytes":
            try:
                s = bytes.fromhex(a[1]).decode("ascii")
                if s.isprintable():
                    return 'b"%s"' % s
            except Exception:
                pass
            return "0x" + a[1]
        if k == "int":
            return "%s%s" % (a[1], "" if len(a) < 3 else ":" + str(a[2]))
        return "%s" % (a[1:] if len(a) > 1 else k,)
    if op == "assoc":
        return "%s<%s>" % (a[0], ",".join(a[1]))
    if op == "call":
        return "%s(%s)" % (callee_str(a[0]), ", ".join(show(x, d) for x in a[1]))
    if op == "mutcall":
        return "%s!%d(%s)" % (callee_str(a[0]), a[1], ", ".join(show(x, d) for x in a[2]))
    if op == "field":
        return "%s.%s" % (show(a[0], d), a[1])
    if op == "deref":
        return "*%s" % show(a[0], d)
    if op == "ref":
        return "&%s" % show(a[0], d)
    if op == "addr":
        return "&_%s%s" % (a[0], "".join("." + str(p) for p in a[1]))
    if op == "downcast":
        return "(%s as %s)" % (show(a[0], d), a[1])
    if op == "agg":
        k = a[0]
        name = k[0] if k[0] in ("tuple", "array") else "::".join(str(x) for x in k[1:])
        return "%s{%s}" % (name, ", ".join(show(x, d) for x in a[1]))
    if op == "phi":
        return "φ(%s)" % " | ".join(show(x, d) for x in a[0])
    if op == "loop":
        return "loop@%s[_%s](%s)" % (a[0], a[1], show(a[2], d))
    if op == "bin":
        return "(%s %s %s)" % (show(a[1], d), a[0], show(a[2], d))
    if op == "un":
        return "%s(%s)" % (a[0], show(a[1], d))
    if op == "cast":
        return "(%s as %s)" % (show(a[1], d), a[2])
    return "%s(%s)" % (op, ", ".join(show(x, d) for x in a))


def callee_str(c):
    # c = (name, gargs)
    if isinstance(c, tuple):
        return c[0]
    return str(c)


def subterms(t, seen=None):
    """All distinct subterms (DAG walk)."""
    if seen is None:
        seen = set()
    st = [t]
    while st:
        x = st.pop()
        if not isinstance(x, T) or x in seen:
            continue
        seen.add(x)
        for k in x.kids():
            st.append(k)
    return seen


def contains(t, pred):
    for s in subterms(t):
        if pred(s):
            return True
    return False


def find_all(t, pred):
    return [s for s in subterms(t) if pred(s)]


UNDEF = T("undef")


def mk_phi(terms):
    flat = set()
    for t in terms:
        if t.op == "phi":
            flat.update(t.a[0])
        else:
            flat.add(t)
    flat.discard(UNDEF) if len(flat) > 1 else None
    if len(flat) == 1:
        return next(iter(flat))
    return T("phi", tuple(sorted(flat, key=lambda x: x._h)))


def mk_deref(t):
    if t.op == "ref":
        return t.a[0]
    if t.op == "phi":
        return mk_phi([mk_deref(x) for x in t.a[0]])
    return T("deref", t)


def mk_ref(t):
    if t.op == "deref":
        return t.a[0]
    return T("ref", t)


def _split_first_payload(base, idx):
    """`(x.split_first() as Some).0` is the pair (&x[0], &x[1..]): project it to the canonical index / range terms."""
    if not (base.op == "field" and base.a[1] == "0" and base.a[0].op == "downcast" and base.a[0].a[1] == "Some" and idx in (0, 1)):
        return None
    c = base.a[0].a[0]
    while c.op in ("ref", "deref"):
        c = c.a[0]
    if not (c.op == "call" and isinstance(c.a[0], tuple) and c.a[0][0] == "slice::<impl [T]>::split_first" and len(c.a[1]) == 1):
        return None
    x = c.a[1][0]
    if idx == 0:
        return mk_ref(T("index", mk_deref(x), T("const", "int", 0, "usize")))
    elem = c.a[0][1][0] if c.a[0][1] else "T"
    rng = T("agg", ("adt", "RangeFrom", "RangeFrom", ("start",)), (T("const", "int", 1, "usize"),))
    return T("call", ("Index::index", ("[%s]" % elem, "RangeFrom<usize>")), (x, rng), *c.a[2:])


def _first_payload(base, idx):
    """`(x.first() as Some).0` is `&x[0]`: the canonical index term."""
    if not (idx == 0 and base.op == "downcast" and base.a[1] == "Some"):
        return None
    c = base.a[0]
    while c.op in ("ref", "deref"):
        c = c.a[0]
    if not (c.op == "call" and isinstance(c.a[0], tuple) and c.a[0][0] == "slice::<impl [T]>::first" and len(c.a[1]) == 1):
        return None
    return mk_ref(T("index", mk_deref(c.a[1][0]), T("const", "int", 0, "usize")))


def _try_payload(base, idx):
    """`(Try::branch(x) as Continue).0` is the payload of x's success variant: `(x as Some).0` / `(x as Ok).0`."""
    if not (idx == 0 and base.op == "downcast" and base.a[1] == "Continue"):
        return None
    c = base.a[0]
    if not (c.op == "call" and isinstance(c.a[0], tuple) and c.a[0][0] == "Try::branch" and len(c.a[1]) == 1 and c.a[0][1]):
        return None
    ty = str(c.a[0][1][0])
    var = "Some" if ty.startswith("Option<") else ("Ok" if ty.startswith("Result<") else None)
    if var is None:
        return None
    return mk_field(mk_downcast(c.a[1][0], var), 0, "0")


_PAYLOAD_MOVES = {
    # (callee, variant read) -> variant of the argument that carries the same payload
    ("Result::<T, E>::ok", "Some"): "Ok",
    ("Result::<T, E>::err", "Some"): "Err",
    ("Option::<T>::ok_or", "Ok"): "Some",
    ("Option::<T>::ok_or_else", "Ok"): "Some",
}


def _moved_payload(base, idx):
    """`(x.ok() as Some).0` is `(x as Ok).0`, `(o.ok_or(e) as Ok).0` is `(o as Some).0`: the payload moves unchanged."""
    if not (idx == 0 and base.op == "downcast"):
        return None
    c = base.a[0]
    if not (c.op == "call" and isinstance(c.a[0], tuple) and len(c.a[1]) >= 1):
        return None
    var = _PAYLOAD_MOVES.get((c.a[0][0], base.a[1]))
    if var is None:
        return None
    return mk_field(mk_downcast(c.a[1][0], var), 0, "0")


def mk_field(base, idx, name):
    sp = _split_first_payload(base, idx)
    if sp is not None:
        return sp
    sp = _try_payload(base, idx)
    if sp is not None:
        return sp
    sp = _moved_payload(base, idx)
    if sp is not None:
        return sp
    sp = _first_payload(base, idx)
    if sp is not None:
        return sp
    if base.op == "agg":
        kind, ops = base.a
        if kind[0] in ("tuple", "adt", "closure") and isinstance(idx, int) and idx < len(ops):
            return ops[idx]
    if base.op == "downcast" and base.a[0].op == "agg":
        kind, ops = base.a[0].a
        if kind[0] == "adt" and kind[2] == base.a[1] and isinstance(idx, int) and idx < len(ops):
            return ops[idx]
    if base.op == "upd":
        old, path, val = base.a
        if path == (("f", idx),):
            return val
        if path and path[0] != ("f", idx):
            return mk_field(old, idx, name)
    if base.op == "phi":
        return mk_phi([mk_field(x, idx, name) for x in base.a[0]])
    return T("field", base, name)


def _known_variant(t):
    """The variant a value certainly has: an enum aggregate's own, or None for `from_residual` into an Option (the
    `?` on an Option hands `None` on)."""
    if t.op == "agg" and t.a[0][0] == "adt" and len(t.a[0]) > 2 and isinstance(t.a[0][2], str):
        return t.a[0][2]
    if t.op == "call" and isinstance(t.a[0], tuple) and t.a[0][0] == "FromResidual::from_residual" and t.a[0][1] and str(t.a[0][1][0]).startswith("Option<"):
        return "None"
    return None


def mk_downcast(base, variant):
    if base.op == "phi":
        alts = [x for x in base.a[0] if _known_variant(x) in (None, variant)]
        if alts and len(alts) < len(base.a[0]):
            # alternatives known to be another variant cannot be the value that is read as `variant`
            return mk_phi([mk_downcast(x, variant) for x in alts])
        return mk_phi([mk_downcast(x, variant) for x in base.a[0]])
    return T("downcast", base, variant)


def subst(t, mapping, memo=None):
    """Substitute terms (e.g. params) by mapping[t]; rebuild through simplifying constructors."""
    if memo is None:
        memo = {}
    if not isinstance(t, T):
        return t
    if t in mapping:
        return mapping[t]
    if t in memo:
        return memo[t]

    def s(x):
        if isinstance(x, T):
            return subst(x, mapping, memo)
        if isinstance(x, tuple):
            return tuple(s(y) for y in x)
        return x

    op = t.op
    a = tuple(s(x) for x in t.a)
    if op == "deref":
        r = mk_deref(a[0])
    elif op == "ref":
        r = mk_ref(a[0])
    elif op == "field":
        # name only: try positional lookup when base became an aggregate
        base = a[0]
        name = a[1]
        r = None
        if base.op == "agg" or (base.op == "downcast" and base.a[0].op == "agg"):
            agg = base if base.op == "agg" else base.a[0]
            kind = agg.a[0]
            names = None
            if kind[0] == "tuple" or kind[0] == "closure":
                names = [str(i) for i in range(len(agg.a[1]))]
            elif kind[0] == "adt":
                names = list(kind[3]) if len(kind) > 3 else None
            if names and name in names:
                r = mk_field(base, names.index(name), name)
        if r is None and name in ("0", "1"):
            r = _split_first_payload(base, int(name))
        if r is None and name == "0":
            r = _try_payload(base, 0)
        if r is None:
            r = T("field", base, name)
    elif op == "downcast":
        r = mk_downcast(a[0], a[1])
    elif op == "phi":
        r = mk_phi(a[0])
    else:
        r = T(op, *a)
    memo[t] = r
    return r
