"""Boolean / subtle::Choice algebra over terms, path conditions from dominating edges.

formula(term) -> F, where F is one of
  ("true",) ("false",) ("not", F) ("and", (F..)) ("or", (F..)) ("atom", kind, payload...)
Atoms keep the underlying (site-stripped) term so rules can ask *what* is tested.
"""
from .terms import T, show
from .sym import strip_sites

TRUE = ("true",)
FALSE = ("false",)

_NOT_CALLS = {"Not::not"}
_AND_CALLS = {"BitAnd::bitand"}
_OR_CALLS = {"BitOr::bitor"}
_ID_CALLS = {"Into::into", "From::from", "Choice::unwrap_u8", "Clone::clone", "black_box"}

_NEG_CMP = {"Eq": "Ne", "Ne": "Eq", "Lt": "Ge", "Ge": "Lt", "Gt": "Le", "Le": "Gt"}


def f_not(f):
    if f == TRUE:
        return FALSE
    if f == FALSE:
        return TRUE
    if f[0] == "not":
        return f[1]
    if f[0] == "atom" and f[1] == "cmp":
        return ("atom", "cmp", _NEG_CMP[f[2]], f[3], f[4])
    # negation normal form: !(a | b) = !a & !b ; !(a & b) = !a | !b
    if f[0] == "or":
        return f_and([f_not(x) for x in f[1]])
    if f[0] == "and":
        return f_or([f_not(x) for x in f[1]])
    return ("not", f)


def f_and(fs):
    out = []
    for f in fs:
        if f == TRUE:
            continue
        if f == FALSE:
            return FALSE
        if f[0] == "and":
            out.extend(f[1])
        else:
            out.append(f)
    if not out:
        return TRUE
    if len(out) == 1:
        return out[0]
    return ("and", tuple(out))


def f_or(fs):
    out = []
    for f in fs:
        if f == FALSE:
            continue
        if f == TRUE:
            return TRUE
        if f[0] == "or":
            out.extend(f[1])
        else:
            out.append(f)
    if not out:
        return FALSE
    if len(out) == 1:
        return out[0]
    return ("or", tuple(out))


def _name(t):
    return t.a[0][0] if t.op in ("call", "mutcall") else None


# boolean crate functions kept as atoms: their meaning is decided by a rule of its own (spec.check_same_scheme_semantics)
SEMANTIC_ATOMS = {"same_scheme"}


def apply_closure(prog, clo, args):
    """Return value of a closure value `clo` (aggregate of its captures) applied to argument terms: the body's return
    term with the environment parameter replaced by the captures and the other parameters by `args` (a missing
    argument stays a parameter of the closure).  None when `clo` is not a closure of this crate."""
    from .sym import evaluate
    from .terms import subst, mk_ref

    c = clo
    while c.op in ("ref", "deref"):
        c = c.a[0]
    if not (c.op == "agg" and c.a[0][0] == "closure") or prog is None:
        return None
    g = prog.fns.get(c.a[0][1])
    if g is None:
        return None
    gev = evaluate(g)
    env = mk_ref(c) if str(g.locals[1].get("ty", "")).startswith("&") else c
    mapping = {T("param", 1, gev.pname(1)): env}
    for i, a in enumerate(args):
        if a is not None and i + 2 <= g.arg_count:
            mapping[T("param", i + 2, gev.pname(i + 2))] = a
    return strip_sites(subst(gev.ret, mapping))


# preconditions in force (see `given`): callbacks (atom, polarity) -> "this literal cannot hold"
_REFUTED = []
_TOK = 0


class given:
    """`with given(refuted): ...` - while deciding guards, alternatives of a disjunction that contain a literal the
    rule's precondition refutes (e.g. "the list is empty" for a rule about non-empty lists) are dropped."""

    def __init__(self, refuted):
        self.refuted = refuted

    def __enter__(self):
        global _TOK
        _TOK += 1
        try:
            self.refuted._tok = _TOK
        except Exception:
            pass
        _REFUTED.append(self.refuted)
        return self

    def __exit__(self, *a):
        _REFUTED.pop()
        return False


def _ctoption_flag(x, prog, depth):
    """is_some of a CtOption-valued term, by subtle's algebra: new(v, f) -> f; and_then(x, g) -> is_some(x) & is_some(g(..));
    map(x, g) -> is_some(x); or_else(x, g) -> is_some(x) | is_some(g()).  None when the term is opaque."""
    if depth <= 0 or x.op != "call":
        return None
    n = _name(x)
    a = x.a[1]
    if n == "CtOption::<T>::new" and len(a) == 2:
        return _formula(a[1], prog, depth)
    if n in ("CtOption::<T>::map",) and len(a) == 2:
        inner = _ctoption_flag(_unref(a[0]), prog, depth - 1)
        return inner if inner is not None else ("atom", "is_some", _unref(a[0]))
    if n in ("CtOption::<T>::and_then", "CtOption::<T>::or_else") and len(a) == 2:
        left = _ctoption_flag(_unref(a[0]), prog, depth - 1)
        left = left if left is not None else ("atom", "is_some", _unref(a[0]))
        body = apply_closure(prog, a[1], [T("call", ("CtOption::<T>::unwrap", ()), (_unref(a[0]),))] if n.endswith("and_then") else [])
        if body is None:
            return None
        from .terms import subst as _subst

        body = _unref(_subst(body, {}))
        right = _ctoption_flag(body, prog, depth - 1)
        right = right if right is not None else ("atom", "is_some", body)
        return f_and([left, right]) if n.endswith("and_then") else f_or([left, right])
    return None


def formula(t, prog=None, depth=3):
    """Boolean reading of a term of type bool / Choice / u8-of-Choice."""
    t = strip_sites(t)
    return _formula(t, prog, depth)


def _formula(t, prog, depth):
    op = t.op
    if op == "const" and t.a[0] == "int":
        return TRUE if t.a[1] != 0 else FALSE
    if op == "ref":
        return _formula(t.a[0], prog, depth)
    if op == "deref":
        return _formula(t.a[0], prog, depth)
    if op == "call":
        n = _name(t)
        args = t.a[1]
        if n in _NOT_CALLS and len(args) == 1:
            return f_not(_formula(args[0], prog, depth))
        if n in _AND_CALLS and len(args) == 2:
            return f_and([_formula(args[0], prog, depth), _formula(args[1], prog, depth)])
        if n in _OR_CALLS and len(args) == 2:
            return f_or([_formula(args[0], prog, depth), _formula(args[1], prog, depth)])
        if n in _ID_CALLS and len(args) == 1:
            return _formula(args[0], prog, depth)
        if n in ("Iterator::any", "Iterator::all") and len(args) == 2 and depth > 0:
            # `[a, b, c].iter().any(|p| test(p))` over a written-out array: the disjunction (`all`: conjunction) of the tests
            src = args[0]
            while src.op in ("ref", "deref") or (src.op == "call" and _name(src) in ("IntoIterator::into_iter", "slice::<impl [T]>::iter", "Iterator::copied", "Iterator::cloned") and len(src.a[1]) == 1):
                src = src.a[0] if src.op in ("ref", "deref") else src.a[1][0]
            if src.op == "agg" and src.a[0][0] == "array" and 0 < len(src.a[1]) <= 16:
                from .terms import mk_ref

                parts = []
                for e in src.a[1]:
                    body = apply_closure(prog, args[1], [mk_ref(e)])
                    if body is None:
                        parts = None
                        break
                    from .terms import subst as _subst

                    parts.append(_formula(_subst(body, {}), prog, depth - 1))
                if parts is not None:
                    return f_or(parts) if n.endswith("any") else f_and(parts)
        if n == "Iterator::fold" and len(args) == 3 and depth > 0:
            # `[f1, f2].into_iter().fold(f0, |acc, f| acc & f)`: the conjunction (`|`: the disjunction) of the flags
            src = args[0]
            while src.op in ("ref", "deref") or (src.op == "call" and _name(src) in ("IntoIterator::into_iter", "slice::<impl [T]>::iter", "Iterator::copied", "Iterator::cloned") and len(src.a[1]) == 1):
                src = src.a[0] if src.op in ("ref", "deref") else src.a[1][0]
            body = apply_closure(prog, args[2], [])
            if src.op == "agg" and src.a[0][0] == "array" and body is not None and body.op == "call" and _name(body) in ("BitAnd::bitand", "BitOr::bitor") and len(body.a[1]) == 2:
                ps = []
                for x in body.a[1]:
                    while x.op in ("ref", "deref"):
                        x = x.a[0]
                    ps.append(x.a[0] if x.op == "param" else None)
                if sorted(p_ for p_ in ps if p_ is not None) == [2, 3]:
                    parts = [_formula(args[1], prog, depth - 1)] + [_formula(x, prog, depth - 1) for x in src.a[1]]
                    return f_and(parts) if _name(body) == "BitAnd::bitand" else f_or(parts)
        if n in ("Option::<T>::is_some_and", "Option::<T>::is_none_or") and len(args) == 2 and depth > 0:
            body = apply_closure(prog, args[1], [T("field", T("downcast", _unref(args[0]), "Some"), "0")])
            if body is not None:
                from .terms import subst as _subst

                body = _subst(body, {})  # rebuild through the simplifying constructors (tuple patterns of the payload)
                some = ("atom", "is_some", _unref(args[0]))
                if n.endswith("is_some_and"):
                    return f_and([some, _formula(body, prog, depth - 1)])
                return f_or([f_not(some), _formula(body, prog, depth - 1)])
        if n == "PartialEq::eq" and len(args) == 2:
            return ("atom", "eq", _unref(args[0]), _unref(args[1]))
        if n == "PartialEq::ne" and len(args) == 2:
            return f_not(("atom", "eq", _unref(args[0]), _unref(args[1])))
        if n == "ConstantTimeEq::ct_eq" and len(args) == 2:
            return ("atom", "eq", _unref(args[0]), _unref(args[1]))
        if n in ("Group::is_identity",) and len(args) == 1:
            return ("atom", "is_identity", _unref(args[0]))
        # (vsss-rs 4's `Share::is_zero` on `[u8; L]` / GenericArray / Vec<u8> is `ct_is_zero()` over the WHOLE buffer,
        # identifier byte included - read in share.rs - so a `use vsss_rs::Share` that makes `bytes.is_zero()` resolve to it
        # does not change which strings count as zero)
        if n in ("Field::is_zero", "IsZero::is_zero", "Share::is_zero") and len(args) == 1:
            return ("atom", "is_zero", _unref(args[0]))
        if n in ("CtOption::<T>::is_some", "Option::<T>::is_some", "Result::<T, E>::is_ok") and len(args) == 1:
            cf = _ctoption_flag(_unref(args[0]), prog, depth) if n.startswith("CtOption") else None
            return cf if cf is not None else ("atom", "is_some", _unref(args[0]))
        if n in ("CtOption::<T>::is_none", "Option::<T>::is_none", "Result::<T, E>::is_err") and len(args) == 1:
            cf = _ctoption_flag(_unref(args[0]), prog, depth) if n.startswith("CtOption") else None
            return f_not(cf if cf is not None else ("atom", "is_some", _unref(args[0])))
        # local boolean helper: inline its returned formula
        if prog is not None and depth > 0 and n in prog.fns and n.split("::")[-1] not in SEMANTIC_ATOMS:
            from .sym import evaluate
            from .terms import subst

            f = prog.fns[n]
            ev = evaluate(f)
            mapping = {}
            for i in range(1, f.arg_count + 1):
                if i - 1 < len(args):
                    mapping[T("param", i, ev.pname(i))] = args[i - 1]
            body = strip_sites(subst(ev.ret, mapping))
            if body.op != "phi":
                return _formula(body, prog, depth - 1)
        return ("atom", "term", t)
    if op == "un" and t.a[0] == "Not":
        return f_not(_formula(t.a[1], prog, depth))
    if op == "bin":
        b, x, y = t.a
        if b in ("BitAnd",):
            return f_and([_formula(x, prog, depth), _formula(y, prog, depth)])
        if b in ("BitOr",):
            return f_or([_formula(x, prog, depth), _formula(y, prog, depth)])
        if b in _NEG_CMP:
            # `unwrap_u8(c) == 0` and friends
            for u, v in ((x, y), (y, x)):
                if v.op == "const" and v.a[0] == "int" and _is_choice_u8(u):
                    inner = _formula(u, prog, depth)
                    if b == "Eq":
                        return f_not(inner) if v.a[1] == 0 else inner
                    if b == "Ne":
                        return inner if v.a[1] == 0 else f_not(inner)
            return ("atom", "cmp", b, x, y)
    if op == "cast":
        return _formula(t.a[1], prog, depth)
    return ("atom", "term", t)


def _is_choice_u8(t):
    return t.op == "call" and _name(t) in ("Choice::unwrap_u8")


def _unref(t):
    while t.op in ("ref",):
        t = t.a[0]
    return t


def literals(f, pol=True):
    """Set of (atom, polarity) that must hold when f evaluates to `pol`."""
    out = set()
    if f == TRUE or f == FALSE:
        return out
    k = f[0]
    if k == "atom":
        out.add((f, pol))
    elif k == "not":
        out |= literals(f[1], not pol)
    elif k == "and" and pol:
        for g in f[1]:
            out |= literals(g, True)
    elif k == "or" and not pol:
        for g in f[1]:
            out |= literals(g, False)
    elif k in ("and", "or") and _REFUTED:
        # a disjunction: what every alternative that the precondition leaves possible implies
        alts = [literals(g, pol) for g in f[1]]
        alts = [a for a in alts if not any(r(atom, p) for r in _REFUTED for atom, p in a)]
        if alts:
            out |= set.intersection(*alts)
    return out


def conjuncts(f):
    if f[0] == "and":
        return list(f[1])
    if f == TRUE:
        return []
    return [f]


def show_f(f, d=6):
    k = f[0]
    if k in ("true", "false"):
        return k
    if k == "not":
        return "!" + show_f(f[1], d)
    if k == "and":
        return "(" + " & ".join(show_f(x, d) for x in f[1]) + ")"
    if k == "or":
        return "(" + " | ".join(show_f(x, d) for x in f[1]) + ")"
    if k == "atom":
        if f[1] in ("is_identity", "is_zero", "is_some"):
            return "%s(%s)" % (f[1], show(f[2], d))
        if f[1] == "eq":
            return "(%s == %s)" % (show(f[2], d), show(f[3], d))
        if f[1] == "cmp":
            return "(%s %s %s)" % (show(f[3], d), f[2], show(f[4], d))
        return show(f[2], d)
    return str(f)


# ---------------------------------------------------------------------------
# path conditions


def edge_conditions(ev, b):
    """[(src_bb, val, discr_term, switch_json)] for every switch edge that dominates block b."""
    cfg = ev.fn.cfg
    out = []
    for n in cfg.dom_chain(b):
        if isinstance(n, tuple) and n[0] == "e":
            src, val = n[1], n[2]
            out.append((src, val, ev.switch.get(src), ev.fn.blocks[src]["term"]))
    return out


_PANIC_NAMES = ("assert_failed", "panic", "panic_fmt", "panic_display", "panic_explicit", "unreachable_display", "begin_panic", "panic_nounwind", "assert_failed_inner", "panic_const")


def is_assertion_switch(fn, src):
    """Is `src` the test of an assertion: a switch one of whose successors only leads to a call that never returns
    (`assert!`, `debug_assert!`, `unreachable!`, overflow panics lowered to calls)?  The surviving edge of such a test is
    a fact for the code after it, but it is not a *check the function performs*: debug assertions vanish in release."""
    t = fn.blocks[src]["term"]
    if t["k"] != "switch":
        return False
    succs = [tg for _, tg in t["arms"]] + [t["otherwise"]]
    for sb in succs:
        cur = sb
        for _ in range(4):
            tt = fn.blocks[cur]["term"]
            if tt["k"] == "goto":
                cur = tt["target"]
                continue
            if tt["k"] == "call" and tt.get("target") is None:
                c = tt.get("callee") or {}
                if (c.get("name") in _PANIC_NAMES) or "panicking" in (c.get("path") or ""):
                    return True
            if tt["k"] == "unreachable":
                return False
            break
    return False


def _edge_literals(ev, src, val, prog):
    """Literals that hold on the switch edge (src, val)."""
    d = ev.switch.get(src)
    tj = ev.fn.blocks[src]["term"]
    lits = set()
    if d is None:
        return lits
    if tj.get("ty") == "bool":
        f = formula(d, prog)
        if val == 0:
            lits |= literals(f, False)
        else:
            # `otherwise` of a bool switch with arm 0 => true ; explicit 1 => true
            lits |= literals(f, True)
    else:
        ds = strip_sites(d)
        # `cond.then_some(()).ok_or(e)?`: on the Continue edge of Try::branch the combinator chain succeeded
        if ds.op == "discr" and ds.a[0].op == "call" and _name(ds.a[0]) == "Try::branch" and ds.a[0].a[1] and val == 0:
            alts = success_alternatives(ds.a[0].a[1][0], prog)
            if len(alts) == 1:
                lits |= alts[0]
        # `cond.then_some(v)` / `cond.then(f)`: Some exactly when cond holds
        if ds.op == "discr":
            inner = ds.a[0]
            while inner.op in ("ref", "deref"):
                inner = inner.a[0]
            if inner.op == "call" and _name(inner) in ("bool::<impl bool>::then_some", "bool::<impl bool>::then", "core::bool::<impl bool>::then_some", "core::bool::<impl bool>::then") and inner.a[1]:
                arms_ = tuple(v for v, _ in tj["arms"])
                is_some = (val == 1) if val != "otherwise" else (arms_ == (0,))
                is_none = (val == 0) if val != "otherwise" else (arms_ == (1,))
                if is_some or is_none:
                    lits |= literals(formula(inner.a[1][0], prog), bool(is_some))
        if val == "otherwise":
            arms = tuple(v for v, _ in tj["arms"])
            lits.add((("atom", "switch_not", ds, arms), True))
        else:
            lits.add((("atom", "switch", ds, val), True))
    return lits


def _must_literals(ev, prog, checks_only):
    """Forward must-analysis: L(b) = the literals that hold on EVERY way of reaching block b (back edges ignored: the
    literals are about immutable values, a second pass through a loop header can only add to them).  At a merge this is
    the intersection over the incoming edges - which keeps a guard that every incoming path established separately
    (`if let Some(..) = x { if bad { return Err } }` merges the None path and the checked path) - minus the edges that
    cannot be taken: folded constants, and paths whose literals a precondition in force (`given`) refutes."""
    fn = ev.fn
    cfg = fn.cfg
    order = [n for n in cfg.rpo() if not isinstance(n, tuple)]
    idx = {n: i for i, n in enumerate(order)}
    dead = getattr(ev, "dead", set())
    L = {}
    incoming = {}
    for n in order:
        for tgt, lab in cfg.succ[n]:
            incoming.setdefault(tgt, []).append((n, lab))
    for n in order:
        if n == order[0]:
            L[n] = frozenset()
            continue
        acc = None
        for p_, lab in incoming.get(n, []):
            if p_ not in L or L[p_] is None or idx.get(p_, 1 << 30) >= idx[n]:
                continue  # back edge, unreachable, or infeasible under the precondition
            if (p_, n, lab) in dead:
                continue
            lits = set(L[p_])
            if lab is not None and not (checks_only and is_assertion_switch(fn, p_)):
                lits |= _edge_literals(ev, p_, lab[2], prog)
            if _REFUTED and any(r(atom, pol) for r in _REFUTED for atom, pol in lits):
                continue
            acc = lits if acc is None else (acc & lits)
        L[n] = frozenset(acc) if acc is not None else None
    return L


def path_literals(ev, b, prog=None, checks_only=False):
    """Literals (atom, polarity) that hold whenever block b is reached (see _must_literals).
    Bool switches contribute formula literals; integer/discriminant switches contribute
    ("atom","switch", discr_term, value) literals.  With checks_only the surviving edges of assertions are left out
    (an assertion is not a guard: `debug_assert!` does not exist in release builds)."""
    cache = ev.__dict__.setdefault("_must_cache", {})
    key = (id(prog), bool(checks_only), tuple(getattr(r, "_tok", id(r)) for r in _REFUTED))
    if key not in cache:
        cache[key] = _must_literals(ev, prog, checks_only)
    return set(cache[key].get(b) or frozenset())


def variant_of_switch(prog, fn, src_bb, val):
    """For a switch on `discriminant(place)`, name of the variant selected by `val`."""
    blk = fn.blocks[src_bb]
    t = blk["term"]
    d = t["discr"]
    pl = d.get("move") or d.get("copy")
    if not pl:
        return None
    for s in blk["stmts"]:
        if s["k"] == "assign" and s["place"] == {"l": pl["l"]} and "discr" in s["rv"]:
            adt = s["rv"].get("adt")
            path = s["rv"].get("adt_path")
            a = prog.adts_by_path.get(path) or prog.adts.get(adt)
            if a is None:
                return (adt, val)
            if val == "otherwise":
                arms = {v for v, _ in t["arms"]}
                rest = [v["name"] for v in a["variants"] if v.get("discr", v["index"]) not in arms]
                return (adt, tuple(rest))
            for v in a["variants"]:
                if v.get("discr", v["index"]) == val:
                    return (adt, v["name"])
            return (adt, val)
    return _variant_of_eq_switch(prog, fn, src_bb, val)


def _variant_of_eq_switch(prog, fn, src_bb, val):
    """`if x == Enum::V` on a field-less crate enum whose `==` is the derived comparison of discriminants: the true edge
    selects V, the false edge every other variant."""
    from .sym import evaluate

    t = fn.blocks[src_bb]["term"]
    if t.get("ty") != "bool":
        return None
    try:
        ev = evaluate(fn)
    except Exception:
        return None
    d = ev.switch.get(src_bb)
    if d is None:
        return None
    neg = False
    while d.op in ("ref", "deref") or (d.op == "un" and d.a[0] == "Not"):
        if d.op == "un":
            neg = not neg
            d = d.a[1]
        else:
            d = d.a[0]
    if not (d.op == "call" and isinstance(d.a[0], tuple) and d.a[0][0] in ("PartialEq::eq", "PartialEq::ne") and len(d.a[1]) == 2):
        return None
    if d.a[0][0] == "PartialEq::ne":
        neg = not neg
    for x, y in ((d.a[1][0], d.a[1][1]), (d.a[1][1], d.a[1][0])):
        uv = ev._unit_variant(y)
        if uv is None or ev._unit_variant(x) is not None:
            continue
        adt, name = uv
        if not ev._derived_discr_eq(adt):
            return None
        truth = not (val == 0 or val is False)
        if truth != neg:
            return (adt, name)
        return (adt, tuple(v["name"] for v in prog.adts[adt]["variants"] if v["name"] != name))
    return None


_PASS_SUCCESS = ("Result::<T, E>::map", "Result::<T, E>::map_err", "Option::<T>::map", "Option::<T>::ok_or", "Option::<T>::ok_or_else", "Result::<T, E>::ok", "Result::<T, E>::or_else", "Into::into", "From::from", "Option::<T>::filter", "Result::<T, E>::and_then", "Option::<T>::and_then", "Option::<T>::then")


def success_alternatives(t, P=None, depth=4):
    """When can this Result/Option-valued term be Ok/Some?  A list of literal sets (one per way), [] if never,
    [set()] if nothing is known.  Combinators are read by their std contract: `c.then_some(v)` is Some iff c,
    `x.ok_or(e)` / `x.map(f)` / `x.map_err(f)` succeed iff x does, `and_then` / `filter` only if x does."""
    if depth <= 0:
        return [set()]
    while t.op in ("ref", "deref"):
        t = t.a[0]
    if t.op == "agg" and t.a[0][0] == "adt" and t.a[0][1] in ("Result", "Option"):
        return [set()] if t.a[0][2] in ("Ok", "Some") else []
    if t.op == "phi":
        out = []
        for x in t.a[0]:
            out += success_alternatives(x, P, depth - 1)
        return out
    if t.op == "call":
        n = _name(t)
        if (n.startswith("bool::") and n.split("::")[-1] in ("then_some", "then")) and t.a[1]:
            f = formula(t.a[1][0], P)
            if f == FALSE:
                return []
            return [set(literals(f, True))]
        if n in _PASS_SUCCESS and t.a[1]:
            return success_alternatives(t.a[1][0], P, depth - 1)
    return [set()]
