"""Program model over the JSON facts: functions, CFG, dominators, call sites."""
import re
from collections import defaultdict


class Fn:
    def __init__(self, prog, j):
        self.prog = prog
        self.j = j
        self.key = j["key"]
        self.path = j["path"]
        self.name = j["name"]
        self.span = j["span"]
        self.blocks = j["blocks"]
        self.locals = j["locals"]
        self.arg_count = j["arg_count"]
        self.from_expansion = j.get("from_expansion", False)
        self.kind = j["kind"]
        self.trait_default_of = j.get("trait_default_of")
        self.impl_self = j.get("impl_self")
        self.impl_self_adt = j.get("impl_self_adt")
        self.impl_trait = j.get("impl_trait")
        self.impl_trait_ref = j.get("impl_trait_ref")
        self.vis = j.get("vis")
        self._cfg = None

    def __repr__(self):
        return "<Fn %s>" % self.key

    # ---- CFG -------------------------------------------------------------
    @property
    def cfg(self):
        if self._cfg is None:
            self._cfg = CFG(self)
        return self._cfg

    def calls(self):
        """Yield (bb, term) for every call terminator in non-cleanup, reachable blocks."""
        reach = self.cfg.reachable
        for i, b in enumerate(self.blocks):
            if i not in reach:
                continue
            t = b["term"]
            if t["k"] in ("call", "tailcall"):
                yield i, t

    def local_name(self, l):
        d = self.locals[l]
        return d.get("name") or "_%d" % l

    def param_index(self, l):
        return l if 1 <= l <= self.arg_count else None


def const_bool(op):
    """Constant boolean value of an operand, or None."""
    c = op.get("const") if isinstance(op, dict) else None
    if c is None:
        return None
    if "bool" in c:
        return c["bool"]
    if "int" in c and c.get("ty") == "bool":
        return bool(c["int"])
    ev = c.get("eval")
    if ev and "bool" in ev:
        return ev["bool"]
    return None


def const_int(op):
    c = op.get("const") if isinstance(op, dict) else None
    if c is None:
        return None
    if "sint" in c:
        return c["sint"]
    if "int" in c:
        return c["int"]
    ev = c.get("eval")
    if ev:
        if "sint" in ev:
            return ev["sint"]
        if "int" in ev:
            return ev["int"]
    return None


class CFG:
    """Normal-control-flow graph of a function (unwind/cleanup edges excluded), with
    constant-condition pruning, dominators over a graph that has one virtual node
    per switch edge (so edge dominance is node dominance)."""

    def __init__(self, fn):
        self.fn = fn
        blocks = fn.blocks
        n = len(blocks)
        self.n = n
        # successors as list of (target, edge_label) where edge_label identifies a switch arm
        self.succ = [[] for _ in range(n)]
        # track simple constant locals within a block for `switch(move _x)` where _x = const
        for i, b in enumerate(blocks):
            if b.get("cleanup"):
                continue
            t = b["term"]
            k = t["k"]
            if k == "goto":
                self.succ[i].append((t["target"], None))
            elif k == "switch":
                cv = self._const_discr(i, t)
                arms = t["arms"]
                if cv is not None:
                    tgt = t["otherwise"]
                    lab = ("sw", i, "otherwise")
                    for v, tg in arms:
                        if v == cv:
                            tgt = tg
                            lab = ("sw", i, v)
                    self.succ[i].append((tgt, lab))
                else:
                    for v, tg in arms:
                        self.succ[i].append((tg, ("sw", i, v)))
                    self.succ[i].append((t["otherwise"], ("sw", i, "otherwise")))
            elif k in ("call",):
                if t.get("target") is not None:
                    self.succ[i].append((t["target"], None))
            elif k in ("drop", "assert"):
                self.succ[i].append((t["target"], None))
            elif k in ("return", "unreachable", "resume", "terminate", "tailcall"):
                pass
            elif k == "other":
                pass
        # prune edges into `unreachable` blocks
        unreachable_blocks = {i for i, b in enumerate(blocks) if b["term"]["k"] == "unreachable" and not b["stmts"]}
        for i in range(n):
            self.succ[i] = [(t, l) for (t, l) in self.succ[i] if t not in unreachable_blocks]
        # reachability
        self.reachable = set()
        st = [0]
        while st:
            x = st.pop()
            if x in self.reachable:
                continue
            self.reachable.add(x)
            for t, _ in self.succ[x]:
                st.append(t)
        self.pred = defaultdict(list)
        for i in self.reachable:
            for t, l in self.succ[i]:
                self.pred[t].append((i, l))
        self._dom = None
        self._rpo = None

    def _const_discr(self, i, t):
        d = t["discr"]
        cb = const_bool(d)
        if cb is not None:
            return 1 if cb else 0
        ci = const_int(d)
        if ci is not None:
            return ci
        # `_x = const true; switchInt(move _x)` inside the same block
        pl = d.get("move") or d.get("copy")
        if pl and "p" not in pl:
            val = None
            for s in self.fn.blocks[i]["stmts"]:
                if s["k"] == "assign" and s["place"] == {"l": pl["l"]}:
                    rv = s["rv"]
                    if "use" in rv:
                        cb = const_bool(rv["use"])
                        ci = const_int(rv["use"])
                        val = (1 if cb else 0) if cb is not None else ci
                    else:
                        val = None
            return val
        return None

    # ---- extended graph: nodes are ints (blocks) and ('e', src, idx) for labelled edges
    def _ext(self):
        succ = defaultdict(list)
        for i in self.reachable:
            for idx, (t, l) in enumerate(self.succ[i]):
                if l is not None:
                    e = ("e",) + l[1:]
                    succ[i].append(e)
                    succ[e].append(t)
                else:
                    succ[i].append(t)
        return succ

    def rpo(self):
        if self._rpo is None:
            succ = self._ext()
            seen = set()
            order = []
            # iterative DFS postorder
            stack = [(0, iter(succ[0]))]
            seen.add(0)
            while stack:
                node, it = stack[-1]
                adv = False
                for s in it:
                    if s not in seen:
                        seen.add(s)
                        stack.append((s, iter(succ[s])))
                        adv = True
                        break
                if not adv:
                    order.append(node)
                    stack.pop()
            order.reverse()
            self._rpo = order
            self._esucc = succ
        return self._rpo

    def dominators(self):
        """idom over the extended graph (Cooper-Harvey-Kennedy)."""
        if self._dom is not None:
            return self._dom
        order = self.rpo()
        idx = {n: i for i, n in enumerate(order)}
        preds = defaultdict(list)
        for a in order:
            for b in self._esucc[a]:
                preds[b].append(a)
        idom = {order[0]: order[0]}
        changed = True
        while changed:
            changed = False
            for b in order[1:]:
                new = None
                for p in preds[b]:
                    if p in idom:
                        if new is None:
                            new = p
                        else:
                            a, c = p, new
                            while a != c:
                                while idx[a] > idx[c]:
                                    a = idom[a]
                                while idx[c] > idx[a]:
                                    c = idom[c]
                            new = a
                if new is not None and idom.get(b) != new:
                    idom[b] = new
                    changed = True
        self._dom = idom
        self._idx = idx
        return idom

    def dominates(self, a, b):
        """Does node a dominate node b (nodes: block ids or edge nodes)?"""
        idom = self.dominators()
        if b not in idom or a not in idom:
            return False
        x = b
        while True:
            if x == a:
                return True
            p = idom[x]
            if p == x:
                return False
            x = p

    def edge_node(self, src, val):
        return ("e", src, val)

    def dom_chain(self, b):
        """All dominators of b from b up to entry."""
        idom = self.dominators()
        out = []
        if b not in idom:
            return out
        x = b
        while True:
            out.append(x)
            p = idom[x]
            if p == x:
                break
            x = p
        return out

    def back_edges(self):
        """(src, header) pairs where header dominates src (block-level)."""
        out = []
        for i in self.reachable:
            for t, _ in self.succ[i]:
                if self.dominates(t, i):
                    out.append((i, t))
        return out

    def natural_loop(self, src, header):
        body = {header}
        st = [src]
        while st:
            x = st.pop()
            if x in body:
                continue
            body.add(x)
            for p, _ in self.pred[x]:
                st.append(p)
        return body

    def reach_from(self, start, avoid=()):
        """Blocks reachable from `start` (block id) without passing through `avoid` blocks."""
        seen = set()
        st = [start]
        avoid = set(avoid)
        while st:
            x = st.pop()
            if x in seen or x in avoid:
                continue
            seen.add(x)
            for t, _ in self.succ[x]:
                st.append(t)
        return seen

    def return_blocks(self):
        return [i for i in self.reachable if self.fn.blocks[i]["term"]["k"] == "return"]


class Program:
    def __init__(self, facts):
        self.facts = facts
        self.meta = facts["meta"]
        self.fns = {}
        from .mirinline import inline_helpers

        fns_json, self.inlined_helpers = inline_helpers(facts["fns"])
        self.helpers = {}
        from .mirinline import is_private_helper

        def _called(js):
            out = set()
            for j in js:
                for b in j["blocks"]:
                    t = b["term"]
                    if t["k"] in ("call", "tailcall"):
                        c = t.get("callee") or {}
                        if c.get("key"):
                            out.add(c["key"])
                        if (c.get("resolved") or {}).get("key"):
                            out.add(c["resolved"]["key"])
            return out

        before, after = _called(facts["fns"]), _called(fns_json)
        # closures whose bodies were spliced into their parents by the combinator desugaring and that are no longer built
        # as closure values anywhere: analysed in place, like spliced helpers
        absorbed = set()
        for j in fns_json:
            absorbed |= set(j.get("desugared", []))
        if absorbed:
            still = set()
            for j in fns_json:
                for b in j["blocks"]:
                    for st_ in b["stmts"]:
                        if st_["k"] == "assign" and isinstance(st_["rv"].get("agg"), dict) and st_["rv"]["agg"].get("closure"):
                            still.add(st_["rv"]["agg"].get("key"))
            absorbed -= still
        self.absorbed_closures = absorbed
        for j in fns_json:
            f = Fn(self, j)
            if f.key in absorbed:
                self.helpers[f.key] = f
                continue
            if is_private_helper(j) and f.key in before and f.key not in after:
                # every call of this helper was spliced into its callers: it is analysed there, in context.
                # (A new function nobody calls - new public API - stays in the table and is analysed on its own.)
                self.helpers[f.key] = f
                continue
            self.fns[f.key] = f
        self.adts = {a["name"]: a for a in facts["adts"] if not a.get("from_expansion") or True}
        self.adts_by_path = {a["path"]: a for a in facts["adts"]}
        self.impls = facts["impls"]
        self.traits = {t["name"]: t for t in facts["traits"]}
        self.consts = facts["consts"]
        self.statics = facts["statics"]
        self.walk = facts.get("walk", {})
        self._callers = None

    def fn(self, key):
        return self.fns.get(key)

    def reaches_call(self, key, names, depth=2, _seen=None):
        """Does the crate function `key` contain (within `depth` crate-local calls) a call whose callee name / key is in names?"""
        f = self.fns.get(key) or self.helpers.get(key)
        if f is None:
            return False
        seen = _seen if _seen is not None else set()
        if key in seen:
            return False
        seen.add(key)
        for _, t in f.calls():
            c = t.get("callee") or {}
            ks = {c.get("key"), c.get("path"), (c.get("resolved") or {}).get("key")}
            nm = c.get("name")
            tr = c.get("trait")
            ks.add("%s::%s" % (tr, nm) if tr else nm)
            if ks & set(names):
                return True
            for k2 in (c.get("key"), (c.get("resolved") or {}).get("key")):
                if depth > 0 and k2 and self.reaches_call(k2, names, depth - 1, seen):
                    return True
        return False

    def view_towards(self, fn, names, depth=2):
        """`fn` with the crate's own wrappers looked through until a call to one of `names` (e.g. "BlsSignCrypt::valid")
        is visible in its own body: calls to crate functions that reach such a call are spliced in.  The function
        table is unchanged; the view is cached per (function, names)."""
        from .mirinline import splice_calls

        ck = (fn.key, tuple(sorted(names)), depth)
        cache = self.__dict__.setdefault("_views", {})
        if ck in cache:
            return cache[ck]
        by_key = {k: f.j for k, f in list(self.fns.items()) + list(self.helpers.items())}
        want = {k: j for k, j in by_key.items() if k != fn.key and k not in names and not j.get("from_expansion") and self.reaches_call(k, names, depth - 1)}
        nj = splice_calls(fn.j, by_key, want, depth)
        v = fn if nj is fn.j else Fn(self, nj)
        cache[ck] = v
        return v

    def find(self, pattern):
        rx = re.compile(pattern)
        return [f for k, f in sorted(self.fns.items()) if rx.search(k)]

    def user_fns(self):
        """Hand-written (non macro-generated) functions and their closures."""
        return [f for f in self.fns.values() if not f.from_expansion]

    def callers(self):
        """callee key -> list of (caller Fn, bb, term) for local callees (incl. trait methods by name)."""
        if self._callers is None:
            m = defaultdict(list)
            for f in self.fns.values():
                for bb, t in f.calls():
                    c = t.get("callee")
                    if not c:
                        continue
                    k = c.get("key")
                    if k:
                        m[k].append((f, bb, t))
                    r = c.get("resolved")
                    if r and r.get("key") and r["key"] != k:
                        m[r["key"]].append((f, bb, t))
            self._callers = m
        return self._callers

    def impl_assoc_consts(self):
        """[(self_ty, trait, name, value_json)] for every impl-associated constant."""
        out = []
        for im in self.impls:
            for c in im.get("consts", []):
                out.append((im["self"], im.get("trait"), c["name"], c.get("value")))
        return out

    def scheme_adts(self):
        want = {"Basic", "MessageAugmentation", "ProofOfPossession"}
        return sorted(a["name"] for a in self.facts["adts"] if a["kind"] == "enum" and {v["name"] for v in a["variants"]} == want)


def callee_name(t):
    """Short display name of a call terminator's callee: Trait::method or path."""
    c = t.get("callee")
    if not c:
        return "<indirect>"
    if c.get("key"):
        return c["key"]
    if c.get("trait"):
        return "%s::%s" % (c["trait"], c["name"])
    return c["path"]


def callee_is(t, *names):
    """Match the callee against names of the form 'Trait::method', a local key, a full
    path, or a path suffix ('::from_entropy')."""
    c = t.get("callee")
    if not c:
        return False
    cands = {c["path"], c.get("key"), callee_name(t)}
    if c.get("trait"):
        cands.add("%s::%s" % (c["trait"], c["name"]))
    if c.get("impl_self"):
        cands.add("%s::%s" % (c["impl_self"], c["name"]))
    r = c.get("resolved")
    if r:
        cands.add(r["path"])
        if r.get("key"):
            cands.add(r["key"])
    for n in names:
        if n in cands:
            return True
        if n.startswith("::") and any(x and x.endswith(n) for x in cands):
            return True
    return False
