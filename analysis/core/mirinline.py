"""MIR-level inlining of private helper functions (on the JSON facts).

A function whose visibility is restricted (a private / pub(crate) `fn`: on the pinned tree there is none) is a
helper some refactoring extracted.  Before any rule looks at the program, calls to such helpers are replaced by
the helper's body: locals and blocks are renumbered and appended to the caller, arguments are assigned to the
helper's parameter locals, `return` becomes `dest = _0'; goto target`.  Every rule then sees the same control
flow, guards and call sites as before the extraction - "the check is in a helper now" is not a different program.
Bounded: depth 3, helpers up to 400 blocks, no recursion."""
import copy

MAX_DEPTH = 3
MAX_BLOCKS = 400


_PINNED = None
_PINNED_TRAITS = None


def _pinned():
    global _PINNED, _PINNED_TRAITS
    if _PINNED is None:
        import json
        import os

        p = os.path.join(os.path.dirname(os.path.dirname(os.path.abspath(__file__))), "spec", "pinned_fns.json")
        try:
            with open(p) as fh:
                d = json.load(fh)
            _PINNED = set(d["fns"])
            _PINNED_TRAITS = set(d.get("traits", []))
        except Exception:
            _PINNED = set()
            _PINNED_TRAITS = set()
    return _PINNED


def is_private_helper(j):
    """A helper a refactoring introduced: a private / pub(crate) fn, or any hand-written fn (free, inherent or
    trait-provided) that the pinned tree does not have."""
    if j.get("kind") not in ("Fn", "AssocFn"):
        return False
    v = j.get("vis")
    if bool(v) and str(v).startswith("Restricted"):
        return True
    pinned = _pinned()
    if j.get("from_expansion"):
        return False  # derive output
    if j.get("impl_trait"):
        # impl item of a crate-local trait the pinned tree does not have (a private extension trait): a helper
        return bool(pinned) and bool(_PINNED_TRAITS) and j.get("impl_trait_crate") == "blsful" and j["impl_trait"] not in _PINNED_TRAITS and j["key"] not in pinned
    return bool(pinned) and j["key"] not in pinned


def _remap(x, lo, bo, po=0):
    """Deep copy of a MIR JSON fragment with locals shifted by lo, block ids by bo and promoted-constant indexes by po."""
    if isinstance(x, dict):
        out = {}
        for k, v in x.items():
            if k == "const" and isinstance(v, dict) and isinstance(v.get("promoted"), int) and po:
                out[k] = dict(v, promoted=v["promoted"] + po)
                continue
            if k == "l" and isinstance(v, int):
                out[k] = v + lo
            elif k == "idx" and isinstance(v, int):
                out[k] = v + lo
            elif k == "target" and isinstance(v, int):
                out[k] = v + bo
            elif k == "otherwise" and isinstance(v, int):
                out[k] = v + bo
            elif k == "arms" and isinstance(v, list):
                out[k] = [[a[0], a[1] + bo] for a in v]
            elif k in ("callee", "const"):
                out[k] = v  # no locals / blocks inside
            else:
                out[k] = _remap(v, lo, bo, po)
        return out
    if isinstance(x, list):
        return [_remap(v, lo, bo, po) for v in x]
    return x


def _target(t, helpers):
    """Key of the helper a call terminator statically resolves to (direct key, or the resolved impl item)."""
    c = t.get("callee") or {}
    if c.get("key") in helpers:
        return c["key"]
    r = c.get("resolved") or {}
    if r.get("key") in helpers:
        return r["key"]
    return None


def _calls_self(j, key):
    for b in j["blocks"]:
        t = b["term"]
        if t["k"] in ("call", "tailcall") and (t.get("callee") or {}).get("key") == key:
            return True
    return False


def inline_helpers(fns_json):
    """fns_json: list of function JSON objects.  Returns a list in which every caller of a private helper has the
    helper's body spliced in (helpers themselves stay in the list, also with their own helper calls inlined)."""
    by_key = {j["key"]: j for j in fns_json}
    helpers = {k: j for k, j in by_key.items() if is_private_helper(j) and len(j["blocks"]) <= MAX_BLOCKS and not _calls_self(j, k)}
    if not helpers:
        return fns_json, {}
    done = {}

    def expand(j, depth, stack):
        key = j["key"]
        if depth == 0 and key in done:
            return done[key]
        blocks = j["blocks"]
        sites = [i for i, b in enumerate(blocks) if b["term"]["k"] == "call" and _target(b["term"], helpers) is not None and _target(b["term"], helpers) not in stack]
        if not sites or depth >= MAX_DEPTH:
            return j
        nj = dict(j)
        nj["locals"] = list(j["locals"])
        nj["blocks"] = [dict(b, stmts=list(b["stmts"])) for b in blocks]
        nj["inlined"] = list(j.get("inlined", []))
        for i in sites:
            t = nj["blocks"][i]["term"]
            hk = _target(t, helpers)
            h = expand(helpers[hk], depth + 1, stack | {hk})
            lo = len(nj["locals"])
            bo = len(nj["blocks"])
            nj["locals"].extend(copy.deepcopy(h["locals"]))
            # the helper's promoted constants travel with its body
            po = len(nj.get("promoted") or [])
            if h.get("promoted"):
                nj["promoted"] = list(nj.get("promoted") or []) + list(h["promoted"])
            # arguments -> the helper's parameter locals
            sp = t.get("sp")
            for ai, a in enumerate(t["args"]):
                if ai + 1 <= h["arg_count"]:
                    nj["blocks"][i]["stmts"].append({"k": "assign", "place": {"l": lo + ai + 1}, "rv": {"use": a}, "sp": sp})
            nj["blocks"][i]["term"] = {"k": "goto", "target": bo, "sp": sp, "inlined_call": hk}
            for hb in h["blocks"]:
                nb = _remap(hb, lo, bo, po if h.get("promoted") else 0)
                if nb["term"]["k"] == "return":
                    nb["stmts"] = list(nb["stmts"]) + [{"k": "assign", "place": t["dest"], "rv": {"use": {"move": {"l": lo}}}, "sp": sp}]
                    if t.get("target") is None:
                        nb["term"] = {"k": "unreachable", "sp": sp}
                    else:
                        nb["term"] = {"k": "goto", "target": t["target"], "sp": sp}
                nj["blocks"].append(nb)
            nj["inlined"].append(hk)
        if depth == 0:
            done[key] = nj
        return nj

    out = []
    report = {}
    for j in fns_json:
        nj = expand(j, 0, frozenset([j["key"]]))
        if nj is not j:
            report[j["key"]] = nj.get("inlined", [])
        out.append(nj)
    return out, report
