"""MIR-level inlining of private helper functions (on the JSON facts).

A function whose visibility is restricted (a private / pub(crate) `fn`: on the pinned tree there is none) is a
helper some refactoring extracted.  Before any rule looks at the program, calls to such helpers are replaced by
the helper's body: locals and blocks are renumbered and appended to the caller, arguments are assigned to the
helper's parameter locals, `return` becomes `dest = _0'; goto target`.  Every rule then sees the same control
flow, guards and call sites as before the extraction - "the check is in a helper now" is not a different program.
Bounded: depth 3, helpers up to 400 blocks, no recursion."""
import copy

MAX_DEPTH = 3
MAX_BLOCKS = 400


_PINNED = None
_PINNED_TRAITS = None
_PINNED_EDGES = None
MAX_EDGE_BLOCKS = 150
import re as _re_

_TAG_CONV = _re_.compile(r"^<(u8|SignatureSchemes|Bls12381) as (From|TryFrom|FromStr|Display)|^(SignatureSchemes|Bls12381)::")
_CODEC_NAME = _re_.compile(r"(^|_)(to|from)_(be|le)_bytes$|^scalar_(to|from)_|^(to|from)_bytes$|^to_vec$")


def _pinned():
    global _PINNED, _PINNED_TRAITS, _PINNED_EDGES
    if _PINNED is None:
        import json
        import os

        p = os.path.join(os.path.dirname(os.path.dirname(os.path.abspath(__file__))), "spec", "pinned_fns.json")
        try:
            with open(p) as fh:
                d = json.load(fh)
            _PINNED = set(d["fns"])
            _PINNED_TRAITS = set(d.get("traits", []))
            _PINNED_EDGES = set(d.get("edges", []))
        except Exception:
            _PINNED = set()
            _PINNED_TRAITS = set()
            _PINNED_EDGES = set()
    return _PINNED


def is_private_helper(j):
    """A helper a refactoring introduced: a private / pub(crate) fn, or any hand-written fn (free, inherent or
    trait-provided) that the pinned tree does not have."""
    if j.get("kind") not in ("Fn", "AssocFn"):
        return False
    v = j.get("vis")
    pinned = _pinned()
    if pinned and j.get("key") in pinned:
        return False  # a function the pinned tree has stays itself, whatever its visibility is narrowed to
    if bool(v) and str(v).startswith("Restricted"):
        return True
    if j.get("from_expansion"):
        return False  # derive output
    if j.get("impl_trait"):
        # impl item of a crate-local trait the pinned tree does not have (a private extension trait): a helper
        return bool(pinned) and bool(_PINNED_TRAITS) and j.get("impl_trait_crate") == "blsful" and j["impl_trait"] not in _PINNED_TRAITS and j["key"] not in pinned
    return bool(pinned) and j["key"] not in pinned


def _remap(x, lo, bo, po=0):
    """Deep copy of a MIR JSON fragment with locals shifted by lo, block ids by bo and promoted-constant indexes by po."""
    if isinstance(x, dict):
        out = {}
        for k, v in x.items():
            if k == "const" and isinstance(v, dict) and isinstance(v.get("promoted"), int) and po:
                out[k] = dict(v, promoted=v["promoted"] + po)
                continue
            if k == "l" and isinstance(v, int):
                out[k] = v + lo
            elif k == "idx" and isinstance(v, int):
                out[k] = v + lo
            elif k == "target" and isinstance(v, int):
                out[k] = v + bo
            elif k == "otherwise" and isinstance(v, int):
                out[k] = v + bo
            elif k == "arms" and isinstance(v, list):
                out[k] = [[a[0], a[1] + bo] for a in v]
            elif k in ("callee", "const"):
                out[k] = v  # no locals / blocks inside
            else:
                out[k] = _remap(v, lo, bo, po)
        return out
    if isinstance(x, list):
        return [_remap(v, lo, bo, po) for v in x]
    return x


def _target(t, helpers):
    """Key of the helper a call terminator statically resolves to (direct key, or the resolved impl item)."""
    c = t.get("callee") or {}
    if c.get("key") in helpers:
        return c["key"]
    r = c.get("resolved") or {}
    if r.get("key") in helpers:
        return r["key"]
    return None


_PINNED_HASHES = None


def body_hash(j):
    """Hash of a function body that ignores source positions (a function is `changed` when this differs from the pinned
    tree's; the extra normalisations - combinator desugaring, jump threading - are only applied to changed functions)."""
    import hashlib
    import json
    import re

    def strip(x):
        if isinstance(x, dict):
            return {k: strip(v) for k, v in x.items() if k not in ("sp", "fn_sp", "span", "hash", "src", "line", "track_caller")}
        if isinstance(x, list):
            return [strip(v) for v in x]
        return x

    txt = json.dumps(strip({"blocks": j["blocks"], "arg_count": j.get("arg_count"), "locals": [l.get("ty") for l in j["locals"]]}), sort_keys=True)
    txt = re.sub(r"\{closure@[^}]*\}", "{closure}", txt)
    txt = re.sub(r"\{closure#\d+\}", "{closure#}", txt)
    return hashlib.sha1(txt.encode()).hexdigest()[:16]


def is_changed(j):
    """Does the body of j differ from every body the pinned tree has under this key (any configuration)?"""
    global _PINNED_HASHES
    if _PINNED_HASHES is None:
        import json
        import os

        p = os.path.join(os.path.dirname(os.path.dirname(os.path.abspath(__file__))), "spec", "pinned_fns.json")
        try:
            with open(p) as fh:
                _PINNED_HASHES = {k: set(v) for k, v in json.load(fh).get("hashes", {}).items()}
        except Exception:
            _PINNED_HASHES = {}
    if not _PINNED_HASHES:
        return False
    hs = _PINNED_HASHES.get(j["key"])
    return hs is None or body_hash(j) not in hs


def _new_edge_target(j, t, by_key):
    """A call from one existing function to another existing function of the crate that the pinned tree does not make
    ("reuse `is_valid()` instead of repeating its body"): the callee's key when it may be spliced, else None.
    Only edges out of functions the pinned tree has are considered - what a new helper calls stays a call."""
    pinned = _pinned()
    if not _PINNED_EDGES or j["key"] not in pinned or j.get("from_expansion"):
        return None
    c = t.get("callee") or {}
    keys = [k for k in (c.get("key"), (c.get("resolved") or {}).get("key")) if k]
    if not keys or any(("%s -> %s" % (j["key"], k)) in _PINNED_EDGES for k in keys):
        return None
    for k in reversed(keys):
        g = by_key.get(k)
        if g is None or k not in pinned or k == j["key"]:
            continue
        if g.get("kind") not in ("Fn", "AssocFn") or g.get("from_expansion") or len(g["blocks"]) > MAX_EDGE_BLOCKS or _calls_self(g, k):
            continue
        if g.get("impl_trait") and g.get("impl_trait_crate") != "blsful":
            # conversions (From / TryFrom / FromStr / Display / serde): the codec rules follow delegation between them
            continue
        if _CODEC_NAME.search(g.get("name") or ""):
            # byte-order / scalar codec family: the codec rules follow delegation between siblings (with its reversals)
            continue
        if not any(b["term"]["k"] in ("call", "tailcall") for b in g["blocks"]):
            # a leaf (accessor / variant mapper): rules read such calls as projections of the receiver already
            continue
        return k
    return None


def _calls_self(j, key):
    for b in j["blocks"]:
        t = b["term"]
        if t["k"] in ("call", "tailcall") and (t.get("callee") or {}).get("key") == key:
            return True
    return False



def _succs(t):
    k = t["k"]
    if k == "goto":
        return [t["target"]]
    if k == "drop" and t.get("target") is not None:
        return [t["target"]]
    if k == "switch":
        return [a[1] for a in t["arms"]] + [t["otherwise"]]
    if k == "call" and t.get("target") is not None:
        return [t["target"]]
    return []


def _preds_of(blocks):
    preds = {}
    for i, b in enumerate(blocks):
        for x in _succs(b["term"]):
            preds.setdefault(x, []).append(i)
    return preds


def _known_ctor(blocks, bi, local, preds):
    """Constructor with which `local` holds at the end of block bi, on EVERY way of getting there:
    ("Result","Ok") / ("Option","None") / ("bool", 0|1), else None.  Backward search over predecessors (bounded);
    plain moves `a = move b` are followed."""
    found = set()
    seen = set()
    stack = [(bi, local, None)]
    steps = 0
    while stack:
        b, l, upto = stack.pop()
        if (b, l, upto) in seen:
            continue
        seen.add((b, l, upto))
        steps += 1
        if steps > 40:
            return None
        stmts = blocks[b]["stmts"]
        hi = len(stmts) if upto is None else upto
        hit = False
        for i in range(hi - 1, -1, -1):
            st = stmts[i]
            if st["k"] == "assign" and st["place"].get("l") == l:
                if "p" in st["place"]:
                    return None
                rv = st["rv"]
                agg = rv.get("agg")
                if agg and agg.get("adt") in ("Result", "Option") and agg.get("variant"):
                    found.add((agg["adt"], agg["variant"]))
                    hit = True
                    break
                u = rv.get("use")
                if isinstance(u, dict) and isinstance(u.get("const"), dict) and "bool" in u["const"]:
                    found.add(("bool", 1 if u["const"]["bool"] else 0))
                    hit = True
                    break
                pl = (u.get("move") or u.get("copy")) if isinstance(u, dict) else None
                if pl and "p" not in pl:
                    stack.append((b, pl["l"], i))
                    hit = True
                    break
                return None
        if hit:
            continue
        ps = preds.get(b, [])
        if not ps:
            if b != 0:
                continue  # a block nothing jumps to any more (left behind by threading): no way in, nothing to learn
            return None
        for p_ in ps:
            pt = blocks[p_]["term"]
            if pt["k"] == "call" and isinstance(pt.get("dest"), dict) and pt["dest"].get("l") == l:
                return None
            stack.append((p_, l, None))
    return next(iter(found)) if len(found) == 1 else None


def _split_returns(h):
    """Helper JSON in which each way of DEFINING the return value ends in its own return: the blocks between the
    assignments to `_0` and the `return` (drop-flag tests, drops, gotos - no calls, no further assignment to `_0`) are
    duplicated per defining block.  What each copy returns can then be told apart."""
    blocks = h["blocks"]
    preds = _preds_of(blocks)

    def defines0(b):
        return any(st["k"] == "assign" and st["place"].get("l") == 0 for st in b["stmts"]) or (b["term"]["k"] == "call" and isinstance(b["term"].get("dest"), dict) and b["term"]["dest"].get("l") == 0)

    nb = None
    for R, rb in enumerate(blocks):
        if rb["term"]["k"] != "return" or defines0(rb):
            continue
        region, defblocks, stack, ok = set(), [], [R], True
        while stack:
            b = stack.pop()
            if b in region:
                continue
            if b != R and defines0(blocks[b]):
                if b not in defblocks:
                    defblocks.append(b)
                continue
            if blocks[b]["term"]["k"] not in ("return", "goto", "switch", "drop") or b == 0:
                ok = False
                break
            region.add(b)
            if len(region) > 8:
                ok = False
                break
            for p_ in preds.get(b, []):
                stack.append(p_)
        if not ok or len(defblocks) < 2:
            continue
        if nb is None:
            nb = [dict(x, stmts=list(x["stmts"])) for x in blocks]
        for D in defblocks[1:]:
            base = len(nb)
            order = sorted(region)
            mp = {b: base + i for i, b in enumerate(order)}

            def remap(t):
                t = dict(t)
                if t["k"] in ("goto", "drop", "call") and t.get("target") in mp:
                    t["target"] = mp[t["target"]]
                if t["k"] == "switch":
                    t["arms"] = [[v, mp.get(tg, tg)] for v, tg in t["arms"]]
                    t["otherwise"] = mp.get(t["otherwise"], t["otherwise"])
                return t

            for b in order:
                nb.append(dict(blocks[b], stmts=list(blocks[b]["stmts"]), term=remap(blocks[b]["term"])))
            nb[D] = dict(nb[D], term=remap(nb[D]["term"]))
    if nb is None:
        return h
    return dict(h, blocks=nb)


def _thread_returns(nj, ret_blocks, ret_local, dest, target):
    """Jump threading after a splice.  The caller continues with `dest?` (Try::branch + switch on its discriminant) or
    `if dest` (switch on the bool); a return point of the helper that assigns a known constructor (`Err(..)`, `Ok(..)`,
    `true`) goes straight to the successor that constructor selects, through private copies of the two continuation
    blocks.  Without this the helper's own branch (`if bad { return Err(..) }`) and the caller's `?` look like two
    unrelated decisions and the guard no longer dominates what follows."""
    if target is None or not ret_blocks:
        return
    blocks = nj["blocks"]
    dl = dest.get("l") if isinstance(dest, dict) and "p" not in dest else None
    if dl is None:
        return
    T0 = blocks[target]
    t0 = T0["term"]
    kind = None
    if t0["k"] == "switch":
        d = t0["discr"].get("move") or t0["discr"].get("copy")
        if d and d.get("l") == dl and "p" not in d:
            kind = "bool"
    elif t0["k"] == "call" and (t0.get("callee") or {}).get("name") == "branch" and t0.get("target") is not None and t0.get("args"):
        a0 = t0["args"][0]
        pl = (a0.get("move") or a0.get("copy")) if isinstance(a0, dict) else None
        if pl and pl.get("l") == dl and "p" not in pl and isinstance(t0.get("dest"), dict) and "p" not in t0["dest"]:
            X = blocks[t0["target"]]
            if X["term"]["k"] == "switch":
                dk = X["term"]["discr"].get("move") or X["term"]["discr"].get("copy")
                rl = t0["dest"]["l"]
                if dk and any(st["k"] == "assign" and st["place"].get("l") == dk.get("l") and isinstance(st["rv"].get("discr"), dict) and st["rv"]["discr"].get("l") == rl for st in X["stmts"]):
                    kind = "try"
    if kind is None:
        return
    preds = _preds_of(blocks)

    def pick(sw, val):
        for v, tg in sw["arms"]:
            if v == val:
                return tg
        return sw["otherwise"]

    for rb in ret_blocks:
        ctor = _known_ctor(blocks, rb, ret_local, preds)
        if ctor is None:
            continue
        if kind == "bool" and ctor[0] == "bool":
            nb = dict(T0, stmts=list(T0["stmts"]), term={"k": "goto", "target": pick(t0, ctor[1]), "sp": t0.get("sp"), "threaded": True})
            blocks.append(nb)
            blocks[rb]["term"] = dict(blocks[rb]["term"], target=len(blocks) - 1)
        elif kind == "try" and ctor[0] in ("Result", "Option"):
            val = 0 if ctor[1] in ("Ok", "Some") else 1
            X = blocks[t0["target"]]
            xi = len(blocks)
            blocks.append(dict(X, stmts=list(X["stmts"]), term={"k": "goto", "target": pick(X["term"], val), "sp": X["term"].get("sp"), "threaded": True}))
            blocks.append(dict(T0, stmts=list(T0["stmts"]), term=dict(t0, target=xi)))
            blocks[rb]["term"] = dict(blocks[rb]["term"], target=len(blocks) - 1)


def _generic_map(h, t):
    """Generic parameter name of the spliced helper -> the argument it is instantiated with at this call."""
    gs = h.get("generics") or []
    args = (t.get("callee") or {}).get("args") or []
    if not gs or len(gs) != len(args):
        return {}
    return {g: a for g, a in zip(gs, args) if g != a and not str(g).startswith("'")}


def _resolve_generic_callee(term, gmap, by_key):
    """A call `<P as Trait>::method` inside a spliced generic helper, with P now known: when the crate has that impl,
    the call is named after it (and can be spliced / evaluated like any other crate function)."""
    c = term.get("callee") or {}
    if not c.get("args"):
        return term
    import re as _re

    def sub(x):
        x = str(x)
        for g, a in gmap.items():
            x = _re.sub(r"(?<![A-Za-z0-9_])%s(?![A-Za-z0-9_])" % _re.escape(str(g)), str(a), x)
        return x

    if not c.get("trait"):
        # a generic free function / inherent method called with the helper's own type parameter
        # (`serde_bare::from_slice::<T>` inside `fn decode<T>()`): it is instantiated with what T stands for here
        args = [sub(a) for a in c["args"]]
        if args == list(c["args"]):
            return term
        nc = dict(c, args=args)
        if c.get("args_full"):
            nc["args_full"] = [sub(a) for a in c["args_full"]]
        return dict(term, callee=nc)
    if c.get("key") and c["key"] != "%s::%s" % (c["trait"], c.get("name")):
        return term  # already names an impl / a concrete function
    args = [sub(a) for a in c["args"]]
    if args == list(c["args"]):
        return term
    # the helper's own type parameter means nothing in the caller: the callee is named by what it is instantiated with
    nc = dict(c, args=args)
    if c.get("args_full"):
        nc["args_full"] = [sub(a) for a in c["args_full"]]
    if c.get("self_ty"):
        nc["self_ty"] = sub(c["self_ty"])
    key = "<%s as %s>::%s" % (args[0], c["trait"], c.get("name"))
    if key not in by_key:
        pre, suf = "<%s as %s<" % (args[0], c["trait"]), ">::%s" % c.get("name")
        cands = [k for k in by_key if k.startswith(pre) and k.endswith(suf)]
        key = cands[0] if len(cands) == 1 else None
    if key is not None:
        nc["key"] = key
    return dict(term, callee=nc)


def _alias_moved(fns_json):
    """A free function of the pinned tree that was MOVED to another module (`helpers::f` -> `helpers::bytes::f`, the old
    path kept alive by a re-export) is the same function under a new path: when a pinned free function is missing and
    exactly one new free function has its name, the new one is given the pinned key everywhere (its own key, the keys of
    its closures, every call that names it)."""
    pinned = _pinned()
    if not pinned:
        return fns_json
    have = {j["key"] for j in fns_json}
    free = lambda j: j.get("kind") == "Fn" and not j.get("impl_self") and not j.get("impl_trait") and not j.get("from_expansion")
    missing = {}
    for k in pinned:
        if k not in have and "<" not in k and "::{" not in k:
            missing.setdefault(k.rsplit("::", 1)[-1], []).append(k)
    if not missing:
        return fns_json
    new = {}
    for j in fns_json:
        if free(j) and j["key"] not in pinned:
            new.setdefault(j["key"].rsplit("::", 1)[-1], []).append(j["key"])
    ren = {}
    for name, olds in missing.items():
        if len(olds) == 1 and len(new.get(name, [])) == 1:
            ren[new[name][0]] = olds[0]
    if not ren:
        return fns_json

    def fix(v):
        for a, b in ren.items():
            if v == a:
                return b
            if isinstance(v, str) and v.startswith(a + "::"):
                return b + v[len(a):]
        return v

    def walk(x):
        if isinstance(x, dict):
            return {k: (fix(v) if k in ("key", "parent_key") and isinstance(v, str) else walk(v)) for k, v in x.items()}
        if isinstance(x, list):
            return [walk(v) for v in x]
        return x

    return [walk(j) for j in fns_json]


def inline_helpers(fns_json):
    """fns_json: list of function JSON objects.  Returns a list in which every caller of a private helper has the
    helper's body spliced in (helpers themselves stay in the list, also with their own helper calls inlined)."""
    fns_json = _alias_moved(fns_json)
    by_key = {j["key"]: j for j in fns_json}
    # functions whose body differs from the pinned tree: combinators with closure literals become plain control flow,
    # tests of values with a known constructor are threaded (see desugar.py)
    try:
        from .desugar import desugar_combinators, thread_known_ctors, splice_closure_calls, desugar_for_each, unroll_array_loops

        # (the tag-table conversions of the wire enums stay as they are: the codec rules fold them concretely, which
        # wants the branch-free combinator form)
        changed = [j for j in fns_json if not j.get("from_expansion") and is_changed(j) and not _TAG_CONV.search(j["key"])]
        if changed and len(changed) < 400:
            repl = {}
            for j in changed:
                nj = desugar_combinators(j, by_key)
                nj = desugar_for_each(nj, by_key)
                nj = unroll_array_loops(nj)
                nj = splice_closure_calls(nj, by_key)
                nj = thread_known_ctors(nj)
                if nj is not j:
                    repl[j["key"]] = nj
            if repl:
                fns_json = [repl.get(j["key"], j) for j in fns_json]
                by_key = {j["key"]: j for j in fns_json}
    except Exception:
        import traceback

        traceback.print_exc()
    helpers = {k: j for k, j in by_key.items() if is_private_helper(j) and len(j["blocks"]) <= MAX_BLOCKS and not _calls_self(j, k)}
    _pinned()
    done = {}

    def target(j, t):
        hk = _target(t, helpers)
        if hk is not None:
            return hk
        return _new_edge_target(j, t, by_key)

    def expand(j, depth, stack):
        key = j["key"]
        if depth == 0 and key in done:
            return done[key]
        blocks = j["blocks"]
        sites = [i for i, b in enumerate(blocks) if b["term"]["k"] == "call" and target(j, b["term"]) is not None and target(j, b["term"]) not in stack]
        if not sites or depth >= MAX_DEPTH:
            return j
        nj = dict(j)
        nj["locals"] = list(j["locals"])
        nj["blocks"] = [dict(b, stmts=list(b["stmts"])) for b in blocks]
        nj["inlined"] = list(j.get("inlined", []))
        for i in sites:
            t = nj["blocks"][i]["term"]
            hk = target(j, t)
            h = _split_returns(expand(by_key[hk], depth + 1, stack | {hk}))
            lo = len(nj["locals"])
            rets = []
            bo = len(nj["blocks"])
            nj["locals"].extend(copy.deepcopy(h["locals"]))
            # the helper's promoted constants travel with its body
            po = len(nj.get("promoted") or [])
            if h.get("promoted"):
                nj["promoted"] = list(nj.get("promoted") or []) + list(h["promoted"])
            # arguments -> the helper's parameter locals
            sp = t.get("sp")
            for ai, a in enumerate(t["args"]):
                if ai + 1 <= h["arg_count"]:
                    nj["blocks"][i]["stmts"].append({"k": "assign", "place": {"l": lo + ai + 1}, "rv": {"use": a}, "sp": sp})
            nj["blocks"][i]["term"] = {"k": "goto", "target": bo, "sp": sp, "inlined_call": hk}
            gmap = _generic_map(h, t)
            for hb in h["blocks"]:
                nb = _remap(hb, lo, bo, po if h.get("promoted") else 0)
                if gmap and nb["term"]["k"] in ("call", "tailcall"):
                    nb["term"] = _resolve_generic_callee(nb["term"], gmap, by_key)
                if nb["term"]["k"] == "return":
                    nb["stmts"] = list(nb["stmts"]) + [{"k": "assign", "place": t["dest"], "rv": {"use": {"move": {"l": lo}}}, "sp": sp}]
                    if t.get("target") is None:
                        nb["term"] = {"k": "unreachable", "sp": sp}
                    else:
                        nb["term"] = {"k": "goto", "target": t["target"], "sp": sp}
                        rets.append(len(nj["blocks"]))
                nj["blocks"].append(nb)
            _thread_returns(nj, rets, lo, t["dest"], t.get("target"))
            nj["inlined"].append(hk)
        if depth == 0:
            done[key] = nj
        return nj

    out = []
    report = {}
    for j in fns_json:
        nj = expand(j, 0, frozenset([j["key"]]))
        if nj is not j:
            # closures handed to a spliced helper as `impl Fn..` parameters are called there: now that the helper's body
            # is part of the caller, those calls can be resolved to the closure literal and spliced as well
            try:
                from .desugar import splice_closure_calls, thread_known_ctors

                nj2 = splice_closure_calls(nj, by_key)
                if nj2 is not nj:
                    nj = thread_known_ctors(nj2)
                elif is_changed(j) and not _TAG_CONV.search(j["key"]):
                    # a spliced helper that returns `Some(..)` / `None` / `Ok` / `Err` at different points and is matched
                    # on directly (no `?` in between): thread each return to the arm its constructor selects
                    nj = thread_known_ctors(nj)
            except Exception:
                import traceback

                traceback.print_exc()
        if nj is not j:
            report[j["key"]] = nj.get("inlined", [])
        out.append(nj)
    return out, report


def splice_calls(j, by_key, want, depth=2, _stack=None):
    """Copy of function JSON `j` in which every direct call to a function whose key is in `want` is replaced by that
    function's body (recursively, up to `depth`).  Used for on-demand views ("look through the crate's own wrappers
    until the call the rule is about becomes visible"); the program's function table is not changed."""
    stack = _stack or frozenset([j["key"]])
    blocks = j["blocks"]
    sites = [i for i, b in enumerate(blocks) if b["term"]["k"] == "call" and _target(b["term"], want) is not None and _target(b["term"], want) not in stack]
    if not sites or depth <= 0:
        return j
    nj = dict(j)
    nj["locals"] = list(j["locals"])
    nj["blocks"] = [dict(b, stmts=list(b["stmts"])) for b in blocks]
    nj["inlined"] = list(j.get("inlined", []))
    for i in sites:
        t = nj["blocks"][i]["term"]
        hk = _target(t, want)
        h0 = by_key[hk]
        if len(h0["blocks"]) > MAX_BLOCKS or _calls_self(h0, hk):
            continue
        h = splice_calls(h0, by_key, want, depth - 1, stack | {hk})
        lo = len(nj["locals"])
        bo = len(nj["blocks"])
        nj["locals"].extend(copy.deepcopy(h["locals"]))
        po = len(nj.get("promoted") or [])
        if h.get("promoted"):
            nj["promoted"] = list(nj.get("promoted") or []) + list(h["promoted"])
        sp = t.get("sp")
        for ai, a in enumerate(t["args"]):
            if ai + 1 <= h["arg_count"]:
                nj["blocks"][i]["stmts"].append({"k": "assign", "place": {"l": lo + ai + 1}, "rv": {"use": a}, "sp": sp})
        nj["blocks"][i]["term"] = {"k": "goto", "target": bo, "sp": sp, "inlined_call": hk}
        for hb in h["blocks"]:
            nb = _remap(hb, lo, bo, po if h.get("promoted") else 0)
            if nb["term"]["k"] == "return":
                nb["stmts"] = list(nb["stmts"]) + [{"k": "assign", "place": t["dest"], "rv": {"use": {"move": {"l": lo}}}, "sp": sp}]
                nb["term"] = {"k": "unreachable", "sp": sp} if t.get("target") is None else {"k": "goto", "target": t["target"], "sp": sp}
            nj["blocks"].append(nb)
        nj["inlined"].append(hk)
    return nj
