"""Byte-string construction normal form (engine E5).

A term that denotes a byte string (Vec<u8>, &[u8], [u8;N]) is normalised into a list of
segments:
   ("v", t)      the whole byte string denoted by atom t (wrappers peeled)
   ("b", n)      one constant byte
   ("z", n)      n zero bytes (n a term or int)
   ("pad", k, c) pad the string so far with byte c up to at least k bytes
   ("?", t)      construction not recognised (weak form applies)
Builder objects (hashers, HKDF extractors, merlin transcripts) are unwound into event
lists by `events`.
"""
from .terms import T, show, subterms
from .sym import strip_sites

# wrappers that do not change the denoted byte string
_TRANSPARENT_ADTS = {"Cow"}

_IDENT = {
    "Cow::<'_, B>::into_owned",
    "Cow::<'_, B>::to_mut",
    "AsRef::as_ref",
    "AsMut::as_mut",
    "Deref::deref",
    "DerefMut::deref_mut",
    "Borrow::borrow",
    "Vec::<T, A>::as_slice",
    "Vec::<T, A>::as_mut_slice",
    "slice::<impl [T]>::to_vec",
    "Uint::to_vec",
    "Clone::clone",
    "ToOwned::to_owned",
    "slice::<impl [T]>::as_ref",
    "GenericArray::<T, N>::as_slice",
    "array::<impl [T; N]>::as_slice",
    "String::as_bytes",
    "str::<impl str>::as_bytes",
    "Vec::<T, A>::into_boxed_slice",
    "IntoIterator::into_iter",
    "slice::<impl [T]>::iter",
    "Iterator::copied",
    "Iterator::cloned",
    "Iterator::collect",
    "Vec::<T>::from_iter",
    "FromIterator::from_iter",
}
_EMPTY = {"Vec::<T>::new", "Vec::<T>::with_capacity", "Vec::<T, A>::with_capacity_in", "Vec::<T, A>::new_in"}


def cname(t):
    return t.a[0][0] if t.op in ("call", "mutcall") else None


import re as _re

_BYTE_CONTAINER = _re.compile(r"^&?(mut )?(Vec<u8>|\[u8(; [A-Za-z0-9_]+)?\]|Box<\[u8\]>|GenericArray<u8, .*>|String|str|T|U|Self|B|C|D)$")


def _is_byte_conversion(t):
    """From/Into between byte containers (Vec<u8> <-> [u8;N] <-> Box<[u8]>) keeps the bytes."""
    g = t.a[0][1]
    return bool(g) and all(_BYTE_CONTAINER.match(x) for x in g if not x.startswith("'"))


def peel(t):
    """Peel reference/wrapper layers that do not change the denoted bytes."""
    while True:
        if t.op in ("ref", "deref"):
            t = t.a[0]
            continue
        if t.op == "call" and cname(t) in ("Into::into", "From::from") and len(t.a[1]) == 1 and _is_byte_conversion(t):
            t = t.a[1][0]
            continue
        if t.op == "call" and cname(t) in _IDENT and len(t.a[1]) == 1:
            # Into/From only when clearly a container conversion (kept as identity for bytes)
            t = t.a[1][0]
            continue
        if t.op == "cast" and str(t.a[0]).startswith("PointerCoercion"):
            t = t.a[1]
            continue
        if t.op == "agg" and t.a[0][0] == "adt" and t.a[0][1] in _TRANSPARENT_ADTS and len(t.a[1]) == 1:
            # Cow::Borrowed(x) / Cow::Owned(x) / Box-like single-field wrappers denote the bytes of x
            t = t.a[1][0]
            continue
        return t


def _const_int(t):
    t = peel(t)
    if t.op == "const" and t.a[0] == "int":
        return t.a[1]
    return None


def len_of(t):
    """Canonical length term of a byte string atom."""
    return T("lenof", strip_sites(peel(t)))


def _len_term(t):
    """Normalise a usize term: recognise len(x) and a+b."""
    t = peel(t)
    ci = _const_int(t)
    if ci is not None:
        return ("c", ci)
    if t.op == "call" and cname(t) in ("slice::<impl [T]>::len", "Vec::<T, A>::len", "GenericArray::<T, N>::len") and len(t.a[1]) == 1:
        return ("len", strip_sites(peel(t.a[1][0])))
    if t.op == "len":
        return ("len", strip_sites(peel(t.a[0])))
    if t.op == "field" and t.a[1] == "0" and t.a[0].op == "bin" and t.a[0].a[0] in ("AddWithOverflow",):
        return ("add", _len_term(t.a[0].a[1]), _len_term(t.a[0].a[2]))
    if t.op == "bin" and t.a[0] in ("Add", "AddUnchecked"):
        return ("add", _len_term(t.a[1]), _len_term(t.a[2]))
    return ("t", strip_sites(t))


def _seg_len(seg):
    k = seg[0]
    if k == "v":
        t = seg[1]
        if t.op == "call" and cname(t) in ("num::<impl u64>::to_le_bytes", "num::<impl u64>::to_be_bytes", "num::<impl u64>::to_ne_bytes"):
            return ("c", 8)
        if t.op == "agg" and t.a[0][0] == "array":
            return ("c", len(t.a[1]))
        return ("len", strip_sites(peel(t)))
    if k == "b":
        return ("c", 1)
    if k == "z":
        return seg[1]
    return None


def _len_eq(a, b):
    return a == b


def _split_add(n):
    """("add", x, y) -> [x, y]"""
    if n[0] == "add":
        return [n[1], n[2]]
    return None


def nf(ev, t, depth=0):
    """Normal form of a byte-string-valued term evaluated in `ev` (an Eval)."""
    t = peel(t)
    op = t.op
    if op == "call":
        n = cname(t)
        if n in _EMPTY:
            return []
        if n == "alloc::from_elem":
            c = _const_int(t.a[1][0])
            if c == 0:
                return [("z", _len_term(t.a[1][1]))]
            return [("?", strip_sites(t))]
        if n == "Iterator::chain" and len(t.a[1]) == 2:
            return nf(ev, t.a[1][0], depth + 1) + nf(ev, t.a[1][1], depth + 1)
        if n in ("slice::<impl [T]>::concat", "slice::<impl [[T]]>::concat") and len(t.a[1]) == 1:
            inner = peel(t.a[1][0])
            if inner.op == "agg" and inner.a[0][0] == "array":
                out = []
                for x in inner.a[1]:
                    out += nf(ev, x, depth + 1)
                return out
        return [("v", strip_sites(t))]
    if op == "repeat":
        c = _const_int(t.a[0])
        if c == 0:
            return [("z", ("c", t.a[1]) if isinstance(t.a[1], int) else ("t", t.a[1]))]
    if op == "mutcall":
        n = cname(t)
        idx = t.a[1]
        args = t.a[2]
        selfv = args[idx]
        if n in ("Vec::<T, A>::extend_from_slice", "Extend::extend", "Vec::<T, A>::append", "Vec::<T, A>::extend_from_within") and idx == 0 and len(args) == 2:
            return nf(ev, selfv, depth + 1) + nf(ev, args[1], depth + 1)
        if n == "Vec::<T, A>::push" and idx == 0 and len(args) == 2:
            c = _const_int(args[1])
            seg = ("b", c) if c is not None else ("v1", strip_sites(peel(args[1])))
            return nf(ev, selfv, depth + 1) + [seg]
        if n == "Vec::<T, A>::insert" and idx == 0 and len(args) == 3:
            pos = _const_int(args[1])
            c = _const_int(args[2])
            seg = ("b", c) if c is not None else ("v1", strip_sites(peel(args[2])))
            if pos == 0:
                return [seg] + nf(ev, selfv, depth + 1)
            return [("?", strip_sites(t))]
        if n == "Vec::<T, A>::resize" and idx == 0 and len(args) == 3:
            k = _const_int(args[1])
            c = _const_int(args[2])
            if k is not None and c is not None:
                # resize may also truncate; only a padding under a `len < k` guard is a pure pad.
                return nf(ev, selfv, depth + 1) + [("resize", k, c)]
        if n == "slice::<impl [T]>::copy_from_slice" and idx == 0 and len(args) == 2:
            # tiling: buffer[..a] / buffer[a..] / whole
            dst = peel(args[0])
            src = nf(ev, args[1], depth + 1)
            if dst.op == "call" and cname(dst) in ("IndexMut::index_mut", "Index::index") and len(dst.a[1]) == 2:
                buf = nf(ev, dst.a[1][0], depth + 1)
                rng = peel(dst.a[1][1])
                return _tile(buf, rng, src, t)
            buf = nf(ev, args[0], depth + 1)
            # whole-buffer copy: lengths must agree, result is the source
            return _tile_whole(buf, src, t)
        if n in ("slice::<impl [T]>::reverse",) and idx == 0:
            return [("rev", tuple(nf(ev, selfv, depth + 1)))]
        return [("?", strip_sites(t))]
    if op == "loop":
        hdr, loc, init = t.a
        step = ev.loop_step.get((hdr, loc)) if ev is not None else None
        base = nf(ev, init, depth + 1)
        if step is not None and step.op == "mutcall" and cname(step) == "Vec::<T, A>::push" and peel(step.a[2][0]) is t:
            c = _const_int(step.a[2][1])
            k = _pad_bound(ev, hdr, t)
            if c is not None and k is not None:
                return base + [("pad", k, c)]
        return base + [("?", T("loop", 0, 0, strip_sites(init)))]
    if op == "phi":
        alts = [tuple(nf(ev, x, depth + 1)) for x in t.a[0]]
        if all(a == alts[0] for a in alts):
            return list(alts[0])
        return [("phi", tuple(sorted(set(alts), key=str)))]
    if op == "agg" and t.a[0][0] == "array":
        out = []
        for x in t.a[1]:
            c = _const_int(x)
            out.append(("b", c) if c is not None else ("v1", strip_sites(peel(x))))
        return out
    if op == "named":
        v = t.a[2]
        if isinstance(v, T) and v.op == "const" and v.a[0] == "bytes":
            return [("v", v)]
        return [("v", strip_sites(t))]
    return [("v", strip_sites(t))]


def _pad_bound(ev, hdr, loopterm):
    """For `while v.len() < K { v.push(c) }`: find K from the loop header's exit test."""
    fn = ev.fn
    cfg = fn.cfg
    # the switch controlling the loop is in the header or a block it dominates inside the loop
    for b, d in ev.switch.items():
        d = peel(d)
        if d.op == "bin" and d.a[0] == "Lt":
            l, r = peel(d.a[1]), peel(d.a[2])
            if l.op == "call" and cname(l) == "Vec::<T, A>::len" and peel(l.a[1][0]) is loopterm:
                k = _const_int(r)
                if k is not None:
                    return k
    return None


def _range_kind(rng):
    if rng.op == "agg" and rng.a[0][0] == "adt":
        name = rng.a[0][1]
        ops = rng.a[1]
        if name == "RangeTo" and len(ops) == 1:
            return ("to", _len_term(ops[0]))
        if name == "RangeFrom" and len(ops) == 1:
            return ("from", _len_term(ops[0]))
        if name == "Range" and len(ops) == 2:
            return ("range", _len_term(ops[0]), _len_term(ops[1]))
        if name == "RangeFull":
            return ("full",)
    return None


def _tile(buf, rng, src, orig):
    rk = _range_kind(rng)
    srclen = _total_len(src)
    if rk is None or srclen is None:
        return [("?", strip_sites(orig))]
    if rk[0] == "full":
        return _tile_whole(buf, src, orig)
    if rk[0] == "to":
        a = rk[1]
        # buffer = zeros(n), n = a + b (either order), |src| = a  ->  src ++ zeros(b)
        if len(buf) == 1 and buf[0][0] == "z":
            parts = _split_add(buf[0][1])
            if parts and a == srclen:
                if parts[0] == a:
                    return src + [("z", parts[1])]
                if parts[1] == a:
                    return src + [("z", parts[0])]
        return [("?", strip_sites(orig))]
    if rk[0] == "from":
        a = rk[1]
        # buffer = X ++ zeros(b) with |X| = a and |src| = b -> X ++ src
        if buf and buf[-1][0] == "z":
            head = buf[:-1]
            hl = _total_len(head)
            if hl is not None and hl == a and buf[-1][1] == srclen:
                return head + src
        return [("?", strip_sites(orig))]
    return [("?", strip_sites(orig))]


def _tile_whole(buf, src, orig):
    bl = _total_len(buf)
    sl = _total_len(src)
    if bl is not None and sl is not None and bl == sl:
        return src
    return [("copy", tuple(buf), tuple(src))]


def _total_len(segs):
    if not segs:
        return ("c", 0)
    ls = [_seg_len(s) for s in segs]
    if any(l is None for l in ls):
        return None
    if len(ls) == 1:
        return ls[0]
    # only simple 2-sums are needed
    tot = ls[0]
    for l in ls[1:]:
        if tot[0] == "c" and l[0] == "c":
            tot = ("c", tot[1] + l[1])
        else:
            tot = ("add", tot, l)
    return tot


def show_nf(segs, d=5):
    out = []
    for s in segs:
        k = s[0]
        if k == "v":
            out.append(show(s[1], d))
        elif k == "v1":
            out.append("[%s]" % show(s[1], d))
        elif k == "b":
            out.append("[0x%02x]" % s[1])
        elif k == "z":
            out.append("zeros(%s)" % _show_len(s[1]))
        elif k == "pad":
            out.append("PadTo(%d,0x%02x)" % (s[1], s[2]))
        elif k == "resize":
            out.append("Resize(%d,0x%02x)" % (s[1], s[2]))
        elif k == "rev":
            out.append("rev(%s)" % show_nf(list(s[1]), d))
        elif k == "?":
            out.append("?%s" % show(s[1], 3))
        elif k == "phi":
            out.append("φ{%s}" % " | ".join(show_nf(list(a), d) for a in s[1]))
        elif k == "copy":
            out.append("copy(%s <- %s)" % (show_nf(list(s[1]), d), show_nf(list(s[2]), d)))
        else:
            out.append(str(s))
    return " ‖ ".join(out) if out else "ε"


def _show_len(n):
    if n[0] == "c":
        return str(n[1])
    if n[0] == "len":
        return "|%s|" % show(n[1], 3)
    if n[0] == "add":
        return "%s+%s" % (_show_len(n[1]), _show_len(n[2]))
    return show(n[1], 3)


def is_strong(segs):
    for s in segs:
        if s[0] in ("?", "phi", "copy"):
            return False
        if s[0] == "rev" and not is_strong(list(s[1])):
            return False
    return True


def seg_atoms(segs):
    """Atoms (value terms) of a normal form, in order."""
    out = []
    for s in segs:
        if s[0] in ("v", "v1", "?"):
            out.append(s[1])
        elif s[0] == "rev":
            out += seg_atoms(list(s[1]))
        elif s[0] == "phi":
            for a in s[1]:
                out += seg_atoms(list(a))
        elif s[0] == "copy":
            out += seg_atoms(list(s[1])) + seg_atoms(list(s[2]))
    return out


# ---------------------------------------------------------------------------
# builder event lists


def events(t):
    """Unwind a builder value into (base term, [(method, other-args...)...]) in program order."""
    evs = []
    t = peel(t) if t.op in ("ref", "deref") else t
    while True:
        while t.op in ("ref", "deref"):
            t = t.a[0]
        if t.op == "mutcall":
            idx = t.a[1]
            args = t.a[2]
            others = tuple(a for i, a in enumerate(args) if i != idx)
            evs.append((cname(t), others, t))
            t = args[idx]
            continue
        break
    evs.reverse()
    return t, evs
