"""Byte-string construction normal form (engine E5).

A term that denotes a byte string (Vec<u8>, &[u8], [u8;N]) is normalised into a list of
segments:
   ("v", t)      the whole byte string denoted by atom t (wrappers peeled)
   ("b", n)      one constant byte
   ("z", n)      n zero bytes (n a term or int)
   ("pad", k, c) pad the string so far with byte c up to at least k bytes
   ("?", t)      construction not recognised (weak form applies)
Builder objects (hashers, HKDF extractors, merlin transcripts) are unwound into event
lists by `events`.
"""
from .terms import T, show, subterms
from .sym import strip_sites

# wrappers that do not change the denoted byte string
_TRANSPARENT_ADTS = {"Cow"}

_IDENT = {
    "Cow::<'_, B>::into_owned",
    "Cow::<'_, B>::to_mut",
    "AsRef::as_ref",
    "AsMut::as_mut",
    "Deref::deref",
    "DerefMut::deref_mut",
    "Borrow::borrow",
    "Vec::<T, A>::as_slice",
    "Vec::<T, A>::as_mut_slice",
    "slice::<impl [T]>::to_vec",
    "Uint::to_vec",
    "Clone::clone",
    "ToOwned::to_owned",
    "slice::<impl [T]>::as_ref",
    "GenericArray::<T, N>::as_slice",
    "array::<impl [T; N]>::as_slice",
    "String::as_bytes",
    "str::<impl str>::as_bytes",
    "Vec::<T, A>::into_boxed_slice",
    "IntoIterator::into_iter",
    "slice::<impl [T]>::iter",
    "Iterator::copied",
    "Iterator::cloned",
    "Iterator::collect",
    "Vec::<T>::from_iter",
    "FromIterator::from_iter",
}
_EMPTY = {"Vec::<T>::new", "Vec::<T>::with_capacity", "Vec::<T, A>::with_capacity_in", "Vec::<T, A>::new_in"}


def cname(t):
    return t.a[0][0] if t.op in ("call", "mutcall") else None


import re as _re

_BYTE_CONTAINER = _re.compile(r"^&?(mut )?(Vec<u8>|\[u8(; [A-Za-z0-9_]+)?\]|Box<\[u8\]>|GenericArray<u8, .*>|String|str|T|U|Self|B|C|D)$")


def _is_byte_conversion(t):
    """From/Into between byte containers (Vec<u8> <-> [u8;N] <-> Box<[u8]>) keeps the bytes."""
    g = t.a[0][1]
    return bool(g) and all(_BYTE_CONTAINER.match(x) for x in g if not x.startswith("'"))


def peel(t):
    """Peel reference/wrapper layers that do not change the denoted bytes."""
    while True:
        if t.op in ("ref", "deref"):
            t = t.a[0]
            continue
        if t.op == "call" and cname(t) in ("Into::into", "From::from") and len(t.a[1]) == 1 and _is_byte_conversion(t):
            t = t.a[1][0]
            continue
        if t.op == "call" and cname(t) in _IDENT and len(t.a[1]) == 1:
            # Into/From only when clearly a container conversion (kept as identity for bytes)
            t = t.a[1][0]
            continue
        if t.op == "cast" and str(t.a[0]).startswith("PointerCoercion"):
            t = t.a[1]
            continue
        if t.op == "agg" and t.a[0][0] == "adt" and t.a[0][1] in _TRANSPARENT_ADTS and len(t.a[1]) == 1:
            # Cow::Borrowed(x) / Cow::Owned(x) / Box-like single-field wrappers denote the bytes of x
            t = t.a[1][0]
            continue
        return t


def _const_int(t):
    t = peel(t)
    if t.op == "named" and len(t.a) > 2 and isinstance(t.a[2], T):
        t = t.a[2]
    if t.op == "const" and t.a[0] == "int":
        return t.a[1]
    return None


def len_of(t):
    """Canonical length term of a byte string atom."""
    return T("lenof", strip_sites(peel(t)))


def _len_term(t):
    """Normalise a usize term: recognise len(x) and a+b."""
    t = peel(t)
    ci = _const_int(t)
    if ci is not None:
        return ("c", ci)
    if t.op == "call" and cname(t) in ("slice::<impl [T]>::len", "Vec::<T, A>::len", "GenericArray::<T, N>::len") and len(t.a[1]) == 1:
        return ("len", strip_sites(peel(t.a[1][0])))
    if t.op == "len":
        return ("len", strip_sites(peel(t.a[0])))
    if t.op == "field" and t.a[1] == "0" and t.a[0].op == "bin" and t.a[0].a[0] in ("AddWithOverflow",):
        return ("add", _len_term(t.a[0].a[1]), _len_term(t.a[0].a[2]))
    if t.op == "bin" and t.a[0] in ("Add", "AddUnchecked"):
        return ("add", _len_term(t.a[1]), _len_term(t.a[2]))
    if t.op == "field" and t.a[1] == "0" and t.a[0].op == "bin" and t.a[0].a[0] in ("SubWithOverflow",):
        return ("sub", _len_term(t.a[0].a[1]), _len_term(t.a[0].a[2]))
    if t.op == "bin" and t.a[0] in ("Sub", "SubUnchecked"):
        return ("sub", _len_term(t.a[1]), _len_term(t.a[2]))
    return ("t", strip_sites(t))


# in-place writers that never change the length of the buffer they write into
_LEN_PRESERVING = ("read", "copy_from_slice", "clone_from_slice", "fill", "fill_bytes", "try_fill_bytes", "reverse", "sort", "sort_unstable", "swap", "rotate_left", "rotate_right", "read_exact", "finalize_xof_into", "squeeze", "zeroize", "iter_mut")


# lengths learnt from `dst.copy_from_slice(src)` (it returns only if |src| == |dst|): stripped src term -> length form
_KNOWN_LEN = {}


def _seg_len(seg):
    k = seg[0]
    if k == "v":
        t = seg[1]
        kl = _KNOWN_LEN.get(strip_sites(peel(t)))
        if kl is not None:
            return kl
        if t.op == "call" and cname(t) in ("num::<impl u64>::to_le_bytes", "num::<impl u64>::to_be_bytes", "num::<impl u64>::to_ne_bytes"):
            return ("c", 8)
        if t.op == "agg" and t.a[0][0] == "array":
            return ("c", len(t.a[1]))
        return ("len", strip_sites(peel(t)))
    if k in ("b", "v1"):
        return ("c", 1)
    if k == "z":
        return seg[1]
    return None


def _len_eq(a, b):
    return a == b


def _split_add(n):
    """("add", x, y) -> [x, y]"""
    if n[0] == "add":
        return [n[1], n[2]]
    return None


def nf(ev, t, depth=0):
    """Normal form of a byte-string-valued term evaluated in `ev` (an Eval)."""
    t = peel(t)
    op = t.op
    if op == "call":
        n = cname(t)
        if n in _EMPTY:
            return []
        if n == "alloc::from_elem":
            c = _const_int(t.a[1][0])
            if c == 0:
                return [("z", _len_term(t.a[1][1]))]
            return [("?", strip_sites(t))]
        if n == "Iterator::chain" and len(t.a[1]) == 2:
            left = nf(ev, t.a[1][0], depth + 1)
            right = nf(ev, t.a[1][1], depth + 1)
            # `.. .chain(repeat(0).take(N.saturating_sub(len so far)))`: zero padding up to N bytes
            if len(right) == 1 and right[0][0] == "zsat":
                tot = _total_len(left)
                if tot is not None and _lin_eq(tot, right[0][2]):
                    right = [("pad", right[0][1], 0)]
                else:
                    right = [("?", right[0][3])]
            return left + right
        if n == "Iterator::take" and len(t.a[1]) == 2:
            src = peel(t.a[1][0])
            if src.op == "call" and cname(src) in ("core::repeat", "iter::repeat", "std::iter::repeat", "core::iter::repeat") and _const_int(src.a[1][0]) == 0:
                cnt = peel(t.a[1][1])
                if cnt.op == "call" and cname(cnt) == "num::<impl usize>::saturating_sub" and _const_int(cnt.a[1][0]) is not None:
                    return [("zsat", _const_int(cnt.a[1][0]), int_form(cnt.a[1][1]), strip_sites(t))]
                return [("z", int_form(cnt))]
        if n in ("slice::<impl [T]>::concat", "slice::<impl [[T]]>::concat") and len(t.a[1]) == 1:
            inner = peel(t.a[1][0])
            if inner.op == "agg" and inner.a[0][0] == "array":
                out = []
                for x in inner.a[1]:
                    out += nf(ev, x, depth + 1)
                return out
        return [("v", strip_sites(t))]
    if op == "repeat":
        c = _const_int(t.a[0])
        if c == 0:
            return [("z", ("c", t.a[1]) if isinstance(t.a[1], int) else ("t", t.a[1]))]
    if op == "mutcall":
        n = cname(t)
        idx = t.a[1]
        args = t.a[2]
        selfv = args[idx]
        if n in ("Vec::<T, A>::extend_from_slice", "Extend::extend", "Vec::<T, A>::append", "Vec::<T, A>::extend_from_within", "Write::write_all") and idx == 0 and len(args) == 2:
            return nf(ev, selfv, depth + 1) + nf(ev, args[1], depth + 1)
        if n == "Vec::<T, A>::push" and idx == 0 and len(args) == 2:
            c = _const_int(args[1])
            seg = ("b", c) if c is not None else ("v1", strip_sites(peel(args[1])))
            return nf(ev, selfv, depth + 1) + [seg]
        if n == "Vec::<T, A>::insert" and idx == 0 and len(args) == 3:
            pos = _const_int(args[1])
            c = _const_int(args[2])
            seg = ("b", c) if c is not None else ("v1", strip_sites(peel(args[2])))
            if pos == 0:
                return [seg] + nf(ev, selfv, depth + 1)
            return [("?", strip_sites(t))]
        if n == "Vec::<T, A>::resize" and idx == 0 and len(args) == 3:
            k = _const_int(args[1])
            c = _const_int(args[2])
            if k is not None and c is not None:
                # resize may also truncate; only a padding under a `len < k` guard is a pure pad.
                if ev is not None and len(t.a) > 3 and _guarded_short(ev, t.a[3], selfv, k):
                    return nf(ev, selfv, depth + 1) + [("padg", k, c)]
                return nf(ev, selfv, depth + 1) + [("resize", k, c)]
            if c is not None:
                base = nf(ev, selfv, depth + 1)
                kt = peel(args[1])
                # resize(max(K, <current length>), c): pads to at least K and never truncates
                if kt.op == "call" and cname(kt) in ("Ord::max", "core::max", "cmp::max", "std::max") and len(kt.a[1]) == 2:
                    for x, y in ((kt.a[1][0], kt.a[1][1]), (kt.a[1][1], kt.a[1][0])):
                        K = _const_int(x)
                        if K is not None and _len_equiv(_len_of_value(y, selfv), _total_len(base)):
                            return base + [("pad", K, c)]
                # any other computed target may cut bytes off the end
                return base + [("resize?", strip_sites(kt), c)]
        if n == "slice::<impl [T]>::copy_from_slice" and idx == 0 and len(args) == 2:
            # tiling: buffer[..a] / buffer[a..] / whole
            dst = peel(args[0])
            src = nf(ev, args[1], depth + 1)
            if dst.op == "call" and cname(dst) in ("IndexMut::index_mut", "Index::index") and len(dst.a[1]) == 2:
                buf = nf(ev, dst.a[1][0], depth + 1)
                rng = peel(dst.a[1][1])
                return _tile(buf, rng, src, t)
            buf = nf(ev, args[0], depth + 1)
            # whole-buffer copy: lengths must agree, result is the source
            return _tile_whole(buf, src, t)
        if n in ("slice::<impl [T]>::reverse",) and idx == 0:
            return [("rev", tuple(nf(ev, selfv, depth + 1)))]
        if n in ("IndexMut::index_mut", "DerefMut::deref_mut", "Vec::<T, A>::as_mut_slice", "AsMut::as_mut", "slice::<impl [T]>::iter_mut") and idx == 0:
            # handing out a `&mut` into the buffer does not change it (writes through the pointer are `store`s)
            return nf(ev, selfv, depth + 1)
        return [("?", strip_sites(t))]
    if op == "store" and len(t.a) == 3:
        # `buf[i] = v` through a pointer handed out by index_mut: one byte of the buffer is overwritten
        old, place, val = t.a
        place = peel(place)
        if place.op == "call" and cname(place) in ("IndexMut::index_mut", "Index::index") and len(place.a[1]) == 2:
            i = _const_int(place.a[1][1])
            if i is not None:
                buf = nf(ev, old, depth + 1)
                c = _const_int(val)
                seg = [("b", c)] if c is not None else [("v1", strip_sites(peel(val)))]
                rng = T("agg", ("adt", "Range", "Range", ("start", "end")), (T("const", "int", i, "usize"), T("const", "int", i + 1, "usize")))
                return _tile(buf, rng, seg, t)
        return [("?", strip_sites(t))]
    if op == "loop":
        hdr, loc, init = t.a
        step = ev.loop_step.get((hdr, loc)) if ev is not None else None
        base = nf(ev, init, depth + 1)
        if step is not None and step.op == "mutcall" and cname(step) == "Vec::<T, A>::push" and peel(step.a[2][0]) is t:
            c = _const_int(step.a[2][1])
            k = _pad_bound(ev, hdr, t)
            if c is not None and k is not None:
                return base + [("pad", k, c)]
        return base + [("?", T("loop", 0, 0, strip_sites(init)))]
    if op == "phi":
        alts = [tuple(nf(ev, x, depth + 1)) for x in t.a[0]]
        if all(a == alts[0] for a in alts):
            return list(alts[0])
        # `if v.len() < K { v.resize(K, c) }`: {S, S ‖ guarded-pad(K)} is S ‖ PadTo(K)
        ua = sorted(set(alts), key=len)
        if len(ua) == 2 and ua[1][:-1] == ua[0] and ua[1][-1][0] == "padg":
            return list(ua[0]) + [("pad", ua[1][-1][1], ua[1][-1][2])]
        return [("phi", tuple(sorted(set(alts), key=str)))]
    if op == "agg" and t.a[0][0] == "array":
        out = []
        for x in t.a[1]:
            c = _const_int(x)
            out.append(("b", c) if c is not None else ("v1", strip_sites(peel(x))))
        return out
    if op == "named":
        v = t.a[2]
        if isinstance(v, T) and v.op == "const" and v.a[0] == "bytes":
            return [("v", v)]
        return [("v", strip_sites(t))]
    return [("v", strip_sites(t))]


def _guarded_short(ev, where, selfv, k):
    """Is the block `where` = (fn key, bb) reached only when len(selfv) < k' for some k' <= k ?"""
    from . import guards as G

    if not isinstance(where, tuple) or len(where) != 2 or where[0] != ev.fn.key:
        return False
    want = strip_sites(peel(selfv))
    for atom, pol in G.path_literals(ev, where[1], None):
        if atom[0] != "atom" or atom[1] != "cmp":
            continue
        op, a, b = atom[2], atom[3], atom[4]
        if not pol:
            op = {"Ge": "Lt", "Gt": "Le", "Lt": "Ge", "Le": "Gt", "Eq": "Ne", "Ne": "Eq"}[op]
        a_, b_ = peel(a), peel(b)
        def is_len(x):
            return x.op == "call" and cname(x) in ("Vec::<T, A>::len", "slice::<impl [T]>::len") and len(x.a[1]) == 1 and strip_sites(peel(x.a[1][0])) == want
        if op == "Lt" and is_len(a_) and _const_int(b_) is not None and _const_int(b_) <= k:
            return True
        if op == "Gt" and is_len(b_) and _const_int(a_) is not None and _const_int(a_) <= k:
            return True
        if op == "Le" and is_len(a_) and _const_int(b_) is not None and _const_int(b_) < k:
            return True
    return False


def _pad_bound(ev, hdr, loopterm):
    """For `while v.len() < K { v.push(c) }`: find K from the loop header's exit test."""
    fn = ev.fn
    cfg = fn.cfg
    # the switch controlling the loop is in the header or a block it dominates inside the loop
    for b, d in ev.switch.items():
        d = peel(d)
        if d.op == "bin" and d.a[0] == "Lt":
            l, r = peel(d.a[1]), peel(d.a[2])
            if l.op == "call" and cname(l) == "Vec::<T, A>::len" and peel(l.a[1][0]) is loopterm:
                k = _const_int(r)
                if k is not None:
                    return k
    return None


def _range_kind(rng):
    if rng.op == "agg" and rng.a[0][0] == "adt":
        name = rng.a[0][1]
        ops = rng.a[1]
        if name == "RangeTo" and len(ops) == 1:
            return ("to", _len_term(ops[0]))
        if name == "RangeFrom" and len(ops) == 1:
            return ("from", _len_term(ops[0]))
        if name == "Range" and len(ops) == 2:
            return ("range", _len_term(ops[0]), _len_term(ops[1]))
        if name == "RangeFull":
            return ("full",)
    return None


def _lin(n):
    """Linear form (const, {atom: coef}) of a length term; None if not linear."""
    if n is None:
        return None
    k = n[0]
    if k == "c":
        return (n[1], {})
    if k == "len":
        return (0, {("len", n[1]): 1})
    if k == "t":
        return (0, {("t", n[1]): 1})
    if k == "lin":
        return (n[1], dict(n[2]))
    if k in ("add", "sub"):
        a, b = _lin(n[1]), _lin(n[2])
        if a is None or b is None:
            return None
        sg = 1 if k == "add" else -1
        d = dict(a[1])
        for key, co in b[1].items():
            d[key] = d.get(key, 0) + sg * co
            if d[key] == 0:
                del d[key]
        return (a[0] + sg * b[0], d)
    return None


def _unlin(l):
    c, d = l
    if not d:
        return ("c", c)
    if c == 0 and len(d) == 1:
        (key, co), = d.items()
        if co == 1:
            return (key[0], key[1])
    return ("lin", c, tuple(sorted(d.items(), key=str)))


def _lin_eq(a, b):
    la, lb = _lin(a), _lin(b)
    return la is not None and lb is not None and la == lb


def _lin_sub(a, b):
    la, lb = _lin(a), _lin(b)
    if la is None or lb is None:
        return None
    return _lin(("sub", _unlin(la), _unlin(lb)))


def _zseg(l):
    """Zero region of linear length l: [] if provably empty, None if provably negative, else one segment."""
    if l is None:
        return None
    if not l[1]:
        if l[0] == 0:
            return []
        if l[0] < 0:
            return None
    return [("z", _unlin(l))]


def _tile(buf, rng, src, orig):
    """copy_from_slice of `src` into buf[rng] where buf is  head ‖ zeros(m)  (head possibly empty): lengths are
    compared as linear forms over len(x) atoms, so `vec![0; 8 + n]`, `[0u8; 104]`, `[..n]`, `[n..]`, `[n..n+8]` all tile."""
    rk = _range_kind(rng)
    srclen = _total_len(src)
    unk = [("?", strip_sites(orig))]
    if rk is None:
        return unk
    # copy_from_slice panics unless |dst| == |src|: once it has returned, the source has the length of the range
    if rk[0] == "to":
        srclen = rk[1]
    elif rk[0] == "range":
        d = _lin_sub(rk[2], rk[1])
        srclen = _unlin(d) if d is not None else srclen
    if rk[0] == "from" and buf and buf[-1][0] == "z":
        # dst = buf[a..] is everything after a; having returned, |src| is the length of that region (whatever else is
        # known about the source's length - that the two agree is the abort census's business)
        hl0 = _total_len(buf[:-1])
        if hl0 is not None and _lin_eq(rk[1], hl0):
            srclen = buf[-1][1]
    if srclen is None:
        return unk
    if len(src) == 1 and src[0][0] == "v" and rk[0] in ("to", "range"):
        lf = _lin(srclen)
        if lf is not None and not lf[1]:
            _KNOWN_LEN.setdefault(strip_sites(peel(src[0][1])), ("c", lf[0]))
    if rk[0] == "full":
        return _tile_whole(buf, src, orig)
    if not buf or buf[-1][0] != "z":
        return unk
    head, m = buf[:-1], buf[-1][1]
    hl = _total_len(head)
    if hl is None:
        return unk
    if rk[0] == "to":
        if not _lin_eq(rk[1], srclen):
            return unk
        if head:
            # dst = buf[..a] over already written leading segments of total length a: they are overwritten
            for k in range(1, len(head) + 1):
                hl_k = _total_len(head[:k])
                if hl_k is not None and _lin_eq(hl_k, srclen):
                    return src + buf[k:]
            # the write starts at 0 and lands on bytes that were already written, without covering them exactly
            return [("clobber", strip_sites(orig))]
        rest = _zseg(_lin_sub(m, srclen))
        return unk if rest is None else src + rest
    if rk[0] == "from":
        # dst = buf[a..]: everything after a, so |src| must be the whole zero region
        if not _lin_eq(rk[1], hl) or not _lin_eq(m, srclen):
            return unk
        return head + src
    if rk[0] == "range":
        a, b = rk[1], rk[2]
        if not _lin_eq(_unlin(_lin_sub(b, a)) if _lin_sub(b, a) is not None else None, srclen):
            return unk
        if _lin_eq(a, hl):
            rest = _zseg(_lin_sub(m, srclen))
            return unk if rest is None else head + src + rest
        if not head:
            # into the middle of a zero buffer
            pre = _zseg(_lin(a))
            rest = _zseg(_lin_sub(_unlin(_lin_sub(m, a)) if _lin_sub(m, a) is not None else None, srclen))
            if pre is None or rest is None:
                return unk
            return pre + src + rest
        return unk
    return unk


def _tile_whole(buf, src, orig):
    bl = _total_len(buf)
    sl = _total_len(src)
    if bl is not None and sl is not None and bl == sl:
        return src
    return [("copy", tuple(buf), tuple(src))]


def _flat_len(n, atoms, const):
    if n is None:
        return False
    if n[0] == "c":
        const[0] += n[1]
    elif n[0] == "add":
        return _flat_len(n[1], atoms, const) and _flat_len(n[2], atoms, const)
    elif n[0] == "len":
        atoms.append(n[1])
    else:
        return False
    return True


def _len_equiv(a, b):
    """Two length terms denote the same number (sums compared as multisets)."""
    if a is None or b is None:
        return False
    if a == ("self",) or b == ("self",):
        return True
    aa, ac, ba, bc = [], [0], [], [0]
    if not (_flat_len(a, aa, ac) and _flat_len(b, ba, bc)):
        return False
    return ac[0] == bc[0] and sorted(map(id, aa)) == sorted(map(id, ba))


def _len_of_value(t, selfv):
    """Length term of `t`; `len(selfv)` itself is expanded to the total length of what selfv holds."""
    t = peel(t)
    if t.op == "call" and cname(t) in ("Vec::<T, A>::len", "slice::<impl [T]>::len") and len(t.a[1]) == 1 and peel(t.a[1][0]) is peel(selfv):
        return _total_len(nf(None, selfv, 0)) if False else ("self",)
    return _len_term(t)


def _total_len(segs):
    if not segs:
        return ("c", 0)
    ls = [_seg_len(s) for s in segs]
    if any(l is None for l in ls):
        return None
    if len(ls) == 1:
        return ls[0]
    # only simple 2-sums are needed
    tot = ls[0]
    for l in ls[1:]:
        if tot[0] == "c" and l[0] == "c":
            tot = ("c", tot[1] + l[1])
        else:
            tot = ("add", tot, l)
    return tot


def show_nf(segs, d=5):
    out = []
    for s in segs:
        k = s[0]
        if k == "v":
            out.append(show(s[1], d))
        elif k == "v1":
            out.append("[%s]" % show(s[1], d))
        elif k == "b":
            out.append("[0x%02x]" % s[1])
        elif k == "z":
            out.append("zeros(%s)" % _show_len(s[1]))
        elif k == "pad":
            out.append("PadTo(%d,0x%02x)" % (s[1], s[2]))
        elif k == "resize":
            out.append("Resize(%d,0x%02x)" % (s[1], s[2]))
        elif k == "resize?":
            out.append("Resize(%s,0x%02x)" % (show(s[1], 3), s[2]))
        elif k == "clobber":
            out.append("OVERWRITE!%s" % show(s[1], 3))
        elif k == "padg":
            out.append("PadTo(%d,0x%02x)[if shorter]" % (s[1], s[2]))
        elif k == "rev":
            out.append("rev(%s)" % show_nf(list(s[1]), d))
        elif k == "?":
            out.append("?%s" % show(s[1], 3))
        elif k == "phi":
            out.append("φ{%s}" % " | ".join(show_nf(list(a), d) for a in s[1]))
        elif k == "copy":
            out.append("copy(%s <- %s)" % (show_nf(list(s[1]), d), show_nf(list(s[2]), d)))
        else:
            out.append(str(s))
    return " ‖ ".join(out) if out else "ε"


def _show_len(n):
    if n[0] == "c":
        return str(n[1])
    if n[0] == "len":
        return "|%s|" % show(n[1], 3)
    if n[0] == "add":
        return "%s+%s" % (_show_len(n[1]), _show_len(n[2]))
    if n[0] == "sub":
        return "%s-%s" % (_show_len(n[1]), _show_len(n[2]))
    if n[0] == "lin":
        parts = [str(n[1])] if n[1] else []
        for (kind, t), co in n[2]:
            parts.append("%s%s" % ("" if co == 1 else ("-" if co == -1 else "%d*" % co), "|%s|" % show(t, 3) if kind == "len" else show(t, 3)))
        return "+".join(parts).replace("+-", "-")
    return show(n[1], 3)


TRUNCATING = ("Vec::<T, A>::truncate", "Vec::<T, A>::resize", "Vec::<T, A>::drain", "Vec::<T, A>::pop", "Vec::<T, A>::split_off", "Vec::<T, A>::clear", "Vec::<T, A>::set_len", "Vec::<T, A>::retain", "Vec::<T, A>::dedup", "Vec::<T, A>::remove", "Vec::<T, A>::swap_remove")


def may_truncate(segs):
    """Does the construction contain a step that can remove bytes (a resize to a computed length that is not provably
    >= the current length, truncate/drain/pop/..)?  Such a step in a framed payload loses data for some length."""
    for s in segs:
        if s[0] in ("resize?", "resize"):
            return True
        if s[0] == "?":
            for x in subterms(s[1]):
                if x.op == "mutcall" and cname(x) in TRUNCATING:
                    return True
        if s[0] == "rev" and may_truncate(list(s[1])):
            return True
        if s[0] == "phi" and any(may_truncate(list(a)) for a in s[1]):
            return True
    return False


def clobbers(segs):
    """Does the construction write over bytes it had already written (partially overlapping copy)?  The value is then
    not the concatenation of its parts, whatever the lengths are."""
    for s in segs:
        if s[0] == "clobber":
            return True
        if s[0] == "rev" and clobbers(list(s[1])):
            return True
        if s[0] == "phi" and any(clobbers(list(a)) for a in s[1]):
            return True
    return False


def is_strong(segs):
    for s in segs:
        if s[0] in ("?", "phi", "copy", "resize?", "clobber", "zsat"):
            return False
        if s[0] == "rev" and not is_strong(list(s[1])):
            return False
    return True


def expand_phi(segs, limit=16):
    """Alternatives of a normal form with its `phi` segments chosen one way or the other: [segs, ..] (None when there
    would be more than `limit`).  A byte string that is `a ‖ (x or y)` is decided as the two strings `a ‖ x`, `a ‖ y`."""
    outs = [[]]
    for sg in segs:
        if sg[0] == "phi":
            alts = []
            for a in sg[1]:
                sub = expand_phi(list(a), limit)
                if sub is None:
                    return None
                alts += sub
            outs = [o + a for o in outs for a in alts]
        else:
            outs = [o + [sg] for o in outs]
        if len(outs) > limit:
            return None
    return outs


def decide(segs, match):
    """(ok, weak) of comparing a normal form with a pinned shape: every phi-alternative must match; an alternative that
    is fully known and different is a mismatch (not a weak pass); only alternatives with unknown parts count as weak."""
    alts = expand_phi(segs)
    if alts is None:
        return False, not clobbers(segs)
    res = []
    for a in alts:
        if clobbers(a):
            res.append("bad")
        elif match(a):
            res.append("ok")
        elif is_strong(a):
            res.append("bad")
        else:
            res.append("weak")
    ok = all(r == "ok" for r in res)
    return ok, (not ok and "bad" not in res)


def seg_atoms(segs):
    """Atoms (value terms) of a normal form, in order."""
    out = []
    for s in segs:
        if s[0] in ("v", "v1", "?", "clobber"):
            out.append(s[1])
        elif s[0] == "rev":
            out += seg_atoms(list(s[1]))
        elif s[0] == "phi":
            for a in s[1]:
                out += seg_atoms(list(a))
        elif s[0] == "copy":
            out += seg_atoms(list(s[1])) + seg_atoms(list(s[2]))
    return out


# ---------------------------------------------------------------------------
# builder event lists


def events(t):
    """Unwind a builder value into (base term, [(method, other-args...)...]) in program order."""
    evs = []
    t = peel(t) if t.op in ("ref", "deref") else t
    while True:
        while t.op in ("ref", "deref"):
            t = t.a[0]
        if t.op == "mutcall":
            idx = t.a[1]
            args = t.a[2]
            others = tuple(a for i, a in enumerate(args) if i != idx)
            evs.append((cname(t), others, t))
            t = args[idx]
            continue
        break
    evs.reverse()
    return t, evs


# ---------------------------------------------------------------------------
# slice algebra: which part of which buffer does a slice expression denote?


def _digest_len(t):
    """Output size of a RustCrypto fixed-output hasher named in the call's generic arguments (Sha256 -> 32 ...)."""
    g = " ".join(str(x) for x in (t.a[0][1] or ()))
    for name, n in (("Sha256", 32), ("Sha512", 64), ("Sha384", 48), ("Sha224", 28), ("Sha3_256", 32), ("Sha3_512", 64), ("Blake2b512", 64), ("Blake2s256", 32)):
        if name in g:
            return n
    return None


_FIXED_LEN_CALLS = {
    "num::<impl u64>::to_le_bytes": 8, "num::<impl u64>::to_be_bytes": 8, "num::<impl u64>::to_ne_bytes": 8,
    "num::<impl usize>::to_le_bytes": 8, "num::<impl usize>::to_be_bytes": 8,
    "num::<impl u32>::to_le_bytes": 4, "num::<impl u32>::to_be_bytes": 4,
    "num::<impl u16>::to_le_bytes": 2, "num::<impl u16>::to_be_bytes": 2,
    "num::<impl u128>::to_le_bytes": 16, "num::<impl u128>::to_be_bytes": 16,
}


def int_form(t, wrap=False):
    """usize term -> length form (("c",k) | ("len",x) | ("t",x) | ("add",a,b) | ("sub",a,b)); `len` of a slice
    expression is expanded to end - start.  With wrap=True the plain (unchecked, wrapping in release builds) `+`/`-`
    are kept as ("wadd"/"wsub", a, b, term): they equal the mathematical result only when no wrap-around can
    happen, which the caller has to establish (resolve_wrapping)."""
    t = peel(t)
    ci = _const_int(t)
    if ci is not None:
        return ("c", ci)
    if (t.op == "call" and cname(t) in ("slice::<impl [T]>::len", "Vec::<T, A>::len") and len(t.a[1]) == 1) or t.op == "len":
        x = t.a[1][0] if t.op == "call" else t.a[0]
        sn = slice_form(x, wrap)
        if sn is not None:
            return ("sub", sn[2], sn[1])
        # the length of a buffer after calls that write into it without resizing it is the length it was created with
        y = peel(x)
        for _ in range(8):
            if y.op == "mutcall" and cname(y).split("::")[-1] in _LEN_PRESERVING + ("index_mut", "deref_mut", "as_mut", "as_mut_slice"):
                y = peel(y.a[2][y.a[1]])
            elif y.op == "store" and len(y.a) == 3:
                y = peel(y.a[0])  # an element written through a pointer into the buffer
            elif y.op == "call" and cname(y) in ("DerefMut::deref_mut", "Deref::deref", "AsMut::as_mut", "AsRef::as_ref", "Vec::<T, A>::as_mut_slice", "Vec::<T, A>::as_slice", "slice::<impl [T]>::to_vec", "Clone::clone") and len(y.a[1]) == 1:
                y = peel(y.a[1][0])
            else:
                break
        if y.op == "call" and cname(y) in ("alloc::from_elem", "vec::from_elem", "from_elem") and len(y.a[1]) == 2:
            return int_form(y.a[1][1], wrap)
        if y.op == "call" and cname(y) in _FIXED_LEN_CALLS:
            return ("c", _FIXED_LEN_CALLS[cname(y)])
        if y.op == "call" and cname(y) in ("FixedOutput::finalize_fixed", "Digest::finalize", "Digest::digest", "FixedOutputReset::finalize_fixed_reset"):
            # output of a fixed-size hash: the size is in the hasher's type
            n_ = _digest_len(y)
            if n_ is not None:
                return ("c", n_)
        if (y.op == "mutcall" and cname(y) in ("Vec::<T, A>::extend_from_slice", "Vec::<T, A>::push", "Extend::extend", "Write::write_all", "Vec::<T, A>::insert")) or (y.op == "call" and cname(y) in ("slice::<impl [T]>::to_vec", "slice::<impl [T]>::concat", "Iterator::chain")):
            # a byte string assembled from parts: its length is the sum of the parts' lengths
            try:
                tl = _total_len(nf(None, y))
            except Exception:
                tl = None
            if tl is not None and _lin(tl) is not None:
                return tl
        if y.op == "repeat" and isinstance(y.a[1], int):
            return ("c", y.a[1])
        if y.op == "repeat" and isinstance(y.a[1], str):
            # `[v; N]` with a const generic N: the length is that parameter (the same atom as the operand `N`)
            return ("t", T("const", "tyconst", y.a[1]))
        if y.op == "agg" and y.a[0][0] == "array":
            return ("c", len(y.a[1]))
        if y is not peel(x):
            return ("len", strip_sites(y))
        return ("len", strip_sites(peel(x)))
    if t.op == "call" and len(t.a[1]) == 2 and cname(t) in ("num::<impl usize>::saturating_sub", "num::<impl u64>::saturating_sub"):
        # `buf.len().saturating_sub(n)` where n = (Uint::peek(buf) as Some).0 <= buf.len() by the peek contract: the plain difference
        a_, b_ = peel(t.a[1][0]), peel(t.a[1][1])
        if b_.op == "field" and b_.a[1] == "0" and b_.a[0].op == "downcast" and b_.a[0].a[1] == "Some":
            pk = peel(b_.a[0].a[0])
            if pk.op == "call" and cname(pk) == "Uint::peek" and pk.a[1]:
                la = int_form(a_, wrap)
                if _lin_eq(la, int_form(T("len", peel(pk.a[1][0])), wrap)):
                    return ("sub", la, int_form(b_, wrap))
    if t.op == "field" and t.a[1] == "0" and t.a[0].op == "downcast" and t.a[0].a[1] == "Some":
        # `a.checked_add(b)` / `checked_sub` on the Some arm: the exact sum / difference
        c = peel(t.a[0].a[0])
        if c.op == "call" and len(c.a[1]) == 2 and cname(c) in ("num::<impl usize>::checked_add", "num::<impl usize>::checked_sub", "num::<impl u64>::checked_add", "num::<impl u64>::checked_sub"):
            return ("add" if cname(c).endswith("checked_add") else "sub", int_form(c.a[1][0], wrap), int_form(c.a[1][1], wrap))
    if t.op == "field" and t.a[1] == "0" and t.a[0].op == "bin" and t.a[0].a[0] in ("AddWithOverflow", "SubWithOverflow"):
        # checked form: the Assert on `.1` precedes every use of `.0`, so `.0` is the exact result
        return ("add" if t.a[0].a[0].startswith("Add") else "sub", int_form(t.a[0].a[1], wrap), int_form(t.a[0].a[2], wrap))
    if t.op == "bin" and t.a[0] in ("Add", "AddUnchecked", "Sub", "SubUnchecked"):
        k = "add" if t.a[0].startswith("Add") else "sub"
        if wrap and t.a[0] in ("Add", "Sub"):
            return ("w" + k, int_form(t.a[1], wrap), int_form(t.a[2], wrap), strip_sites(t))
        return (k, int_form(t.a[1], wrap), int_form(t.a[2], wrap))
    return ("t", strip_sites(t))


def resolve_wrapping(form, exact):
    """Replace ("wadd"/"wsub", a, b, term) by the exact operation when `term` is in `exact`, else by an opaque atom."""
    if not isinstance(form, tuple):
        return form
    if form[0] in ("wadd", "wsub"):
        a, b = resolve_wrapping(form[1], exact), resolve_wrapping(form[2], exact)
        if form[3] in exact:
            return (form[0][1:], a, b)
        return ("t", form[3])
    if form[0] in ("add", "sub"):
        return (form[0], resolve_wrapping(form[1], exact), resolve_wrapping(form[2], exact))
    return form


def wrapping_nodes(form, out=None):
    out = [] if out is None else out
    if isinstance(form, tuple) and form and form[0] in ("wadd", "wsub", "add", "sub"):
        wrapping_nodes(form[1], out)
        wrapping_nodes(form[2], out)
        if form[0] in ("wadd", "wsub"):
            out.append(form)
    return out


def _index_like(c, wrap):
    """slice form of `base[range]` for a call term `c` whose operands are (base, range aggregate)."""
    rk = peel(c.a[1][1])
    if not (rk.op == "agg" and rk.a[0][0] == "adt"):
        return None
    b = c.a[1][0]
    sb = slice_form(b, wrap)
    if sb is None:
        bb = strip_sites(peel(b))
        sb = (bb, ("c", 0), ("len", bb))
    base, s0, e0 = sb
    name, ops = rk.a[0][1], rk.a[1]
    f = lambda t: int_form(t, wrap)
    if name == "RangeTo":
        return (base, s0, ("add", s0, f(ops[0])))
    if name == "RangeFrom":
        return (base, ("add", s0, f(ops[0])), e0)
    if name == "Range":
        return (base, ("add", s0, f(ops[0])), ("add", s0, f(ops[1])))
    if name == "RangeFull":
        return (base, s0, e0)
    return None


def slice_form(x, wrap=False):
    """(base, start, end) with start/end length forms, for index/split_at/sub-slice expressions; None for a plain value."""
    x = peel(x)
    int_form_ = lambda t: int_form(t, wrap)
    def whole(b):
        sb = slice_form(b, wrap)
        if sb is not None:
            return sb
        bb = strip_sites(peel(b))
        if peel(b).op in ("store", "mutcall", "call"):
            return (bb, ("c", 0), int_form(T("len", peel(b)), wrap))
        return (bb, ("c", 0), ("len", bb))
    if x.op == "call" and cname(x) in ("Index::index", "IndexMut::index_mut") and len(x.a[1]) == 2:
        rk = peel(x.a[1][1])
        if not (rk.op == "agg" and rk.a[0][0] == "adt"):
            return None
        base, s0, e0 = whole(x.a[1][0])
        name, ops = rk.a[0][1], rk.a[1]
        if name == "RangeTo":
            return (base, s0, ("add", s0, int_form_(ops[0])))
        if name == "RangeFrom":
            return (base, ("add", s0, int_form_(ops[0])), e0)
        if name == "Range":
            return (base, ("add", s0, int_form_(ops[0])), ("add", s0, int_form_(ops[1])))
        if name == "RangeFull":
            return (base, s0, e0)
        return None
    if x.op == "field" and x.a[1] == "0" and x.a[0].op == "downcast" and x.a[0].a[1] == "Some":
        # `base.get(range)` on its Some arm is `&base[range]` (the bounds test is the arm itself)
        c = peel(x.a[0].a[0])
        if c.op == "call" and cname(c) in ("slice::<impl [T]>::get", "slice::<impl [T]>::get_mut") and len(c.a[1]) == 2:
            return _index_like(c, wrap)
    if x.op == "field" and x.a[1] == "1" and x.a[0].op == "field" and x.a[0].a[1] == "0" and x.a[0].a[0].op == "downcast" and x.a[0].a[0].a[1] == "Some":
        # `let Some((first, rest)) = base.split_first()`: rest = base[1..]; split_last: rest = base[..len-1]
        c = peel(x.a[0].a[0].a[0])
        if c.op == "call" and cname(c) in ("slice::<impl [T]>::split_first", "slice::<impl [T]>::split_last") and len(c.a[1]) == 1:
            base, s0, e0 = whole(c.a[1][0])
            return (base, ("add", s0, ("c", 1)), e0) if cname(c).endswith("split_first") else (base, s0, ("sub", e0, ("c", 1)))
    if x.op == "field" and x.a[1] in ("0", "1"):
        c = x.a[0]
        while c.op in ("ref", "deref"):
            c = c.a[0]
        if c.op == "call" and cname(c) in ("slice::<impl [T]>::split_at", "slice::<impl [T]>::split_at_mut", "slice::<impl [T]>::split_at_checked") and len(c.a[1]) == 2:
            base, s0, e0 = whole(c.a[1][0])
            mid = ("add", s0, int_form_(c.a[1][1]))
            return (base, s0, mid) if x.a[1] == "0" else (base, mid, e0)
    if x.op == "subslice" and x.a[3] is True and isinstance(x.a[1], int) and isinstance(x.a[2], int):
        base, s0, e0 = whole(x.a[0])
        return (base, ("add", s0, ("c", x.a[1])), ("sub", e0, ("c", x.a[2])))
    return None


def lin_eq(a, b):
    return _lin_eq(a, b)


def lin_sub(a, b):
    l = _lin_sub(a, b)
    return _unlin(l) if l is not None else None
