"""Concrete evaluation of closed, branch-free terms (constant tables + std combinators).

Used to read table-driven conversions: `TABLE.iter().find(|(_, t, _)| *t == value).map(|(v, _, _)| *v).ok_or_else(..)`
or `ALL.get(usize::from(value)).copied().unwrap_or(D)` are evaluated for a concrete `value`.  This is constant
folding over the extracted term (a finite table and a handful of library functions whose meaning is fixed by std),
not execution of the crate."""
from .terms import T, subterms
from .sym import evaluate, strip_sites
from . import bytesnf as B


class Unknown(Exception):
    pass


NONE = ("none",)


def _adt(P, name, disc):
    a = P.adts.get(name)
    if a and a["kind"] == "enum":
        for v in a["variants"]:
            if v.get("discr", v["index"]) == disc:
                return ("adt", name, v["name"], ())
    return None


def ceval(P, t, env, depth=0):
    if depth > 40:
        raise Unknown("depth")
    if t in env:
        return env[t]
    op = t.op
    if op in ("ref", "deref"):
        return ceval(P, t.a[0], env, depth + 1)
    if op == "const":
        if t.a[0] == "int":
            ty = t.a[2] if len(t.a) > 2 else None
            v = _adt(P, ty, t.a[1]) if ty in P.adts else None
            return v if v is not None else t.a[1]
        if t.a[0] == "bytes":
            return bytes.fromhex(t.a[1])
        if t.a[0] == "fn":
            return ("fn", t)
        raise Unknown("const " + str(t.a[0]))
    if op == "named":
        if isinstance(t.a[2], T):
            return ceval(P, t.a[2], env, depth + 1)
        raise Unknown("named without value")
    if op == "agg":
        k = t.a[0]
        vals = tuple(ceval(P, x, env, depth + 1) for x in t.a[1]) if k[0] != "closure" else None
        if k[0] in ("array", "tuple"):
            return vals
        if k[0] == "adt":
            if k[1] == "Option":
                return NONE if k[2] == "None" else ("some", vals[0])
            if k[1] == "Result":
                return ("ok", vals[0]) if k[2] == "Ok" else ("err", vals[0] if vals else None)
            return ("adt", k[1], k[2], vals)
        if k[0] == "closure":
            return ("closure", t, env)
        raise Unknown("agg")
    if op == "field":
        b = ceval(P, t.a[0], env, depth + 1)
        i = t.a[1]
        if isinstance(b, tuple) and b and b[0] == "some" and str(i) == "0":
            return b[1]
        if isinstance(b, tuple) and b and b[0] == "adt":
            return b[3][int(i)]
        if isinstance(b, tuple) and str(i).isdigit():
            return b[int(i)]
        raise Unknown("field")
    if op == "downcast":
        return ceval(P, t.a[0], env, depth + 1)
    if op == "discr":
        v = ceval(P, t.a[0], env, depth + 1)
        if isinstance(v, tuple) and v and v[0] == "adt":
            a = P.adts.get(v[1])
            if a:
                for vv in a["variants"]:
                    if vv["name"] == v[2]:
                        return vv.get("discr", vv["index"])
        if v == NONE:
            return 0
        if isinstance(v, tuple) and v and v[0] == "some":
            return 1
        raise Unknown("discr")
    if op == "index":
        b = ceval(P, t.a[0], env, depth + 1)
        i = ceval(P, t.a[1], env, depth + 1)
        return b[i]
    if op == "cast":
        return ceval(P, t.a[1], env, depth + 1)
    if op == "bin":
        a, b = ceval(P, t.a[1], env, depth + 1), ceval(P, t.a[2], env, depth + 1)
        f = {"Eq": lambda: a == b, "Ne": lambda: a != b, "Lt": lambda: a < b, "Le": lambda: a <= b, "Gt": lambda: a > b, "Ge": lambda: a >= b, "Add": lambda: a + b, "Sub": lambda: a - b}.get(t.a[0])
        if f is None:
            raise Unknown("bin " + t.a[0])
        r = f()
        return int(r) if isinstance(r, bool) else r
    if op == "un" and t.a[0] == "Not":
        return int(not ceval(P, t.a[1], env, depth + 1))
    if op == "call":
        return _call(P, t, env, depth)
    raise Unknown(op)


def _apply(P, f, args, depth):
    if isinstance(f, tuple) and f[0] == "closure":
        clo, cenv = f[1], f[2]
        g = P.fns.get(clo.a[0][1])
        if g is None or g.cfg.back_edges():
            raise Unknown("closure")
        gev = evaluate(g)
        env = {}
        envp = T("param", 1, gev.pname(1))
        for i, c in enumerate(clo.a[1]):
            try:
                cv = ceval(P, c, cenv, depth + 1)
            except Unknown:
                continue
            for base in (envp, T("deref", envp)):
                env[T("field", base, str(i))] = cv
        for i, a in enumerate(args):
            env[T("param", i + 2, gev.pname(i + 2))] = a
        return ceval(P, strip_sites(gev.ret), env, depth + 1)
    if isinstance(f, tuple) and f[0] == "fn":
        ft = f[1]
        if len(ft.a) > 2 and ft.a[2] and ft.a[2][0] == "ctor":
            return ("adt", ft.a[2][1], ft.a[2][2], tuple(args))
        g = P.fns.get(ft.a[1][0])
        if g is not None and not g.cfg.back_edges():
            gev = evaluate(g)
            env = {T("param", i + 1, gev.pname(i + 1)): a for i, a in enumerate(args)}
            return ceval(P, strip_sites(gev.ret), env, depth + 1)
    raise Unknown("apply")


def _call(P, t, env, depth):
    n = B.cname(t)
    raw = t.a[1]
    short = n.split("::")[-1]
    A = lambda i: ceval(P, raw[i], env, depth + 1)
    if n in ("From::from", "Into::into", "TryFrom::try_from", "TryInto::try_into", "FromStr::from_str") and len(raw) == 1 and len(t.a[0][1]) >= 2:
        # a conversion implemented in the crate: `<T as From<U>>::from`
        ga = t.a[0][1]
        tgt, src = (ga[0], ga[1]) if n in ("From::from", "TryFrom::try_from") else (ga[1], ga[0])
        tr = {"From::from": "From", "Into::into": "From", "TryFrom::try_from": "TryFrom", "TryInto::try_into": "TryFrom"}.get(n)
        for key in (("<%s as %s<%s>>::%s" % (tgt, tr, src, "from" if tr == "From" else "try_from")) if tr else None, "<%s as FromStr>::from_str" % ga[0]):
            g = P.fns.get(key) if key else None
            if g is not None and not g.cfg.back_edges():
                gev = evaluate(g)
                return ceval(P, strip_sites(gev.ret), {T("param", 1, gev.pname(1)): A(0)}, depth + 1)
    if (n in ("Into::into", "From::from", "Clone::clone", "Deref::deref", "AsRef::as_ref", "Borrow::borrow", "slice::<impl [T]>::iter", "IntoIterator::into_iter", "Iterator::copied", "Iterator::cloned", "str::<impl str>::as_bytes", "ToOwned::to_owned") or (n.startswith("Option::") and short in ("copied", "cloned", "as_ref", "as_deref"))) and len(raw) == 1:
        g = P.fns.get(n)
        if g is None:
            return A(0)
    if short == "get" and len(raw) == 2:
        arr, i = A(0), A(1)
        return ("some", arr[i]) if isinstance(i, int) and 0 <= i < len(arr) else NONE
    if short in ("unwrap_or",) and len(raw) == 2:
        o = A(0)
        return o[1] if o != NONE and o[0] in ("some", "ok") else A(1)
    if short in ("unwrap_or_else", "unwrap_or_default") and len(raw) >= 1:
        o = A(0)
        if o != NONE and o[0] in ("some", "ok"):
            return o[1]
        return _apply(P, A(1), [], depth) if len(raw) == 2 else 0
    if short == "map" and len(raw) == 2:
        o = A(0)
        f = A(1)
        if o == NONE or (isinstance(o, tuple) and o and o[0] == "err"):
            return o
        if isinstance(o, tuple) and o and o[0] in ("some", "ok"):
            return (o[0], _apply(P, f, [o[1]], depth))
        if isinstance(o, tuple):
            return tuple(_apply(P, f, [x], depth) for x in o)
    if short in ("map_or", "map_or_else") and len(raw) == 3:
        o = A(0)
        if isinstance(o, tuple) and o and o[0] in ("some", "ok"):
            return _apply(P, A(2), [o[1]], depth)
        return A(1) if short == "map_or" else _apply(P, A(1), [], depth)
    if short in ("ok_or", "ok_or_else") and len(raw) == 2:
        o = A(0)
        return ("ok", o[1]) if o != NONE else ("err", None)
    if short == "find" and len(raw) == 2:
        lst, f = A(0), A(1)
        for x in lst:
            if _apply(P, f, [x], depth):
                return ("some", x)
        return NONE
    if short == "position" and len(raw) == 2:
        lst, f = A(0), A(1)
        for i, x in enumerate(lst):
            if _apply(P, f, [x], depth):
                return ("some", i)
        return NONE
    if short == "find_map" and len(raw) == 2:
        lst, f = A(0), A(1)
        for x in lst:
            r = _apply(P, f, [x], depth)
            if r != NONE:
                return r
        return NONE
    if short in ("eq", "ne") and len(raw) == 2:
        r = A(0) == A(1)
        return int(r if short == "eq" else not r)
    if short == "then_some" and len(raw) == 2:
        return ("some", A(1)) if A(0) else NONE
    g = P.fns.get(n)
    if g is not None and not g.cfg.back_edges():
        gev = evaluate(g)
        r = strip_sites(gev.ret)
        if not any(x.op == "phi" for x in subterms(r)):
            env2 = {T("param", i + 1, gev.pname(i + 1)): A(i) for i in range(len(raw))}
            return ceval(P, r, env2, depth + 1)
    raise Unknown("call " + n)


def result_variant(v):
    """Variant name produced by a conversion result, or None for an error / no value."""
    if isinstance(v, tuple) and v:
        if v[0] in ("ok", "some"):
            return result_variant(v[1])
        if v[0] == "adt":
            return v[2]
    return None
