"""C14 - ElGamal: correct, additively homomorphic, proofs bind ciphertext and key."""
from ..core.sym import evaluate, strip_sites
from ..core.terms import show, subterms, T
from ..core import guards as G
from ..core import bytesnf as B
from .common import where, spec, collect_constants
from . import guardrules as R
from . import flow as F
from . import protocols as PR

EXPLANATION = (
    "Decides the transcript and plumbing clauses for all inputs: the merlin event sequences of the prover (seal_scalar_with_proof) "
    "and of the verifier (verify_proof) are equal as lists of (label, role) and equal to the pinned list - protocol label, dst salt, "
    "base point, pk, generator, c1, c2, r1, r2, 64-byte challenge reduced by scalar_from_bytes_wide - so a side that stops binding c2 "
    "or pk differs from the other, and a symmetric removal differs from the pin; the verifier recomputes r1 from {c1, challenge, "
    "blinder_proof} and r2 from {c2, challenge, message_proof, blinder_proof, pk, generator}, and as polynomials over those inputs r1 = G*blinder_proof - c1*c, r2 = H*message_proof + pk*blinder_proof - c2*c while the prover answers b + c*m and r + c*b (normal form insensitive to association, operand order and where a negation sits); accept iff challenge == recomputed with "
    "identity/zero guards on every input; verify_and_decrypt derives pk = G*sk, propagates the proof error and only then decrypts; "
    "all four Add and both AddAssign impls are field-wise (c1 from the c1s only, c2 from the c2s only); seal_scalar builds c1 = G*b and "
    "c2 = pk*b + H*m; decrypt = c2 - c1*sk; the message generator hashes to_bytes(G) under ENC_DST with the key-group hasher. "
    "Not decided: discrete-log soundness of the proof, numeric decryption of sums."
)
RULE = "E3/E5 merlin event-sequence equality (prover = verifier = pinned); E6 field-wise dependence; E4 guard dominance"


def roles(evts):
    out = []
    for k, label, payload in evts:
        if k == "msg":
            out.append((k, label, PR.payload_role(payload)))
        else:
            out.append((k, label, payload))
    return out


def check_default_is_neutral(ctx, P, rule="E5.neutral"):
    """`ElGamalCiphertext::default()` is the neutral element of the component-wise sum (sums are accumulated from it):
    derived, or hand-written with every component `Default::default()` / `Group::identity()`."""
    n = 0
    for k, f in sorted(P.fns.items()):
        if not (f.name == "default" and f.impl_trait == "Default" and (f.impl_self_adt or "").startswith("ElGamalCiphertext")):
            continue
        n += 1
        if f.from_expansion:
            ctx.ob(rule, k, True, "derived Default: every component is its type's default (the identity point)", where=where(f))
            continue
        r = B.peel(strip_sites(evaluate(f).ret))
        comps = list(r.a[1]) if r.op == "agg" else []
        ok = bool(comps) and all(B.peel(c).op == "call" and B.cname(B.peel(c)) in ("Default::default", "Group::identity") and not B.peel(c).a[1] for c in comps)
        ctx.ob(rule, k, ok, "hand-written Default of the ciphertext: components %s (want the identity / default of each)" % [show(B.peel(c), 3) for c in comps], where=where(f))
    ctx.ob(rule + ".anchor", "ElGamalCiphertext::default", n >= 1, "%d Default impl(s) of ElGamalCiphertext found" % n)


def run(ctx):
    P = ctx.P
    pinned = spec("pinned.json")
    check_default_is_neutral(ctx, P)
    pr = ctx.need_fn("E3.transcript", "BlsElGamal::seal_scalar_with_proof")
    vf = ctx.need_fn("E3.transcript", "BlsElGamal::verify_proof")
    want = [("new", pinned["merlin"]["protocol"], None), ("msg", "dst", pinned["salts"]["elgamal"]), ("msg", "base point", "G"), ("msg", "pk", "pk"), ("msg", "generator", "generator"), ("msg", "c1", "c1"), ("msg", "c2", "c2"), ("msg", "r1", "r1"), ("msg", "r2", "r2"), ("challenge", pinned["merlin"]["challenge"], pinned["merlin"]["challenge_len"])]
    seqs = {}
    helpers = {}
    for f in (pr, vf):
        if f is None:
            continue
        evts, ev, mode, via = PR.transcript_events_in(P, f)
        if mode in ("helper", "loop-helper"):
            helpers[f.key] = via
        if mode == "loop-helper":
            _check_loop_transcript(ctx, P, f, via)
            if evts is None:
                continue
        if evts is None:
            ctx.ob("E3.transcript.anchor", f.key, False, "no merlin transcript found in `%s` (nor in a helper it calls)" % f.key, where=where(f))
            continue
        rl = roles(evts)
        # normalise roles of the computed commitments
        norm = []
        for (k, label, role), (_, _, payload) in zip(rl, evts):
            if k == "msg" and label in ("c1", "c2", "r1", "r2") and role not in ("c1", "c2"):
                role = _classify_commit(f, payload, label)
            norm.append((k, label, role))
        seqs[f.key] = norm
        ctx.ob("E5.transcript", f.key, [(a, b) for a, b, c in norm] == [(a, b) for a, b, c in want] and _roles_ok(norm, want), "transcript of %s = %s" % (f.key.split("::")[-1], norm), where=where(f), sample={"events": [list(map(str, x)) for x in norm]})
        # the dst payload is the pinned salt
        ev_salt = [p for k, l, p in evts if k == "msg" and l == "dst"]
        salt = None
        if ev_salt and len(ev_salt[0]) == 1 and ev_salt[0][0][0] == "v":
            t = ev_salt[0][0][1]
            if t.op == "named" and t.a[2].op == "const":
                salt = bytes.fromhex(t.a[2].a[1]).decode("latin-1")
            elif t.op == "const":
                salt = bytes.fromhex(t.a[1]).decode("latin-1")
        ctx.ob("E5.transcript", f.key + "/salt", salt == pinned["salts"]["elgamal"], "transcript dst payload = %r (pinned %r)" % (salt, pinned["salts"]["elgamal"]), where=where(f))
        # challenge reduction
        red = [s for s in ev.sites.values() if s.callee[0] == "BlsElGamal::scalar_from_bytes_wide"]
        ok_red = bool(red) and any(t.op == "mutcall" and B.cname(t) == "Transcript::challenge_bytes" for t in subterms(red[0].args[0]))
        ctx.ob("E5.transcript", f.key + "/reduce", ok_red, "challenge scalar = scalar_from_bytes_wide(challenge_bytes output)", where=where(f))
    if len(helpers) == 2 and not seqs:
        (g1, s1), (g2, s2) = helpers[pr.key], helpers[vf.key]
        r1 = [_arg_roles(x) for x in s1.args] if s1 is not None else []
        r2 = [_arg_roles(x) for x in s2.args] if s2 is not None else []
        ctx.ob("E3.transcript", "prover==verifier", g1 is g2 and [len(x) for x in r1] == [len(x) for x in r2], "prover and verifier derive the challenge through the same helper `%s` with argument lists of the same shape" % g1.key, where=where(pr), weak=True)
    if len(seqs) == 2:
        a, b = list(seqs.values())
        ctx.ob("E3.transcript", "prover==verifier", [(x[0], x[1]) for x in a] == [(x[0], x[1]) for x in b], "prover and verifier transcripts are the same (kind, label) sequence", where=where(pr))
    # verifier recomputation dependence
    if vf is not None:
        ev = evaluate(vf)
        evts = PR.transcript_events_in(P, vf)[0] or []
        byl = {l: p for k, l, p in evts if k == "msg"}
        def deps(label):
            segs = byl.get(label) or []
            ps = set()
            for t in B.seg_atoms(segs):
                for x in subterms(t):
                    if x.op == "param":
                        ps.add(x.a[1])
                    if x.op == "call" and B.cname(x) == "Group::generator":
                        ps.add("G")
            return ps
        d1, d2 = deps("r1"), deps("r2")
        ctx.ob("E6.recompute", "r1", {"c1", "challenge", "blinder_proof", "G"} <= d1 and "c2" not in d1, "verifier's r1 depends on %s (want c1, challenge, blinder_proof, G)" % sorted(d1), where=where(vf))
        ctx.ob("E6.recompute", "r2", {"c2", "challenge", "message_proof", "blinder_proof", "pk", "generator"} <= d2, "verifier's r2 depends on %s (want c2, challenge, message_proof, blinder_proof, pk, generator)" % sorted(d2), where=where(vf))
        # accept iff challenge == recomputed
        oks = R.ok_exits(P, vf, ev)
        good = bool(oks)
        for b, lits in oks:
            hit = False
            for atom, pol in lits:
                if atom[0] == "atom" and atom[1] == "eq":
                    x, y = atom[2], atom[3]
                    names = {t.a[1] for t in subterms(x) | subterms(y) if t.op == "param"}
                    from ..core.sym import inline

                    xi, yi = inline(P, x, 1), inline(P, y, 1)
                    rec = any(t.op == "call" and B.cname(t) == "BlsElGamal::scalar_from_bytes_wide" for t in subterms(xi) | subterms(yi))
                    if "challenge" in names and rec and pol:
                        hit = True
            good = good and hit
        ctx.ob("E4.accept", vf.key, good, "Ok(()) only when challenge == scalar_from_bytes_wide(transcript challenge)", where=where(vf))
        for kind, subj in (("is_identity", ("param", "pk")), ("is_identity", ("opt-param", "generator")), ("is_identity", ("param", "c1")), ("is_identity", ("param", "c2")), ("is_zero", ("param", "message_proof")), ("is_zero", ("param", "blinder_proof")), ("is_zero", ("param", "challenge"))):
            R.check_result_guard(ctx, "E4.result", P, vf.key, kind, subj)
    _check_responses(ctx, P, pr, vf)
    # verify_and_decrypt
    vd = ctx.need_fn("E4.vad", "BlsElGamal::verify_and_decrypt")
    if vd is not None:
        ev = evaluate(vd)
        R.check_result_guard(ctx, "E4.result", P, vd.key, "is_zero", ("param", "sk"))
        vp = [s for s in ev.sites.values() if s.callee[0] == "BlsElGamal::verify_proof"]
        dc = [s for s in ev.sites.values() if s.callee[0] == "BlsElGamal::decrypt"]
        ok = len(vp) == 1 and len(dc) == 1
        if ok:
            pk = strip_sites(vp[0].args[0])
            ok_pk = pk.op == "call" and B.cname(pk) == "Mul::mul" and B.peel(pk.a[1][0]).op == "call" and B.cname(B.peel(pk.a[1][0])) == "Group::generator" and B.peel(pk.a[1][1]).op == "param" and B.peel(pk.a[1][1]).a[1] == "sk"
            rest = [B.peel(strip_sites(a)).a[1] if B.peel(strip_sites(a)).op == "param" else None for a in vp[0].args[1:]]
            lits = G.path_literals(ev, dc[0].bb, None, checks_only=True)
            dom = any(a[1] == "switch" and any(t.op == "call" and B.cname(t) == "BlsElGamal::verify_proof" for t in subterms(a[2])) and a[3] == 0 for a, p in lits)
            dargs = [B.peel(strip_sites(a)).a[1] if B.peel(strip_sites(a)).op == "param" else None for a in dc[0].args]
            ok = ok_pk and rest == ["generator", "c1", "c2", "message_proof", "blinder_proof", "challenge"] and dom and dargs == ["sk", "c1", "c2"]
        ctx.ob("E4.vad", vd.key, ok, "verify_proof(G*sk, generator, c1, c2, proofs, challenge)? then decrypt(sk, c1, c2) only on the Ok arm", where=where(vd))
    # decrypt = c2 - c1*sk
    dcf = ctx.need_fn("E6.decrypt", "BlsElGamal::decrypt")
    if dcf is not None:
        from ..core import poly as PL
        from .equations import std_atom

        r = strip_sites(evaluate(dcf).ret)
        got = PL.named(PL.poly(r, std_atom()))
        ctx.ob("E6.decrypt", dcf.key, got == {("c2",): 1, ("c1", "sk"): -1}, "decrypt = %s (documented: c2 - c1*sk)" % PL.show_poly(PL.poly(r, std_atom()), show), where=where(dcf))
    dk = ctx.need_fn("E6.decrypt", "ElGamalDecryptionKey<C>::decrypt")
    if dk is not None:
        from ..core import poly as PL

        def _proj_atom(t):
            pr_ = F.projection_root(t)
            if pr_ and pr_[0].op == "param":
                return "%s%s" % (pr_[0].a[1], pr_[1])
            return None

        r = strip_sites(evaluate(dk).ret)
        got = PL.named(PL.poly(r, _proj_atom))
        ctx.ob("E6.decrypt", dk.key, got == {("ciphertext.c2",): 1, ("self.0",): -1}, "decryption-key decrypt = %s (documented: ciphertext.c2 - key)" % PL.show_poly(PL.poly(r, _proj_atom), show), where=where(dk))
    # seal_scalar
    ss = ctx.need_fn("E6.seal", "BlsElGamal::seal_scalar")
    if ss is not None:
        ev = evaluate(ss)
        from ..core.sym import inline

        oks = [strip_sites(R.ok_value(ev.fn, ev, b)) for b in R.ok_blocks(ss)]
        # or: seal_scalar hands (pk, H*m, blinder, rng) to the sibling seal_point
        oks.append(strip_sites(inline(P, ev.ret, 1, only=lambda g: g.key == "BlsElGamal::seal_point")))
        from ..core import poly as PL
        from .equations import std_atom

        def _seal_atom(t):
            if R.subject_matches(t, ("opt-param", "blinder")):
                return "b"
            if R.subject_matches(t, ("opt-param", "generator")):
                return "H"
            return None

        at = std_atom(_seal_atom)
        ok = False
        shown = None
        for v in oks:
            tup = [t for t in subterms(v) if t.op == "agg" and t.a[0][0] == "tuple" and len(t.a[1]) == 2]
            if tup:
                c1, c2 = tup[0].a[1]
                p1, p2 = PL.named(PL.poly(c1, at)), PL.named(PL.poly(c2, at))
                shown = "(%s, %s)" % (PL.show_poly(PL.poly(c1, at), show), PL.show_poly(PL.poly(c2, at), show))
                ok = p1 == {("G", "b"): 1} and p2 == {("b", "pk"): 1, ("H", "message"): 1}
        ctx.ob("E6.seal", ss.key, ok, "seal_scalar returns %s (documented: (G*b, pk*b + H*m) with one blinder b)" % shown, where=where(ss))
    sp_ = P.fns.get("BlsElGamal::seal_point")
    if sp_ is not None:
        from .equations import ok_tuples

        evp = evaluate(sp_)
        for b_, v in ok_tuples(sp_, evp, 2):
            c1, c2 = (strip_sites(x) for x in v.a[1])
            p1, p2 = PL.named(PL.poly(c1, at)), PL.named(PL.poly(c2, at))
            ctx.ob("E6.seal", sp_.key, p1 == {("G", "b"): 1} and p2 == {("b", "pk"): 1, ("message",): 1}, "seal_point returns (%s, %s) (documented: (G*b, pk*b + M))" % (PL.show_poly(PL.poly(c1, at), show), PL.show_poly(PL.poly(c2, at), show)), where=where(sp_, b_))
    # message generator
    mg = ctx.need_fn("E5.generator", "BlsElGamal::message_generator")
    if mg is not None:
        r = strip_sites(evaluate(mg).ret)
        ok = r.op == "call" and B.cname(r) == "HashToPoint::hash_to_point" and r.a[0][1][:1] == ("<Self as BlsElGamal>::PublicKeyHasher",)
        segs = B.nf(evaluate(mg), evaluate(mg).sites[[b for b, s in evaluate(mg).sites.items() if s.callee[0] == "HashToPoint::hash_to_point"][0]].args[0]) if ok else []
        ok = ok and len(segs) == 1 and segs[0][0] == "v" and segs[0][1].op == "call" and B.cname(segs[0][1]) == "GroupEncoding::to_bytes" and B.peel(segs[0][1].a[1][0]).op == "call" and B.cname(B.peel(segs[0][1].a[1][0])) == "Group::generator"
        tag = B.peel(r.a[1][1]) if r.op == "call" else None
        ok = ok and tag is not None and tag.op == "assoc" and tag.a[0] == "BlsElGamal::ENC_DST"
        ctx.ob("E5.generator", mg.key, ok, "H = PublicKeyHasher::hash_to_point(to_bytes(G), ENC_DST): %s" % show(r, 4), where=where(mg))
    F.check_combiner_lengths(ctx, "E4.len-range", P)
    # "the fixed message generator": the label it is hashed under is the pinned one, per implementation
    from .common import spec as _spec, collect_constants as _cc

    _pinned = _spec("pinned.json")
    _consts = _cc(P)
    for key, wantv in _pinned["own_tags"].items():
        impl, item = key.split("/")
        tr, name = item.split("::")
        got = [c for c in _consts if c["impl"] == impl and c["trait"] == tr and c["name"] == name]
        ctx.ob("E1.enc_dst", key, bool(got) and got[0]["str"] == wantv, "`%s` = %r (pinned %r)" % (key, got[0]["str"] if got else None, wantv))
    # threshold decryption: the decryption key is recombined from the share *set* (any order, every share forwarded)
    fk = "ElGamalDecryptionKey<C>::from_shares"
    f = ctx.need_fn("E6.combine", fk)
    if f is not None:
        ev = evaluate(f)
        sites = [s_ for s_ in ev.sites.values() if s_.callee[0].endswith("core_combine_public_key_shares")]
        x, steps = F.image_source(P, f, ev, sites[0].args[0]) if sites else (None, "no combine call")
        ctx.ob("E6.combine", fk, x is not None and x.op == "param" and x.a[1] == "shares", "core_combine_public_key_shares receives a 1:1 image of the whole `shares` list (%s)" % (steps,), where=where(f))
        F.check_order_insensitive(ctx, "E4.set-order", P, (fk, "BlsSignatureCore::core_combine_public_key_shares"))
    # decryption of any honest ciphertext or homomorphic sum returns (a sum may well decrypt to the identity: 1 + (r-1))
    from . import aborts as A

    A.check_aborts(ctx, "E8", P, ["ElGamalCiphertext<C>::decrypt", "ElGamalProof<C>::verify_and_decrypt", "ElGamalProof<C>::verify", "ElGamalDecryptionKey<C>::decrypt", "<ElGamalCiphertext<C> as Add>::add"], scope="C14")
    # field-wise homomorphism
    adds = [f for f in P.fns.values() if f.impl_trait in ("Add", "AddAssign") and "ElGamalCiphertext" in (f.impl_self or "") and f.name in ("add", "add_assign")]
    ctx.floor("E6.homomorphic", "Add/AddAssign impls of ElGamalCiphertext", len(adds), 6)
    # each impl is either field-wise itself or hands (self, rhs) whole and in order to another impl of the family; the
    # delegation graph is acyclic and every chain ends in a field-wise impl (a cycle is an endless recursion)
    kind = {}
    target = {}
    for f in adds:
        ev = evaluate(f)
        ctx.saw(f)
        r = strip_sites(ev.ret)
        fam = [s_ for _, s_ in sorted(ev.sites.items()) if s_.callee[0] in ("Add::add", "AddAssign::add_assign") and ((s_.raw.get("callee") or {}).get("resolved") or {}).get("key") in {g.key for g in adds}]
        if fam:
            s_ = fam[0]
            roots = [F.projection_root(strip_sites(a)) for a in s_.args]
            whole = all(roots) and [x[0].a[1] for x in roots] == ["self", "rhs"] and all(x[1] == "" for x in roots)
            kind[f.key] = "delegates" if whole and len(fam) == 1 else "bad-delegation"
            target[f.key] = s_.raw["callee"]["resolved"]["key"]
            continue
        from ..core import poly as PL

        def _pa(t):
            pr_ = F.projection_root(t)
            if pr_ and pr_[0].op == "param":
                return "%s%s" % (pr_[0].a[1], pr_[1])
            return None

        def _is_sum(t, name):
            return t is not None and PL.named(PL.poly(t, _pa)) == {("self.%s" % name,): 1, ("rhs.%s" % name,): 1}

        if f.name == "add":
            ok = r.op == "agg" and r.a[0][1:2] == ("ElGamalCiphertext",)
            if ok:
                fields = dict(zip(r.a[0][3], r.a[1]))
                ok = _is_sum(fields.get("c1"), "c1") and _is_sum(fields.get("c2"), "c2")
            kind[f.key] = "field-wise" if ok else "other: " + show(r, 4)
        else:
            # the value `*self` is left with, field by field (writes through the `&mut self` parameter are modelled)
            fin = [strip_sites(v) for v in ev.param_effects.get(1, [])]
            names = [x["name"] for x in P.adts["ElGamalCiphertext"]["variants"][0]["fields"]] if "ElGamalCiphertext" in P.adts else ["c1", "c2"]
            ok = bool(fin)
            shown = []
            for v in fin:
                for idx, nm in enumerate(names):
                    fv = _final_field(v, idx, nm)
                    shown.append("%s=%s" % (nm, PL.show_poly(PL.poly(fv, _pa), show) if fv is not None else None))
                    ok = ok and _is_sum(fv, nm)
            kind[f.key] = "field-wise" if ok else "other: in-place updates %s" % shown
    for f in adds:
        chain = [f.key]
        cur = f.key
        while kind.get(cur) == "delegates" and target[cur] not in chain:
            cur = target[cur]
            chain.append(cur)
        cyc = kind.get(cur) == "delegates"
        ok = kind.get(cur) == "field-wise" and not cyc
        ctx.ob("E6.homomorphic", f.key, ok, "%s: %s%s" % (f.key, " -> ".join(k_.split(" as ")[-1] if k_ != f.key else "self" for k_ in chain), " -> ... (cycle: endless recursion)" if cyc else " [" + str(kind.get(cur)) + "]"), where=where(f))
    ctx.assume("merlin transcript and scalar_from_bytes_wide are deterministic; soundness rests on discrete log")


def _check_responses(ctx, P, pr, vf):
    """The proof equations themselves, as polynomial normal forms (core/poly.py): the prover answers
    message_proof = b + c*m and blinder_proof = r + c*b (b: blinder of the ciphertext and message of the commitment pair,
    r: blinder of the commitment pair, c: the reduced transcript challenge), and the verifier recomputes
    r1 = G*blinder_proof - c1*c and r2 = H*message_proof + pk*blinder_proof - c2*c.  A proof produced under another sign
    or pairing convention is internally consistent but is not the documented construction (and does not interoperate)."""
    from ..core import poly as PL

    if pr is not None:
        ev = evaluate(pr)
        tups = []
        for b in R.ok_blocks(pr):
            v = R.ok_value(ev.fn, ev, b)
            v = B.peel(v) if v is not None else None
            if v is not None and v.op == "agg" and v.a[0][0] == "adt" and len(v.a[1]) == 1:
                v = B.peel(v.a[1][0])
            if v is not None and v.op == "agg" and v.a[0][0] == "tuple" and len(v.a[1]) == 5:
                tups.append(v)
        ctx.ob("E5.response.anchor", pr.key, bool(tups), "Ok((c1, c2, message_proof, blinder_proof, challenge)) tuple(s) of the prover found: %d" % len(tups), where=where(pr))
        seals = [s_ for _, s_ in sorted(ev.sites.items()) if s_.callee[0] == "BlsElGamal::seal_scalar"]

        def some_payload(t):
            t = B.peel(t)
            if t.op == "agg" and t.a[0][0] == "adt" and t.a[0][1] == "Option" and len(t.a[1]) == 1:
                return B.peel(t.a[1][0])
            return None

        bterm = rterm = None
        for s_ in seals:
            m = B.peel(s_.args[1])
            if m.op == "param" and m.a[1] == "message":
                bterm = some_payload(s_.args[3])
        for s_ in seals:
            m = B.peel(s_.args[1])
            if bterm is not None and (m is bterm or strip_sites(m) == strip_sites(bterm)):
                rterm = some_payload(s_.args[3])
        ctx.ob("E5.response.anchor", pr.key + "/blinders", bterm is not None and rterm is not None and rterm is not bterm, "ciphertext = seal_scalar(pk, message, H, Some(b)), commitments = seal_scalar(pk, b, H, Some(r)) with b = %s, r = %s" % (show(strip_sites(bterm), 3) if bterm is not None else None, show(strip_sites(rterm), 3) if rterm is not None else None), where=where(pr))

        def atom(t):
            if t.op == "call" and B.cname(t) == "BlsElGamal::scalar_from_bytes_wide":
                return "c"
            if t.op == "param" and t.a[1] == "message":
                return "m"
            if bterm is not None and (t is bterm or strip_sites(t) == strip_sites(bterm)):
                return "b"
            if rterm is not None and t is rterm:
                return "r"
            return None

        for v in tups:
            mp = PL.named(PL.poly(v.a[1][2], atom))
            bp = PL.named(PL.poly(v.a[1][3], atom))
            ch = PL.named(PL.poly(v.a[1][4], atom))
            ctx.ob("E5.response", pr.key + "/message_proof", mp == {("b",): 1, ("c", "m"): 1}, "message_proof = %s (documented: b + c*m)" % PL.show_poly(PL.poly(v.a[1][2], atom), lambda t, d: show(strip_sites(t), d)), where=where(pr))
            ctx.ob("E5.response", pr.key + "/blinder_proof", bp == {("r",): 1, ("b", "c"): 1}, "blinder_proof = %s (documented: r + c*b)" % PL.show_poly(PL.poly(v.a[1][3], atom), lambda t, d: show(strip_sites(t), d)), where=where(pr))
            ctx.ob("E5.response", pr.key + "/challenge", ch == {("c",): 1}, "returned challenge = %s (the reduced transcript challenge itself)" % PL.show_poly(PL.poly(v.a[1][4], atom), lambda t, d: show(strip_sites(t), d)), where=where(pr))
    if vf is not None:
        evts = PR.transcript_events_in(P, vf)[0] or []
        byl = {l: p for k, l, p in evts if k == "msg"}

        def vatom(t):
            if t.op == "param":
                return t.a[1]
            if t.op == "call" and B.cname(t) == "Group::generator":
                return "G"
            if R.subject_matches(t, ("opt-param", "generator")):
                return "generator"
            return None

        want = {
            "r1": {("G", "blinder_proof"): 1, ("c1", "challenge"): -1},
            "r2": {("generator", "message_proof"): 1, ("blinder_proof", "pk"): 1, ("c2", "challenge"): -1},
        }
        for label in ("r1", "r2"):
            ats = B.seg_atoms(byl.get(label) or [])
            x = None
            if len(ats) == 1 and ats[0].op == "call" and B.cname(ats[0]) == "GroupEncoding::to_bytes":
                x = B.peel(ats[0].a[1][0])
            if x is None:
                ctx.ob("E5.response.anchor", vf.key + "/" + label, False, "payload of the `%s` transcript message is not to_bytes(<point>)" % label, where=where(vf))
                continue
            got = PL.named(PL.poly(strip_sites(x), vatom))
            ctx.ob("E5.response", vf.key + "/" + label, got == want[label], "verifier's %s = %s (documented: %s)" % (label, PL.show_poly(PL.poly(strip_sites(x), vatom), show), PL.show_poly(want[label])), where=where(vf))


def _final_field(v, idx, name):
    """Field `idx` of a struct value after a chain of field updates (`upd`), None when the chain cannot be read."""
    from ..core.terms import mk_field

    while v.op == "upd":
        base, path, val = v.a
        if path and path[0][0] == "f" and path[0][1] == idx:
            if len(path) == 1:
                return val
            return None
        if not path or path[0][0] != "f":
            return None
        v = base
    return mk_field(v, idx, name)


def _field_of(t):
    while t.op in ("ref", "deref"):
        t = t.a[0]
    if t.op == "field":
        return t.a[1]
    return None


def _fieldwise(t, name):
    if t is None or not (t.op == "call" and B.cname(t) == "Add::add"):
        return False
    fs = [_field_of(a) for a in t.a[1]]
    rs = [F.projection_root(a) for a in t.a[1]]
    return fs == [name, name] and all(rs) and {r[0].a[1] for r in rs} == {"self", "rhs"}


def _classify_commit(f, payload, label):
    """Prover: c1/c2 are the two components of seal_scalar(pk, message, ..), r1/r2 of seal_scalar(pk, b, ..);
    verifier: r1/r2 are recomputed (dependence checked separately)."""
    atoms_ = B.seg_atoms(payload)
    if not atoms_:
        return "?"
    t = atoms_[0]
    if t.op == "call" and B.cname(t) == "GroupEncoding::to_bytes":
        x = B.peel(t.a[1][0])
        seals = [y for y in subterms(x) if y.op == "call" and B.cname(y) == "BlsElGamal::seal_scalar"]
        if f.key.endswith("seal_scalar_with_proof"):
            if len(seals) != 1 or x.op != "field":
                return "?" + show(x, 3)
            comp = x.a[1]
            msg = B.peel(seals[0].a[1][1])
            first = msg.op == "param" and msg.a[1] == "message"
            want = {"c1": ("0", True), "c2": ("1", True), "r1": ("0", False), "r2": ("1", False)}[label]
            return label if (comp, first) == want else "?%s[%s,first=%s]" % (label, comp, first)
        return label
    return "?"


def _roles_ok(norm, want):
    for (k, l, r), (wk, wl, wr) in zip(norm, want):
        if k == "msg" and r != wr:
            return False
        if k == "challenge" and r != wr:
            return False
    return True



def _arg_roles(t):
    """Elements of an array / slice argument (or the argument itself)."""
    x = B.peel(strip_sites(t))
    if x.op == "agg" and x.a[0][0] == "array":
        return list(x.a[1])
    return [x]


def _check_loop_transcript(ctx, P, f, via):
    """The transcript is built by a loop in a helper (labels zipped with points).  Decided structurally: the two zipped
    lists have statically known, equal lengths (zip silently stops at the shorter one), every iteration appends its
    element, and every value the pinned transcript binds is an element of the list handed over."""
    g, site = via
    gev = evaluate(g)
    zips = [s for s in gev.sites.values() if s.callee[0] == "Iterator::zip"]
    lens = []
    for z in zips:
        for a in z.args[:2]:
            src = B.peel(a)
            while src.op == "call" and B.cname(src) in ("slice::<impl [T]>::iter", "IntoIterator::into_iter", "Iterator::copied", "Iterator::cloned"):
                src = B.peel(src.a[1][0])
            n = None
            if src.op == "named" and isinstance(src.a[2], T) and src.a[2].op == "agg":
                n = len(src.a[2].a[1])
            elif src.op == "named":
                import re as _re

                for c in P.facts.get("consts", []):
                    if c.get("name") == src.a[0]:
                        m = _re.search(r"; (\d+)\]$", (c.get("value") or {}).get("ty", ""))
                        n = int(m.group(1)) if m else None
            elif src.op == "param" and site is not None:
                arg = site.args[src.a[0] - 1] if src.a[0] - 1 < len(site.args) else None
                if arg is not None:
                    el = _arg_roles(arg)
                    n = len(el) if len(el) > 1 else F.table_len(arg)
            elif src.op == "agg" and src.a[0][0] == "array":
                n = len(src.a[1])
            else:
                n = F.table_len(src)
            lens.append(n)
    if not zips:
        from .protocols import _tuple_table_source

        tab = _tuple_table_source(g, gev)
        if tab is not None:
            # one written-out table of (label, value) pairs: nothing is zipped, nothing can be dropped
            lens = [len(tab)]
    known = bool(lens) and all(n is not None for n in lens)
    ctx.ob("E3.transcript", "%s/zip-lengths" % f.key, known and len(set(lens)) == 1, "transcript helper `%s` zips lists of length %s: %s" % (g.key, lens, "equal" if known and len(set(lens)) == 1 else "they must be statically known and equal - `zip` silently drops the tail of the longer list, i.e. a value the proof must bind"), where=where(g))
    res = F.loops_push_every_iteration(g, accept=lambda s: s.callee[0].endswith("Transcript::append_message"))
    ctx.ob("E3.transcript", "%s/every-element" % f.key, bool(res) and all(r[1] for r in res), "every iteration of the helper's loop appends its element to the transcript", where=where(g))
