"""E3/E4/E5 for the own protocols: framing, keystreams, timestamp challenge, timeout, transcript."""
from ..core.sym import evaluate, strip_sites, inline
from ..core.terms import T, show, subterms
from ..core import guards as G
from ..core import bytesnf as B
from .common import where, spec
from . import guardrules as R
from . import flow as F

PINNED = None


def pinned():
    global PINNED
    if PINNED is None:
        PINNED = spec("pinned.json")
    return PINNED


# ---------------------------------------------------------------------------
# framing


def _is_uint_of_len(t, pname):
    """Uint::from(len(message)) .to_vec()"""
    t = B.peel(t)
    if t.op == "call" and B.cname(t) in ("From::from", "Into::into") and any("Uint" in g for g in t.a[0][1]):
        inner = B.peel(t.a[1][0])
        if inner.op == "call" and B.cname(inner) in ("slice::<impl [T]>::len", "Vec::<T, A>::len"):
            x = B.peel(inner.a[1][0])
            return x.op == "param" and x.a[1] == pname
    return False


def check_frame_writer(ctx, rule, P, fn_key, msg_param, sink_pred, sink_desc):
    """Payload handed to the masking helper is zigzag(len(M)) ‖ M ‖ PadTo(32, 0)."""
    fn = ctx.need_fn(rule, fn_key, P)
    if fn is None:
        return
    ev = evaluate(fn)
    sites = [s for s in ev.sites.values() if sink_pred(s)]
    if not sites:
        ctx.ob(rule + ".anchor", "%s/%s" % (fn_key, sink_desc), False, "masking call `%s` not found in `%s`" % (sink_desc, fn_key), where=where(fn))
        return
    s = sites[0]
    segs = B.nf(ev, s.args[1])
    pad = pinned()["pad_len"]
    shape = lambda sg: (
        len(sg) == 3
        and sg[0][0] == "v"
        and _is_uint_of_len(sg[0][1], msg_param)
        and sg[1][0] == "v"
        and B.peel(sg[1][1]).op == "param"
        and B.peel(sg[1][1]).a[1] == msg_param
        and sg[2] == ("pad", pad, 0)
    )
    # accepted equivalent: resize(32,0) guarded by len<32 is normalised by the evaluator as ("resize",..): treat as weak
    ok, weak = B.decide(segs, shape)
    if B.may_truncate(segs) and not ok:
        ctx.ob(rule, "%s/frame-truncation" % fn_key, False, "the framed payload goes through a step that can cut bytes off (resize to a length not provably >= the current length, truncate, drain, ..): %s" % B.show_nf(segs), where=where(fn, s.bb))
    ctx.ob(
        rule,
        "%s/frame" % fn_key,
        ok or weak,
        "framed payload = %s (pinned: zigzag(|M|) ‖ M ‖ PadTo(%d,0x00))" % (B.show_nf(segs), pad),
        where=where(fn, s.bb),
        sample={"fn": fn_key, "frame": B.show_nf(segs)},
        weak=weak,
    )


def check_frame_reader(ctx, rule, P, fn_key, buf_desc, strict=True):
    """Reader is the inverse of the writer: n = peek(P); L = Uint::try_from(P[..n]).0; require L <= |P| - n;
    message = P[n .. n+L]; otherwise a constant-0 flag.  Slices are compared in a slice algebra
    (`P[a..b]`, `split_at`, nested slices, `len` of a slice), so the indexing style does not matter."""
    fn = ctx.need_fn(rule, fn_key, P)
    if fn is None:
        return
    ev = evaluate(fn)
    peeks = [s for s in ev.sites.values() if s.callee[0] == "Uint::peek"]
    if not peeks:
        ctx.ob(rule + ".anchor", fn_key + "/peek", False, "length-prefix peek not found in `%s`" % fn_key, where=where(fn))
        return
    pk = strip_sites(peeks[0].value)
    buf = strip_sites(B.peel(peeks[0].args[0]))
    n = ("t", T("field", T("downcast", pk, "Some"), "0"))
    blen = ("len", buf)
    # decoded length: try_from(P[..n])
    tf = [s for s in ev.sites.values() if s.callee[0] == "TryFrom::try_from" and any("Uint" in g for g in s.callee[1])]
    ok_tf = False
    if tf:
        sf = B.slice_form(tf[0].args[0])
        ok_tf = sf is not None and sf[0] == buf and B.lin_eq(sf[1], ("c", 0)) and B.lin_eq(sf[2], n)
    ctx.ob(rule, fn_key + "/prefix", ok_tf, "length is decoded from exactly the peeked prefix %s[..n] with the zig-zag codec" % buf_desc, where=where(fn, tf[0].bb if tf else None))
    # the message: the value of the CtOption built with a non-constant flag
    main = [(bb, v, fl) for bb, v, fl in R.ctoption_sites(P, fn) if G.formula(fl, P) != G.FALSE]
    msg = None
    msg_get = False
    for bb, s_ in sorted(ev.sites.items()):
        if s_.callee[0] not in ("Index::index", "slice::<impl [T]>::get", "slice::<impl [T]>::split_at"):
            continue
        via_get = s_.callee[0] == "slice::<impl [T]>::get"
        # `x.get(r)`: the message is the payload of the Some arm, and that arm is the bounds test of `r` against x
        sf = B.slice_form(T("field", T("downcast", s_.value, "Some"), "0") if via_get else s_.value)
        if sf is None or sf[0] != buf or not B.lin_eq(sf[1], n) or B.lin_eq(sf[2], blen):
            continue
        # it is the value handed out with the non-constant flag
        sv = strip_sites(s_.value)
        if any(any(x == sv for x in subterms(strip_sites(v))) for _, v, _ in main):
            msg = (bb, sf)
            if via_get:
                inner = B.slice_form(s_.args[0])
                get_end = inner[2] if inner is not None else ("len", strip_sites(B.peel(s_.args[0])))
                get_base_ok = (inner[0] if inner is not None else strip_sites(B.peel(s_.args[0]))) == buf and B.lin_eq(get_end, blen)
                msg_get = get_base_ok
    if msg is None:
        ctx.ob(rule + ".anchor", fn_key + "/slice", False, "message slice of %s not found in `%s`" % (buf_desc, fn_key), where=where(fn))
        return
    mbb, (_, st, en) = msg
    # a message of ANY length (the empty one included) comes back: no branch looks at the recovered message itself
    msv = strip_sites(ev.sites[mbb].value)
    from . import flow as F_

    blind_bad = [b for b, d in sorted(ev.switch.items()) if d is not None and b != mbb and F_.reads_directly(d, (), targets=(msv,))]
    ctx.ob(rule, fn_key + "/message-blind", not blind_bad, "no branch of %s tests the recovered message (its emptiness, length or bytes)%s" % (fn_key, "" if not blind_bad else ": " + show(strip_sites(ev.switch[blind_bad[0]]), 4)[:140]), where=where(fn, blind_bad[0] if blind_bad else mbb))
    L = B.lin_sub(en, st)
    Lterms = [k[1] for k in (B._lin(L) or (0, {}))[1]] if L is not None else []
    decoded = L is not None and len(Lterms) == 1 and any(s.op == "call" and B.cname(s) == "TryFrom::try_from" for s in subterms(Lterms[0]))
    clamped = any(s.op == "call" and B.cname(s).split("::")[-1] in ("min", "clamp", "saturating_sub") for t_ in Lterms for s in subterms(t_))
    ctx.ob(rule, fn_key + "/slice", B.lin_eq(st, n) and decoded and (not clamped or not strict), "message = %s[n .. n+L] with L the decoded length itself (no clamping): start=%s length=%s" % (buf_desc, B._show_len(B._unlin(B._lin(st))) if B._lin(st) else "?", B._show_len(L) if L is not None else "?"), where=where(fn, mbb))
    if not strict:
        return
    # the bound L <= |P| - n holds where the slice is taken: some dominating comparison is exactly  n + L - |P| <= 0
    target = B._lin(("sub", ("add", n, L), blen)) if L is not None else None
    lits = G.path_literals(ev, mbb, P, checks_only=True)
    bound = False
    shown = []
    for atom, pol in lits:
        if atom[0] != "atom" or atom[1] != "cmp":
            continue
        op, a, b = atom[2], atom[3], atom[4]
        if not pol:
            op = R._NEG[op]
        shown.append("%s %s %s" % (show(a, 3), op, show(b, 3)))
        if target is None:
            continue
        fa, fb = B.int_form(a), B.int_form(b)
        if op == "Le" and B._lin(("sub", fa, fb)) == target:
            bound = True
        if op == "Ge" and B._lin(("sub", fb, fa)) == target:
            bound = True
    if msg_get:
        # P[n..].get(..L) (or P.get(n..n+L)) measured against the end of the buffer itself: Some  <=>  n + L <= |P|
        bound = True
        shown.append("Some arm of get(..) against the end of %s" % buf_desc)
    ctx.ob(rule, fn_key + "/bound", bound, "slice is dominated by L <= |%s| - n (found conditions: %s)" % (buf_desc, shown[:4]), where=where(fn, mbb), sample={"conditions": shown[:4]})
    # the failing branch yields a constant-false flag
    ct = R.ctoption_sites(P, fn)
    consts = [c for c in ct if G.formula(c[2], P) == G.FALSE]
    ctx.ob(rule, fn_key + "/reject", len(consts) >= 1, "a malformed length prefix yields CtOption with a constant-0 flag (%d such site(s))" % len(consts), where=where(fn))


def _same_buf(a, buf):
    return strip_sites(B.peel(a)) == strip_sites(buf)


def _range(rng):
    rng = B.peel(rng)
    if rng.op == "agg" and rng.a[0][0] == "adt":
        name = rng.a[0][1]
        ops = rng.a[1]
        if name == "RangeTo":
            return ("to", strip_sites(ops[0]))
        if name == "RangeFrom":
            return ("from", strip_sites(ops[0]))
        if name == "Range":
            return ("range", strip_sites(ops[0]), strip_sites(ops[1]))
    return None


def _is_len(t, buf):
    t = B.peel(t)
    return t.op == "call" and B.cname(t) in ("Vec::<T, A>::len", "slice::<impl [T]>::len") and _same_buf(t.a[1][0], buf)


def _is_len_minus(t, buf, n):
    from .aborts import _binop

    ab = _binop(t, ("SubWithOverflow", "Sub", "SubUnchecked"))
    return bool(ab) and _is_len(ab[0], buf) and ab[1] == n


def _is_sum(t, n, L):
    from .aborts import _binop

    ab = _binop(t, ("AddWithOverflow", "Add", "AddUnchecked"))
    return bool(ab) and {ab[0], ab[1]} == {n, L}


# ---------------------------------------------------------------------------
# keystream helpers


def inplace_xor(fn, ev):
    """`for (m, b) in K.iter_mut().zip(D.iter()) { *m ^= *b }`: returns [(K buffer term, D term)].
    Recognised on the MIR: a store `*p = *p ^ x` in a loop whose `p` and `x` are the two components of the element of
    zip(iter_mut(K), iter(D)), the store dominating the back edge (every element is updated)."""
    out = []
    cfg = fn.cfg
    zips = [s for s in ev.sites.values() if s.callee[0] == "Iterator::zip" and len(s.args) == 2]
    for src, h in cfg.back_edges():
        body = cfg.natural_loop(src, h)
        for b in body:
            for st in fn.blocks[b]["stmts"]:
                if st["k"] != "assign" or st["place"].get("p") != ["*"]:
                    continue
                rv = st["rv"]
                if rv.get("bin") != "BitXor":
                    continue
                a = rv["a"].get("copy") or rv["a"].get("move") or {}
                if a != st["place"] or not cfg.dominates(b, src):
                    continue
                for z in zips:
                    l, r = B.peel(z.args[0]), B.peel(z.args[1])
                    if l.op in ("call", "mutcall") and B.cname(l) == "slice::<impl [T]>::iter_mut":
                        K = l.a[1][0] if l.op == "call" else l.a[2][0]
                        D = r.a[1][0] if r.op == "call" and B.cname(r) in ("slice::<impl [T]>::iter", "IntoIterator::into_iter") else r
                        out.append((K, D))
    return out


def check_xof_mask(ctx, rule, P, fn_key, key_param, data_param, hash_name, key_is_point):
    """mask helper = byte_xor(data, H(key)[|data|]) with H = Shake128 (XOF) or Sha256."""
    fn = ctx.need_fn(rule, fn_key, P)
    if fn is None:
        return
    ev = evaluate(fn)
    ret = strip_sites(ev.ret)
    x = [s for s in subterms(ret) if s.op == "call" and B.cname(s) == "helpers::byte_xor"]
    ok_xor = bool(x)
    ipx = []
    if not ok_xor:
        # the same mask computed in place: the key-stream buffer is xor-ed with the data and returned
        ipx = [(K, D) for K, D in inplace_xor(fn, ev) if any(t.op in ("call", "mutcall") and B.cname(t) in ("XofReader::read", "FixedOutput::finalize_fixed", "Digest::finalize") for t in subterms(K)) and any(t.op == "mutcall" and B.cname(t) == "slice::<impl [T]>::iter_mut" for t in subterms(ret))]
        ok_xor = len(ipx) == 1
    upd = [s for s in ev.sites.values() if s.callee[0] in ("Update::update", "Digest::update")]
    fed = []
    for u in upd:
        fed += B.nf(ev, u.args[1])
    if key_is_point:
        ok_key = len(fed) == 1 and fed[0][0] == "v" and fed[0][1].op == "call" and B.cname(fed[0][1]) == "GroupEncoding::to_bytes" and B.peel(fed[0][1].a[1][0]).op == "param" and B.peel(fed[0][1].a[1][0]).a[1] == key_param
    else:
        ok_key = len(fed) == 1 and fed[0][0] == "v" and fed[0][1].op == "param" and fed[0][1].a[1] == key_param
    # hasher type from the Default::default generic args
    dflt = [s for s in ev.sites.values() if s.callee[0] in ("Default::default", "Digest::new")]
    hty = dflt[0].callee[1][0] if dflt and dflt[0].callee[1] else ""
    oneshot = [s for s in ev.sites.values() if s.callee[0] == "Digest::digest"]
    if not upd and len(oneshot) == 1:
        # `H::digest(data)` is new + update(data) + finalize in one call
        fed = B.nf(ev, oneshot[0].args[0])
        hty = oneshot[0].callee[1][0] if oneshot[0].callee[1] else ""
        if key_is_point:
            ok_key = len(fed) == 1 and fed[0][0] == "v" and fed[0][1].op == "call" and B.cname(fed[0][1]) == "GroupEncoding::to_bytes" and B.peel(fed[0][1].a[1][0]).op == "param" and B.peel(fed[0][1].a[1][0]).a[1] == key_param
        else:
            ok_key = len(fed) == 1 and fed[0][0] == "v" and fed[0][1].op == "param" and fed[0][1].a[1] == key_param
    ok_hash = hash_name in hty
    data_in = ok_xor and any(s.op == "param" and s.a[1] == data_param for s in subterms(x[0].a[1][0])) if x else (bool(ipx) and any(s.op == "param" and s.a[1] == data_param for s in subterms(ipx[0][1])))
    ctx.ob(rule, fn_key, ok_xor and ok_key and ok_hash and data_in, "%s = byte_xor(%s, %s(%s)): hasher=%s fed=%s" % (fn_key, data_param, hash_name, key_param, hty[:60], B.show_nf(fed)), where=where(fn), sample={"fed": B.show_nf(fed), "hasher": hty[:80]})
    if hash_name == "Shake128":
        # keystream length = |data|
        rd = [s for s in ev.sites.values() if s.callee[0] == "XofReader::read"]
        ok_len = bool(rd) and any(s.op == "call" and B.cname(s) == "alloc::from_elem" and B._len_term(s.a[1][1]) == ("len", T("param", _pidx(fn, data_param), data_param)) for s in subterms(rd[0].args[1]))
        ctx.ob(rule, fn_key + "/len", ok_len, "keystream length equals the payload length", where=where(fn))


def _pidx(fn, name):
    for i in range(1, fn.arg_count + 1):
        if fn.locals[i].get("name") == name:
            return i
    return 0


def check_byte_xor(ctx, rule, P):
    fn = ctx.need_fn(rule, "helpers::byte_xor", P)
    if fn is None:
        return
    ev = evaluate(fn)
    pushes = [s for s in ev.sites.values() if s.callee[0] == "Vec::<T, A>::push"]
    ok_loop = bool(pushes) and pushes[0].args[1].op == "bin" and pushes[0].args[1].a[0] == "BitXor" and all(r[1] for r in F.loops_push_every_iteration(fn))
    # equivalent idiom: zip(..).map(|(a, b)| a ^ b).collect()
    ok_map = False
    for g in P.fns.values():
        if g.kind == "Closure" and g.j.get("parent_key") == fn.key:
            r = strip_sites(evaluate(g).ret)
            if (r.op == "bin" and r.a[0] == "BitXor") or (r.op == "call" and B.cname(r) == "BitXor::bitxor" and len(r.a[1]) == 2):
                # collected, or handed as a whole to `extend` / `from_iter` of the result vector
                ok_map = any(s.callee[0] == "Iterator::map" for s in ev.sites.values()) and any(s.callee[0] in ("Iterator::collect", "Extend::extend", "Vec::<T, A>::extend", "FromIterator::from_iter", "Vec::<T>::from_iter") for s in ev.sites.values())
    # (`a.iter().zip(b)` or the free function `core::iter::zip(a, b)`)
    zips = [s for s in ev.sites.values() if s.callee[0] == "Iterator::zip" or (s.callee[0].split("::")[-1] == "zip" and s.callee[0].split("::")[0] in ("core", "std", "iter") and len(s.args) == 2)]
    both = False
    if zips:
        roots = {x.a[1] for a in zips[0].args for x in subterms(a) if x.op == "param"}
        both = roots == {fn.locals[1].get("name"), fn.locals[2].get("name")}
    others = [a for a in F.adapter_calls(fn) if a[1] in F.ELEMENT_DROPPING and a[1] != "zip"]
    # the same walk by position: `for i in 0..min(a.len(), b.len()) { o.push(a[i] ^ b[i]) }` - the positions zip has
    by_index = False
    if ok_loop and not zips and len(pushes) == 1:
        from . import guardrules as R

        names = {fn.locals[1].get("name"), fn.locals[2].get("name")}
        x = strip_sites(pushes[0].args[1])
        ops = [B.peel(z) for z in x.a[1:3]]
        srcs = R.loop_sources(fn)
        if len(srcs) == 1 and all(z.op == "index" and B.peel(z.a[0]).op == "param" for z in ops) and {B.peel(z.a[0]).a[1] for z in ops} == names and ops[0].a[1] == ops[1].a[1]:
            ix = B.peel(ops[0].a[1])
            nx = ix.a[0].a[0] if (ix.op == "field" and ix.a[1] == "0" and ix.a[0].op == "downcast") else None
            rng = B.peel(srcs[0][1])
            while rng.op == "call" and B.cname(rng) == "IntoIterator::into_iter" and len(rng.a[1]) == 1:
                rng = B.peel(rng.a[1][0])
            if nx is not None and B.peel(nx).op == "call" and B.cname(B.peel(nx)) == "Iterator::next" and rng.op == "agg" and rng.a[0][0] == "adt" and rng.a[0][1] == "Range" and len(rng.a[1]) == 2 and B._const_int(rng.a[1][0]) == 0:
                e = B.peel(rng.a[1][1])

                def len_of(z):
                    z = B.peel(z)
                    if z.op == "call" and B.cname(z) in ("slice::<impl [T]>::len",) and len(z.a[1]) == 1 and B.peel(z.a[1][0]).op == "param":
                        return B.peel(z.a[1][0]).a[1]
                    return None

                if e.op == "call" and B.cname(e) in ("core::min", "cmp::min", "Ord::min", "min") and len(e.a[1]) == 2:
                    by_index = {len_of(z) for z in e.a[1]} == names
                elif len_of(e) in names:
                    # over one list's length (the other one is indexed by the same positions; a shorter one is the
                    # abort census's business, as with the pinned debug assertion)
                    by_index = True
    ctx.ob(rule, "helpers::byte_xor", ((ok_loop or ok_map) and len(zips) == 1 and both and not others) or (by_index and not others), "byte_xor yields a[i]^b[i] for every position of zip(arr1, arr2) (loop-push=%s, map/collect=%s, by position over 0..min(len)=%s)" % (ok_loop, ok_map, by_index), where=where(fn))


# ---------------------------------------------------------------------------
# timestamp challenge and timeout


def check_compute_y(ctx, rule, P):
    fn = ctx.need_fn(rule, "BlsSignatureProof::compute_y", P)
    if fn is None:
        return
    ev = evaluate(fn)
    ret = strip_sites(ev.ret)
    ok = ret.op == "call" and B.cname(ret) == "HashToScalar::hash_to_scalar"
    segs = []
    salt = None
    if ok:
        hs = [s for s in ev.sites.values() if s.callee[0] == "HashToScalar::hash_to_scalar"][0]
        segs = B.nf(ev, hs.args[0])
        st = B.peel(hs.args[1])
        if st.op == "named" and st.a[2].op == "const":
            salt = bytes.fromhex(st.a[2].a[1]).decode("latin-1")
    shape = lambda sg: (
        len(sg) == 2
        and sg[0][0] == "v"
        and sg[0][1].op == "call"
        and B.cname(sg[0][1]) == "GroupEncoding::to_bytes"
        and B.peel(sg[0][1].a[1][0]).op == "param"
        and B.peel(sg[0][1].a[1][0]).a[1] == "u"
        and sg[1][0] == "v"
        and sg[1][1].op == "call"
        and B.cname(sg[1][1]) == "num::<impl u64>::to_le_bytes"
        and B.peel(sg[1][1].a[1][0]).op == "param"
        and B.peel(sg[1][1].a[1][0]).a[1] == "t"
    )
    want, weak = B.decide(segs, shape)
    ctx.ob(rule, "compute_y/layout", ok and (want or weak), "challenge input = %s (pinned: to_bytes(u) ‖ to_le_bytes(t))" % B.show_nf(segs), where=where(fn), sample={"layout": B.show_nf(segs)}, weak=weak)
    ctx.ob(rule, "compute_y/salt", salt == pinned()["salts"]["pok"], "challenge salt = %r (pinned %r)" % (salt, pinned()["salts"]["pok"]), where=where(fn))


def check_timestamp_sides(ctx, rule, P):
    """Generator and verifier obtain y through compute_y(u, t) with the stored/received t; the
    generator's t is now() in milliseconds since UNIX_EPOCH."""
    g = ctx.need_fn(rule, "BlsSignatureProof::generate_timestamp_based_y", P)
    if g is not None:
        ev = evaluate(g)
        ret = strip_sites(ev.ret)
        ok = ret.op == "agg" and len(ret.a[1]) == 2
        if ok:
            y, t = ret.a[1]
            ok = y.op == "call" and B.cname(y) == "BlsSignatureProof::compute_y" and y.a[1][1] == t and B.peel(y.a[1][0]).op == "param"
            units = [B.cname(s) for s in subterms(t) if s.op == "call" and B.cname(s).startswith("Duration::as_")]
            ok = ok and units == ["Duration::as_millis"] and any(s.op == "named" and s.a[0] == "UNIX_EPOCH" for s in subterms(t)) and any(s.op == "call" and B.cname(s) == "SystemTime::now" for s in subterms(t))
        ctx.ob(rule, "generate_timestamp_based_y", ok, "returns (compute_y(u, t), t) with t = (now - UNIX_EPOCH).as_millis(): %s" % show(ret, 5), where=where(g))
    v = ctx.need_fn(rule, "BlsSignatureProof::verify_timestamp_proof", P)
    if v is None:
        return
    ev = evaluate(v)
    ver = [s for s in ev.sites.values() if s.callee[0] == "BlsSignatureProof::verify"]
    ok = False
    if ver:
        a = [strip_sites(x) for x in ver[0].args]
        y = a[3]
        ok = y.op == "call" and B.cname(y) == "BlsSignatureProof::compute_y" and [B.peel(z).a[1] if B.peel(z).op == "param" else None for z in y.a[1]] == ["commitment", "t"] and [B.peel(z).a[1] if B.peel(z).op == "param" else None for z in (a[0], a[1], a[2], a[4], a[5])] == ["commitment", "proof", "pk", "msg", "dst"]
    ctx.ob(rule, "verify_timestamp_proof/y", ok, "verifier recomputes y = compute_y(commitment, t) from the received timestamp and forwards every component unmodified", where=where(v))


def check_timeout(ctx, rule, P):
    """On the Some(timeout) arm there is an Err exit taken when elapsed(now, t) exceeds the timeout,
    with elapsed and timeout in the same unit (milliseconds) and t entering through from_millis;
    on the None arm no clock dependence."""
    v = ctx.need_fn(rule, "BlsSignatureProof::verify_timestamp_proof", P)
    if v is None:
        return
    ev = evaluate(v)
    cfg = v.cfg
    # find the comparison switch whose discr involves timeout_ms payload and now()
    found = None
    for b, d in ev.switch.items():
        ds = strip_sites(d)
        if ds.op == "bin" and ds.a[0] in ("Gt", "Ge", "Lt", "Le"):
            has_now = any(s.op == "call" and B.cname(s) == "SystemTime::now" for s in subterms(ds))
            has_to = any(s.op == "param" and s.a[1] == "timeout_ms" for s in subterms(ds))
            if has_now and has_to:
                found = (b, ds)
    if not found:
        ctx.ob(rule, "timeout/branch", False, "no comparison of the elapsed time with the timeout found in verify_timestamp_proof (timeout branch missing)", where=where(v))
        return
    b, ds = found
    op, x, y = ds.a
    def side(t):
        return ("timeout" if any(s.op == "param" and s.a[1] == "timeout_ms" for s in subterms(t)) else "") + ("elapsed" if any(s.op == "call" and B.cname(s) == "SystemTime::now" for s in subterms(t)) else "")
    sx, sy = side(x), side(y)
    # normalise to: elapsed OP timeout
    if sx == "timeout" and sy == "elapsed":
        op = R._FLIP[op]
        x, y = y, x
        sx, sy = sy, sx
    sides_ok = sx == "elapsed" and sy == "timeout"
    # which edge leads to Err(InvalidProof) without reaching verify?
    t = v.blocks[b]["term"]
    ver_blocks = [bb for bb, s in ev.sites.items() if s.callee[0] == "BlsSignatureProof::verify"]
    true_tgt = t["otherwise"]
    false_tgt = [tg for val, tg in t["arms"] if val == 0]
    false_tgt = false_tgt[0] if false_tgt else None
    reach_true = cfg.reach_from(true_tgt)
    reach_false = cfg.reach_from(false_tgt) if false_tgt is not None else set()
    true_rejects = not (reach_true & set(ver_blocks))
    false_rejects = not (reach_false & set(ver_blocks))
    # reject when elapsed > timeout (Gt/Ge true-edge rejects) or accept only when elapsed <= timeout (Le/Lt false-edge rejects)
    direction = (op in ("Gt", "Ge") and true_rejects and not false_rejects) or (op in ("Lt", "Le") and false_rejects and not true_rejects)
    ctx.ob(rule, "timeout/direction", sides_ok and direction, "timeout test `%s %s %s`: %s edge rejects (want: elapsed exceeding the timeout is rejected)" % (sx, op, sy, "true" if true_rejects else ("false" if false_rejects else "neither")), where=where(v, b), sample={"cmp": show(ds, 5)})
    # units (conversions applied inside combinator closures such as `.map(|d| d.as_millis() as u64)` count)
    xs = set(subterms(x))
    for c_ in list(xs):
        if c_.op == "agg" and c_.a[0][0] == "closure" and c_.a[0][1] in P.fns:
            xs |= set(subterms(strip_sites(evaluate(P.fns[c_.a[0][1]]).ret)))
    conv = sorted(B.cname(s) for s in xs if s.op == "call" and B.cname(s).startswith("Duration::as_"))
    ctors = sorted(B.cname(s) for s in xs if s.op == "call" and B.cname(s).startswith("Duration::from_"))
    t_in = any(s.op == "call" and B.cname(s) == "Duration::from_millis" and B.peel(s.a[1][0]).op == "param" and B.peel(s.a[1][0]).a[1] == "t" for s in xs)
    epoch = any(s.op == "named" and s.a[0] == "UNIX_EPOCH" for s in xs)
    ctx.ob(rule, "timeout/units", conv == ["Duration::as_millis"] and ctors == ["Duration::from_millis"] and t_in and epoch, "elapsed = (now - (UNIX_EPOCH + from_millis(t))).as_millis(): conversions %s, constructors %s (the timeout parameter and the stored timestamp are milliseconds)" % (conv, ctors), where=where(v, b))
    # the branch is only on the Some arm; the None arm reaches verify without the clock
    some_ctx = [e for e in G.edge_conditions(ev, b) if G.variant_of_switch(P, v, e[0], e[1]) and G.variant_of_switch(P, v, e[0], e[1])[0] == "Option"]
    ctx.ob(rule, "timeout/some-arm", bool(some_ctx), "the clock is consulted only when a timeout is given (comparison is under the Some arm of timeout_ms)", where=where(v, b))
    now_blocks = [bb for bb, s in ev.sites.items() if s.callee[0] == "SystemTime::now"]
    ok_none = all(any(G.variant_of_switch(P, v, e[0], e[1]) and G.variant_of_switch(P, v, e[0], e[1])[0] == "Option" for e in G.edge_conditions(ev, nb)) for nb in now_blocks)
    ctx.ob(rule, "timeout/none-arm", ok_none and bool(now_blocks), "without a timeout no clock call is executed", where=where(v))


# ---------------------------------------------------------------------------
# merlin transcript


def transcript_events_in(P, f):
    """Transcript of f, looked for in f itself or in one crate-local helper f hands its values to.
    Returns (events | None, evaluation that holds the transcript, mode, (helper, call site) | None) with mode in
    {"inline", "helper", "loop-helper", "none"}; in helper mode the helper's parameters are replaced by f's arguments."""
    from ..core.terms import subst

    ev = evaluate(f)
    # transcript filled by a loop in f itself (e.g. a loop helper that was spliced in)
    if any(x.callee[0].endswith("Transcript::new") for x in ev.sites.values()):
        for src_b, h in f.cfg.back_edges():
            body = f.cfg.natural_loop(src_b, h)
            if any(b in ev.sites and ev.sites[b].callee[0].endswith("Transcript::append_message") for b in body):
                return loop_transcript_events(P, f, ev, None, {}), ev, "loop-helper", (f, None)
    evts = transcript_events(ev)
    if evts is not None:
        return evts, ev, "inline", None
    for bb, s in sorted(ev.sites.items()):
        g = P.fns.get(s.callee[0])
        if g is None or g is f:
            continue
        gev = evaluate(g)
        if not any(x.callee[0].endswith("Transcript::new") for x in gev.sites.values()):
            continue
        mapping = {}
        for i in range(1, g.arg_count + 1):
            if i - 1 < len(s.args):
                mapping[T("param", i, gev.pname(i))] = s.args[i - 1]
        if g.cfg.back_edges():
            return loop_transcript_events(P, g, gev, s, mapping), gev, "loop-helper", (g, s)
        return transcript_events(gev, xf=lambda t: subst(t, mapping)), gev, "helper", (g, s)
    return None, ev, "none", None


def _zip_sources(P, gev, site):
    """For the helper's `labels.iter().zip(points)`: ([label bytes..] | None, [point terms..] | None)."""
    zips = [s for s in gev.sites.values() if s.callee[0] == "Iterator::zip"]
    if len(zips) != 1:
        return None, None
    def base(a):
        src = B.peel(a)
        while src.op == "call" and B.cname(src) in ("slice::<impl [T]>::iter", "IntoIterator::into_iter", "Iterator::copied", "Iterator::cloned"):
            src = B.peel(src.a[1][0])
        return src
    out = []
    for a in zips[0].args[:2]:
        src = base(a)
        if src.op == "named":
            vals = None
            for c in P.facts.get("consts", []):
                if c.get("name") == src.a[0] and (c.get("value") or {}).get("elems_hex") is not None:
                    vals = [("label", bytes.fromhex(h)) for h in c["value"]["elems_hex"]]
            out.append(vals)
        elif src.op == "param" and site is not None:
            arg = site.args[src.a[0] - 1] if src.a[0] - 1 < len(site.args) else None
            x = B.peel(arg) if arg is not None else None
            out.append([("term", e) for e in x.a[1]] if x is not None and x.op == "agg" and x.a[0][0] == "array" else None)
        elif src.op == "agg" and src.a[0][0] == "array":
            lits = [_lit_bytes(B.nf(gev, e)) for e in src.a[1]]
            if src.a[1] and all(x is not None for x in lits):
                # a written-out table of label literals
                out.append([("label", x) for x in lits])
            else:
                out.append([("term", e) for e in src.a[1]])
        else:
            out.append(None)
    return out[0], out[1]


def _tuple_table_source(g, gev):
    """`for (label, point) in [(b"pk", pk), (b"c1", c1), ..]`: the loop runs over an array of (constant label, value)
    pairs written out in the function: [(label bytes, value term)], else None."""
    srcs = R.loop_sources(g)
    if len(srcs) != 1:
        return None
    src = B.peel(srcs[0][1])
    while src.op == "call" and B.cname(src) in ("slice::<impl [T]>::iter", "IntoIterator::into_iter", "Iterator::copied", "Iterator::cloned"):
        src = B.peel(src.a[1][0])
    if not (src.op == "agg" and src.a[0][0] == "array" and src.a[1]):
        return None
    out = []
    for e in src.a[1]:
        e = B.peel(e)
        if not (e.op == "agg" and e.a[0][0] == "tuple" and len(e.a[1]) == 2):
            return None
        lab = B.nf(gev, e.a[1][0])
        if not (len(lab) == 1 and lab[0][0] == "v" and lab[0][1].op == "const" and lab[0][1].a[0] == "bytes"):
            return None
        out.append((bytes.fromhex(lab[0][1].a[1]), e.a[1][1]))
    return out


def loop_transcript_events(P, g, gev, site, mapping):
    """Events of a transcript that a helper builds with `for (label, point) in LABELS.iter().zip(points)`:
    the loop is unrolled over the constant label table and the array handed over at the call site.  None when the
    shape is not exactly that (or the two lists differ in length - reported separately)."""
    from ..core.terms import subst

    cfg = g.cfg
    be = cfg.back_edges()
    if len(be) != 1:
        return None
    src_b, hdr = be[0]
    body = cfg.natural_loop(src_b, hdr)
    new = [s for s in gev.sites.values() if s.callee[0].endswith("Transcript::new")]
    ch = [s for s in gev.sites.values() if s.callee[0].endswith("Transcript::challenge_bytes")]
    apps = [(b, s) for b, s in sorted(gev.sites.items()) if s.callee[0].endswith("Transcript::append_message")]
    if len(new) != 1 or len(ch) != 1:
        return None
    inloop = [(b, s) for b, s in apps if b in body]
    if len(inloop) != 1 or not cfg.dominates(inloop[0][0], src_b):
        return None
    pairs = _tuple_table_source(g, gev)
    if pairs is not None:
        labels = [p_[0] for p_ in pairs]
        points = [p_[1] for p_ in pairs]
    else:
        la, lb = _zip_sources(P, gev, site)
        if la is None or lb is None or len(la) != len(lb):
            return None
        labels = [x[1] for x in la] if all(x[0] == "label" for x in la) else None
        points = [x[1] for x in lb] if all(x[0] == "term" for x in lb) else None
        if labels is None or points is None:
            labels = [x[1] for x in lb] if all(x[0] == "label" for x in lb) else None
            points = [x[1] for x in la] if all(x[0] == "term" for x in la) else None
        if labels is None or points is None:
            return None
    # body shape: append_message(<label element>, to_bytes(<point element>))
    s = inloop[0][1]
    pay = strip_sites(s.args[2])
    top = B.peel(pay)
    while top.op == "call" and B.cname(top) in ("AsRef::as_ref", "Deref::deref", "GenericArray::<T, N>::as_slice") and len(top.a[1]) == 1:
        top = B.peel(top.a[1][0])
    # the payload is to_bytes(<the loop's point element>)
    if not (top.op == "call" and B.cname(top) == "GroupEncoding::to_bytes" and any(x.op == "call" and B.cname(x) == "Iterator::next" for x in subterms(top.a[1][0]))):
        return None
    out = [("new", _lit(B.nf(gev, new[0].args[0])), None)]
    order = {b: i for i, b in enumerate(cfg.rpo())} if hasattr(cfg, "rpo") else {}
    pre = [(b, x) for b, x in apps if b not in body and cfg.dominates(b, hdr)]
    post = [(b, x) for b, x in apps if b not in body and not cfg.dominates(b, hdr)]
    for b, x in pre:
        out.append(("msg", _lit(B.nf(gev, x.args[1])), B.nf(gev, subst(x.args[2], mapping))))
    for lab, pt in zip(labels, points):
        term = T("call", ("GroupEncoding::to_bytes", ()), (pt,))
        try:
            lt = lab.decode()
        except Exception:
            lt = lab.hex()
        out.append(("msg", lt, B.nf(gev, term)))
    for b, x in post:
        out.append(("msg", _lit(B.nf(gev, x.args[1])), B.nf(gev, subst(x.args[2], mapping))))
    n = None
    for x in subterms(ch[0].args[2]):
        if x.op == "repeat":
            n = x.a[1]
    out.append(("challenge", _lit(B.nf(gev, ch[0].args[1])), n))
    return out


def transcript_events(ev, xf=None):
    """[(kind, label, payload-nf)] of the merlin transcript built in a function."""
    xf = xf or (lambda t: t)
    out = []
    new = [s for s in ev.sites.values() if s.callee[0].endswith("Transcript::new")]
    if not new:
        return None
    lab = B.nf(ev, new[0].args[0])
    out.append(("new", _lit(lab), None))
    sites = sorted(ev.sites.items())
    # order by the builder chain of the final challenge call
    ch = [s for _, s in sites if s.callee[0].endswith("Transcript::challenge_bytes")]
    if not ch:
        return out
    base, evs = B.events(ch[0].args[0])
    for name, others, _ in evs:
        if name.endswith("append_message"):
            out.append(("msg", _lit(B.nf(ev, others[0])), B.nf(ev, xf(others[1]))))
        else:
            out.append(("other", name, None))
    n = None
    for s in subterms(ch[0].args[2]):
        if s.op == "repeat":
            n = s.a[1]
    out.append(("challenge", _lit(B.nf(ev, ch[0].args[1])), n))
    return out


def _lit_bytes(segs):
    """The bytes of a literal byte string, else None."""
    if len(segs) == 1 and segs[0][0] == "v" and segs[0][1].op == "const" and segs[0][1].a[0] == "bytes":
        try:
            return bytes.fromhex(segs[0][1].a[1])
        except Exception:
            return None
    return None


def _lit(segs):
    if len(segs) == 1 and segs[0][0] == "v" and segs[0][1].op == "const" and segs[0][1].a[0] == "bytes":
        try:
            return bytes.fromhex(segs[0][1].a[1]).decode()
        except Exception:
            return segs[0][1].a[1]
    return B.show_nf(segs)


def payload_role(segs):
    """Role of an appended payload: to_bytes(X) -> name of X (param / local description)."""
    if len(segs) == 1 and segs[0][0] == "v":
        t = segs[0][1]
        if t.op == "call" and B.cname(t) == "GroupEncoding::to_bytes":
            x = B.peel(t.a[1][0])
            if x.op == "param":
                return x.a[1]
            if x.op == "call" and B.cname(x) == "Group::generator":
                return "G"
            if R.subject_matches(x, ("opt-param", "generator")):
                # the defaulted Option parameter: `generator.unwrap_or_else(..)` or the merge of `match generator {..}`
                return "generator"
            return show(x, 3)
        if t.op == "const":
            return _lit(segs)
        if t.op == "named":
            return "const:" + t.a[0]
    return B.show_nf(segs)


def check_decrypt_passthrough(ctx, P, rule="E6.pass", callee="BlsSignCrypt::decrypt", floor=3):
    """Every function that calls the frame reader hands its result on unfiltered: what it returns is that call's value
    itself or a constant rejection (an empty message, a 32-byte message, a message of zeros are messages like any other)."""
    n = 0
    for k, g in sorted(P.fns.items()):
        if g.from_expansion or g.key == callee:
            continue
        gev = evaluate(g)
        sites = [(bb, s_) for bb, s_ in sorted(gev.sites.items()) if s_.callee[0] == callee]
        if not sites:
            continue
        n += 1
        gr = strip_sites(gev.ret)
        alts = list(gr.a[0]) if gr.op == "phi" else [gr]
        dvs = [strip_sites(s_.value) for _, s_ in sites]
        bad = [show(a_, 3) for a_ in alts if a_ not in dvs and not (a_.op == "call" and B.cname(a_) == "CtOption::<T>::new" and len(a_.a[1]) == 2 and G.formula(a_.a[1][1], P) == G.FALSE)]
        ctx.ob(rule, "%s/result" % k, not bad, "%s returns the result of %s itself (or a constant rejection)%s" % (k, callee.split("::")[-1], "" if not bad else "; other results: %s" % bad[:2]), where=where(g, sites[0][0]))
    ctx.floor(rule, "callers of %s" % callee, n, floor)
