"""C13 - time-lock ciphertexts open only with the signature over their identifier."""
from ..core.sym import evaluate, strip_sites, inline
from ..core.terms import show, subterms, T
from ..core import guards as G
from ..core import bytesnf as B
from .common import where, check_arm_purity, scheme_context, spec, SCHEME_TRAITS
from . import guardrules as R
from . import flow as F
from . import protocols as PR
from . import constructions as K

EXPLANATION = (
    "Decides the open/seal glue for all inputs: TimeCryptCiphertext::decrypt passes flag 1 only on the diagonal (signature variant == "
    "ciphertext scheme) and the default signature with flag 0 otherwise; the option returned by unseal carries the conjunction "
    "is_identity(G*r' - u) & is_valid & !id(decryption key) & !id(u) where r' is re-derived from the recovered alpha and the recovered "
    "message; seal and unseal build r_input = repr(alpha)‖Sha256(M), r = hash_to_scalar(r_input, salt), V = Sha256(to_bytes(K)) xor "
    "alpha, W = Shake128(alpha) xor frame(M) identically (sibling agreement on construction terms) with the pinned salt and framing "
    "(reader inverse by shape: bound dominates the slice, no clamping, malformed length => constant-0 option); seal refuses the "
    "identity key; and for every scheme the point hashed at sealing (tag, message framing of the identifier) is exactly what that "
    "scheme's signer hashes - so a signature over the identifier can open it (this is the rule that exposed the MessageAugmentation "
    "defect, since repaired). Not decided: that tampering never yields a different message (needs the pairing and hash)."
)
RULE = "E4 Choice algebra on the open flag; E2 diagonal; E3 sibling agreement seal/unseal/signer; E5 construction terms and framing"


def run(ctx):
    P = ctx.P
    pinned = spec("pinned.json")
    # "for all identifiers, including the empty one": sealing decides through the hash of the identifier only - no
    # branch on the way reads the identifier itself, so none is refused for its bytes
    from . import flow as F_mb

    # (only the identifier: the keystream helpers legitimately walk the message bytes they mask)
    F_mb.check_message_blind_control(ctx, "E6.id-blind", P, ["PublicKey<C>::encrypt_time_lock", "BlsTimeCrypt::seal"], pnames=("id",), floor=2)
    # diagonal
    f = ctx.need_fn("E2.diagonal", "TimeCryptCiphertext<C>::decrypt")
    if f is not None:
        ev = evaluate(f)
        check_arm_purity(ctx, "E2-A", P, [f])
        us = [s for s in ev.sites.values() if s.callee[0] == "BlsTimeCrypt::unseal"]
        ctx.ob("E2.diagonal.anchor", f.key, len(us) >= 1, "%d call(s) to unseal" % len(us), where=where(f))
        from . import spec as SP

        npairs = 0
        for assume in SP.assumptions(P, f):
            if len(assume) < 2:
                continue
            sv = assume.get(("sig", ""))
            cv = assume.get(("self", ".scheme"))
            sev = evaluate(f, assume)
            calls = [x for _, x in sorted(sev.sites.items()) if x.callee[0] == "BlsTimeCrypt::unseal"]
            if not calls:
                ctx.ob("E2.diagonal", "%s@%s/%s" % (f.key, sv, cv), False, "no unseal call is reached for signature variant %s and ciphertext scheme %s" % (sv, cv), where=where(f))
                continue
            for c in calls:
                npairs += 1
                a = [strip_sites(x) for x in c.args]
                names = [(F.projection_root(x)[0].a[1] + F.projection_root(x)[1]) if F.projection_root(x) else None for x in a[:3]]
                flag = G.formula(c.args[4], P)
                sigarg = a[3]
                if sv == cv:
                    r = F.projection_root(sigarg)
                    ok = flag == G.TRUE and r is not None and r[0].a[1] == "sig" and names == ["self.u", "self.v", "self.w"]
                    ctx.ob("E2.diagonal", "%s@%s/%s" % (f.key, sv, cv), ok, "matching variants: unseal gets the caller's signature point, this ciphertext's (u,v,w) and flag 1 (flag=%s, sig=%s)" % (G.show_f(flag), show(sigarg, 3)), where=where(f, c.bb))
                else:
                    ok = flag == G.FALSE and not any(t.op == "param" and t.a[1] == "sig" for t in subterms(sigarg))
                    ctx.ob("E2.diagonal", "%s@%s/%s" % (f.key, sv, cv), ok, "mismatching variants: unseal gets flag 0 and not the caller's signature (flag=%s, sig=%s)" % (G.show_f(flag), show(sigarg, 3)), where=where(f, c.bb))
        ctx.floor("E2.diagonal", "(signature variant, ciphertext scheme) pairs", npairs, 9)
    # "...or recombined from threshold shares": every share reaches the signature combiner
    F.check_combiner_images(ctx, "E6.combine", P, only=("Signature<C>::from_shares",))
    F.check_core_combiners(ctx, "E6.combine", P)
    F.check_combiner_lengths(ctx, "E4.len-range", P)
    # open flag
    u = ctx.need_fn("E4.flag", "BlsTimeCrypt::unseal")
    if u is not None:
        ev = evaluate(u)
        sites = R.ctoption_sites(P, u)
        main = [s for s in sites if G.formula(s[2], P) != G.FALSE]
        ctx.ob("E4.flag.anchor", u.key, len(main) == 1, "%d non-constant CtOption::new site(s)" % len(main), where=where(u))
        for bb, val, flag in main:
            fm = G.formula(flag, P)
            conj = G.conjuncts(fm)
            R.check_flag_conjunct(ctx, "E4.flag", P, u.key, flag, "is_identity", ("param", "decryption_key"), False, "decryption_key")
            R.check_flag_conjunct(ctx, "E4.flag", P, u.key, flag, "is_identity", ("param", "u"), False, "u")
            isv = any(c[0] == "atom" and c[1] == "term" and c[2].op == "param" and c[2].a[1] == "is_valid" for c in conj)
            ctx.ob("E4.flag", u.key + "/is_valid", isv, "flag contains the caller's scheme-match flag as a conjunct", where=where(u, bb))
            # one conjunct tests a difference against the identity: G*r' - u (either sign, any spelling of the difference)
            from ..core import poly as PL
            from . import equations as EQ

            chk = []
            for c in conj:
                if c[0] == "atom" and c[1] == "is_identity":
                    pc = PL.up_to_sign(PL.poly(c[2], EQ.std_atom()))
                    if len(pc) == 2 and pc.get(("u",)) in (1, -1):
                        other = [(m, k) for m, k in pc.items() if m != ("u",)]
                        m, k = other[0]
                        rs = [x for x in m if not isinstance(x, str)]
                        if k == -pc[("u",)] and len(m) == 2 and "G" in m and len(rs) == 1:
                            chk.append(rs[0])
            ok = len(chk) == 1 and len(conj) == 4
            if ok:
                rr = strip_sites(inline(P, chk[0], 2, only=K.local_inliner(P)))
                # r' depends on the recovered alpha (compute_v) and on the recovered message (value of the option)
                dep_alpha = any(x.op == "call" and B.cname(x) == "BlsTimeCrypt::compute_v" for x in subterms(rr))
                dep_msg = any(x.op == "call" and B.cname(x) in ("Digest::digest",) for x in subterms(rr))
                ok = dep_alpha and dep_msg
            ctx.ob("E4.flag", u.key + "/rederive", ok, "flag = is_identity(G*r' - u) & is_valid & guards, r' from recovered alpha and message: %s" % G.show_f(fm, 3)[:240], where=where(u, bb))
    # sibling agreement seal / unseal
    s_ = ctx.need_fn("E3.sides", "BlsTimeCrypt::seal")
    if s_ is not None and u is not None:
        se, ue = evaluate(s_), evaluate(u)
        class _H:
            pass

        def rinput(ev):
            # hash_to_scalar calls of the function itself and of the crate helpers its result goes through
            roots = [ev.ret] + [fl for _, _, fl in R.ctoption_sites(P, ev.fn)] + [a for x in ev.sites.values() for a in x.args]
            seen = set()
            outs = []
            for rt in roots:
                for c in subterms(inline(P, rt, 2, only=K.local_inliner(P))):
                    if c.op != "call" or B.cname(c) != "HashToScalar::hash_to_scalar" or len(c.a[1]) != 2:
                        continue
                    key = strip_sites(c)
                    if key in seen:
                        continue
                    seen.add(key)
                    segs = B.nf(ev, inline(P, c.a[1][0], 2, only=K.local_inliner(P)))
                    st = B.peel(c.a[1][1])
                    salt = bytes.fromhex(st.a[2].a[1]).decode("latin-1") if st.op == "named" and st.a[2].op == "const" else None
                    h = _H()
                    h.args = c.a[1]
                    outs.append((segs, salt, h))
            return outs
        so, uo = rinput(se), rinput(ue)
        # seal: alpha = H(rng), r = H(repr(alpha) ‖ Sha256(M)); unseal: r = H(alpha' ‖ Sha256(M'))
        def shape(segs):
            if len(segs) == 2 and all(x[0] == "v" for x in segs):
                a, b = segs[0][1], segs[1][1]
                ka = "repr(alpha)" if (a.op == "call" and B.cname(a) == "PrimeField::to_repr") else ("alpha'" if a.op == "call" and B.cname(a) == "BlsTimeCrypt::compute_v" else show(a, 3))
                kb = "Sha256(M)" if (b.op == "call" and B.cname(b) == "Digest::digest") else show(b, 3)
                return [ka.replace("'", "").replace("repr(alpha)", "alpha"), kb]
            return [B.show_nf(segs)]
        s_r = [x for x in so if len(x[0]) == 2]
        u_r = [x for x in uo if len(x[0]) == 2]
        ok = len(s_r) == 1 and len(u_r) == 1 and shape(s_r[0][0]) == shape(u_r[0][0]) == ["alpha", "Sha256(M)"] and s_r[0][1] == u_r[0][1] == pinned["salts"]["timelock"]
        ctx.ob("E3.sides", "r_input", ok, "seal r_input = %s, unseal r_input = %s, salts %r/%r (pinned: repr(alpha) ‖ Sha256(M), %r)" % (B.show_nf(s_r[0][0]) if s_r else None, B.show_nf(u_r[0][0]) if u_r else None, s_r[0][1] if s_r else None, u_r[0][1] if u_r else None, pinned["salts"]["timelock"]), where=where(s_))
        alpha = [x for x in so if len(x[0]) == 1]
        from .c20 import draws as _draws

        ok_a = len(alpha) == 1 and alpha[0][1] == pinned["salts"]["timelock"] and bool(_draws(alpha[0][2].args[0]))
        ctx.ob("E3.sides", "alpha", ok_a, "alpha = hash_to_scalar(<bytes drawn from a generator>, timelock salt)", where=where(s_))
        # K: seal pairing[(H(id,dst), pk*r)], unseal pairing[(sig, u)]
        sp = [x for x in se.sites.values() if x.callee[0] == "Pairing::pairing"]
        up = [x for x in ue.sites.values() if x.callee[0] == "Pairing::pairing"]
        ok_k = False
        if len(sp) == 1 and len(up) == 1:
            st = strip_sites(sp[0].args[0])
            h = [t for t in subterms(st) if t.op == "call" and B.cname(t) == "HashToPoint::hash_to_point"]
            m = [t for t in subterms(st) if t.op == "call" and B.cname(t) == "Mul::mul" and B.peel(t.a[1][0]).op == "param" and B.peel(t.a[1][0]).a[1] == "pk"]
            ut = strip_sites(up[0].args[0])
            ups = {t.a[1] for t in subterms(ut) if t.op == "param"}
            ok_k = len(h) == 1 and [B.peel(x).a[1] if B.peel(x).op == "param" else None for x in h[0].a[1]] == ["id", "dst"] and len(m) == 1 and ups == {"decryption_key", "u"}
        ctx.ob("E3.sides", "K", ok_k, "seal K = pairing[(hash_to_point(id, dst), pk*r)]; unseal K' = pairing[(decryption_key, u)]", where=where(s_))
        # U = G*r with the same r that multiplies pk
        ret = strip_sites(se.ret)
        oks = [R.ok_value(se.fn, se, b) for b in R.ok_blocks(s_)]
        ok_u = False
        for v in oks:
            v = strip_sites(v)
            tup = [t for t in subterms(v) if t.op == "agg" and t.a[0][0] == "tuple" and len(t.a[1]) == 3]
            if tup:
                uu = tup[0].a[1][0]
                ok_u = uu.op == "call" and B.cname(uu) == "Mul::mul" and B.peel(uu.a[1][0]).op == "call" and B.cname(B.peel(uu.a[1][0])) == "Group::generator" and bool(sp) and any(t is uu.a[1][1] or t == uu.a[1][1] for t in subterms(strip_sites(sp[0].args[0])))
        # the two pairing keys as bilinear normal forms (sign and operand sensitive: K is key material, not a test)
        from . import equations as EQ
        from ..core import poly as PL

        rterm = None
        for v in oks:
            v = B.peel(v)
            if v is not None and v.op == "agg" and v.a[0][0] == "adt" and len(v.a[1]) == 1:
                v = B.peel(v.a[1][0])
            if v is not None and v.op == "agg" and v.a[0][0] == "tuple" and len(v.a[1]) == 3:
                pu = PL.poly(v.a[1][0], EQ.std_atom())
                xs = [k for m in pu for k in m if not isinstance(k, str)]
                if len(pu) == 1 and len(xs) == 1 and list(pu.values()) == [1] and "G" in list(pu)[0]:
                    rterm = xs[0]

        # U = G*r as a polynomial (operand order / naming of the product do not matter); that this r is the one blinding K
        # is the E5.equation obligation below
        ctx.ob("E3.sides", "U", ok_u or rterm is not None, "U = G*r with the r that blinds the pairing key", where=where(s_))

        def _tl_atom(t, rterm=rterm):
            if rterm is not None and (t is rterm or strip_sites(t) == strip_sites(rterm)):
                return "r"
            if t.op == "call" and B.cname(t) == "HashToPoint::hash_to_point" and [EQ._pname(x) for x in t.a[1]] == ["id", "dst"]:
                return "h"
            return None

        EQ.check_pairing_equation(ctx, "E5.equation", P, "BlsTimeCrypt::seal", {("h", "pk", "r"): 1}, "K = e(hash_to_point(id, dst), pk*r) with the r of U = G*r", sign_free=False, atom=EQ.std_atom(_tl_atom))
        EQ.check_pairing_equation(ctx, "E5.equation", P, "BlsTimeCrypt::unseal", {("decryption_key", "u"): 1}, "K' = e(decryption_key, u)", sign_free=False)
    PR.check_xof_mask(ctx, "E5.keystream", P, "BlsTimeCrypt::compute_w", "alpha", "msg", "Shake128", False)
    PR.check_xof_mask(ctx, "E5.keystream", P, "BlsTimeCrypt::compute_v", "k_tick", "alpha_or_v", "Sha256", True)
    PR.check_byte_xor(ctx, "E5.keystream", P)
    PR.check_frame_writer(ctx, "E5.frame", P, "BlsTimeCrypt::seal", "message", lambda s: s.callee[0] == "BlsTimeCrypt::compute_w", "compute_w")
    PR.check_frame_reader(ctx, "E3.frame", P, "BlsTimeCrypt::unseal", "plaintext")
    R.check_result_guard(ctx, "E4.result", P, "BlsTimeCrypt::seal", "is_identity", ("param", "pk"))
    # signer <-> sealer agreement per scheme
    check_signer_sealer(ctx, P)
    # a tampered ciphertext yields nothing - it does not abort (debug and release profile arithmetic)
    from . import aborts as A

    A.check_aborts(ctx, "E8", P, ["TimeCryptCiphertext<C>::decrypt"], scope="C13")
    A.check_aborts(ctx, "E8", ctx.prog("blst", "nodebug"), ["TimeCryptCiphertext<C>::decrypt"], scope="C13", profile="nodebug")
    ctx.assume("Sha256 / Shake128 / pairing are deterministic functions; FO-transform security is a cryptographic assumption")


def _canon(s):
    import re

    for a in ("GroupEncoding::to_bytes(&Mul::mul(Group::generator(), Psk))", "GroupEncoding::to_bytes(&BlsSignatureCore::public_key(Psk))", "GroupEncoding::to_bytes(&Ppk)", "GroupEncoding::to_bytes(&*Pself.0)"):
        s = s.replace(a, "PKBYTES")
    s = re.sub(r"AsRef::as_ref\(&?(P[a-z_]+)\)", r"\1", s)
    return s.replace("Pid", "Pmsg")


def check_signer_sealer(ctx, P):
    """Sibling agreement: for every scheme the (tag, framing of the identifier) hashed by seal is the construction that
    scheme's signer hashes for message = identifier (own key = recipient key).  Decided on the scheme-specialised
    evaluation of encrypt_time_lock, so the shape of the dispatch (one match, two matches, hoisted call, mapper) is irrelevant."""
    from . import spec as SP
    from .common import TAG_CONSTS

    f = ctx.need_fn("E3.signer", "PublicKey<C>::encrypt_time_lock")
    if f is None:
        return
    rows = K.core_call_table(ctx, P)
    sign_nf = {}
    for r in rows:
        if r["sink"].endswith("core_sign") and r["fn"].name == "sign":
            sign_nf[SCHEME_TRAITS[r["fn"].trait_default_of]] = (r["tag"], _canon(K._canon_nf(r)))
    n = 0
    for assume in SP.assumptions(P, f):
        V = SP.variant_of(assume)
        if not assume or V is None:
            continue
        ev = evaluate(f, assume)
        for bb, s in sorted(ev.sites.items()):
            if s.callee[0] != "BlsTimeCrypt::seal":
                continue
            n += 1
            tagt = B.peel(strip_sites(SP.spec_inline(P, ev, s.args[3], 2)))
            tag = tagt.a[0] if tagt.op == "assoc" else None
            idt = SP.spec_inline(P, ev, s.args[2], 2, stop=lambda g: not K.local_inliner(P)(g))
            sealed = _canon(B.show_nf(B.nf(ev, idt)))
            pk_arg = F.projection_root(strip_sites(s.args[0]))
            want = sign_nf.get(V)
            ok = want is not None and sealed == want[1] and tag == want[0] and pk_arg is not None and pk_arg[0].a[1] == "self"
            ctx.ob("E3.signer", "encrypt_time_lock/%s" % V, ok, "scheme %s: sealing hashes `%s` under %s for the recipient key; the %s signer hashes `%s` under %s" % (V, sealed, tag, V, want[1] if want else None, want[0] if want else None), where=where(f, bb), sample={"scheme": V, "sealed_id": sealed, "signed": want[1] if want else None})
    ctx.floor("E3.signer", "schemes of encrypt_time_lock reaching seal", n, 3)
