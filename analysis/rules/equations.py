"""Algebraic equations of the constructions, decided on polynomial / bilinear normal forms (core/poly.py)."""
from ..core.sym import evaluate, strip_sites
from ..core.terms import show
from ..core import bytesnf as B
from ..core import poly as PL
from .common import where
from . import guardrules as R


def std_atom(extra=None):
    """Atoms: parameters by name, the group generator `G`, hash_to_point(msg, dst) `a`, compute_w(u, v, dst) `cw`."""

    def atom(t):
        if extra is not None:
            k = extra(t)
            if k is not None:
                return k
        if t.op == "param":
            return t.a[1]
        if t.op == "call" and B.cname(t) == "Group::generator" and not t.a[1]:
            return "G"
        if t.op == "call" and B.cname(t) == "HashToPoint::hash_to_point" and [_pname(x) for x in t.a[1]] == ["msg", "dst"]:
            return "a"
        if t.op == "call" and B.cname(t) == "BlsSignCrypt::compute_w" and [_pname(x) for x in t.a[1]] == ["u", "v", "dst"]:
            return "cw"
        return None

    return atom


def _pname(x):
    x = B.peel(x)
    return x.a[1] if x.op == "param" else None


def _norm(want):
    return {tuple(sorted(m)): c for m, c in want.items()}


def check_pairing_equation(ctx, rule, P, fk, want, doc, sign_free=True, atom=None):
    """The single pairing product computed by `fk` equals `want` ({(atoms..): coefficient}) as a bilinear form; when the
    product is only compared with the identity, the overall sign is immaterial (sign_free)."""
    f = ctx.need_fn(rule, fk, P) if hasattr(ctx, "need_fn") else P.fns.get(fk)
    if f is None:
        return
    ev = evaluate(f)
    sites = [s for _, s in sorted(ev.sites.items()) if s.callee[0] == "Pairing::pairing"]
    if len(sites) != 1:
        ctx.ob(rule + ".anchor", fk, False, "`%s` evaluates %d pairing product(s); the rule knows its equation for exactly one" % (fk, len(sites)), where=where(f))
        return
    arg = strip_sites(sites[0].args[0])
    ps = PL.pairs_of(arg)
    if ps is None:
        ctx.ob(rule + ".anchor", fk, False, "pairing input of `%s` is not a literal list of (left, right) pairs: %s" % (fk, show(arg, 5)), where=where(f, sites[0].bb))
        return
    got_t = PL.bilinear(ps, atom or std_atom())
    got = PL.named(got_t)
    w = _norm(want)
    if sign_free and got is not None:
        got, w = PL.up_to_sign(got), PL.up_to_sign(w)
    ctx.ob(rule, fk, got == w, "pairing product of %s = %s (documented: %s%s)" % (fk.split("::")[-1], PL.show_poly(got_t, show), doc, ", up to inversion" if sign_free else ""), where=where(f, sites[0].bb))


def check_value_equation(ctx, rule, key, f, term, want, doc, atom=None, bb=None):
    got_t = PL.poly(term, atom or std_atom())
    got = PL.named(got_t)
    ctx.ob(rule, key, got == _norm(want), "%s = %s (documented: %s)" % (key.split("/")[-1], PL.show_poly(PL.poly(strip_sites(term), atom or std_atom()), show), doc), where=where(f, bb) if bb is not None else where(f))


def ok_tuples(f, ev, n):
    out = []
    for b in R.ok_blocks(f):
        v = R.ok_value(ev.fn, ev, b)
        v = B.peel(v) if v is not None else None
        if v is not None and v.op == "agg" and v.a[0][0] == "adt" and len(v.a[1]) == 1:
            v = B.peel(v.a[1][0])
        if v is not None and v.op == "agg" and v.a[0][0] == "tuple" and len(v.a[1]) == n:
            out.append((b, v))
    return out


def check_pok_equations(ctx, rule, P):
    """Signature proof of knowledge: V = -(sig*(x + y)); timestamp form U = a*x, V = -(sig*(x + y)) with y derived from
    U; the verifier tests e(V, G) * e(U + a*y, pk) = 1."""
    check_pairing_equation(ctx, rule, P, "BlsSignatureProof::verify", {("proof", "G"): 1, ("commitment", "pk"): 1, ("a", "y", "pk"): 1}, "e(proof, G) * e(commitment + a*y, pk)")
    f = ctx.need_fn(rule, "BlsSignatureProof::generate_proof", P)
    if f is not None:
        ev = evaluate(f)
        tups = ok_tuples(f, ev, 2)
        ctx.ob(rule + ".anchor", f.key, bool(tups), "Ok((commitment, proof)) tuple(s) found: %d" % len(tups), where=where(f))
        for b, v in tups:
            check_value_equation(ctx, rule, f.key + "/commitment", f, v.a[1][0], {("commitment",): 1}, "the commitment unchanged", bb=b)
            check_value_equation(ctx, rule, f.key + "/proof", f, v.a[1][1], {("sig", "x"): -1, ("sig", "y"): -1}, "-(sig*(x + y))", bb=b)
    f = ctx.need_fn(rule, "BlsSignatureProof::generate_timestamp_proof", P)
    if f is not None:
        ev = evaluate(f)
        tups = ok_tuples(f, ev, 3)
        ctx.ob(rule + ".anchor", f.key, bool(tups), "Ok((u, v, t)) tuple(s) found: %d" % len(tups), where=where(f))
        for b, v in tups:
            u = B.peel(v.a[1][0])
            # x: the scalar that multiplies a = hash_to_point(msg, dst) in u
            pu = PL.poly(u, std_atom())
            xs = [k for m in pu for k in m if not isinstance(k, str)]
            xterm = xs[0] if len(pu) == 1 and len(xs) == 1 else None

            def extra(t, xterm=xterm, u=u):
                if xterm is not None and (t is xterm or strip_sites(t) == strip_sites(xterm)):
                    return "x"
                if t.op == "field" and t.a[1] == "0" and t.a[0].op == "call" and B.cname(t.a[0]) == "BlsSignatureProof::generate_timestamp_based_y" and (B.peel(t.a[0].a[1][0]) is u or strip_sites(B.peel(t.a[0].a[1][0])) == strip_sites(u)):
                    return "y"
                return None

            at = std_atom(extra)
            check_value_equation(ctx, rule, f.key + "/u", f, u, {("a", "x"): 1}, "hash_to_point(msg, dst) * x", atom=at, bb=b)
            check_value_equation(ctx, rule, f.key + "/v", f, v.a[1][1], {("sig", "x"): -1, ("sig", "y"): -1}, "-(sig*(x + y)), y from generate_timestamp_based_y(u)", atom=at, bb=b)
