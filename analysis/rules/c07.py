"""C07 - multi-signatures verify against exactly the set of signers."""
from ..core.sym import evaluate, strip_sites
from ..core.terms import show, subterms
from ..core import guards as G
from ..core import bytesnf as B
from .common import where, check_arm_purity
from . import constructions as K
from . import guardrules as R
from . import flow as F
from . import spec as SP

EXPLANATION = (
    "Decides, for all inputs, the accumulation glue: MultiSignature::try_from refuses fewer than two inputs (length guard dominates "
    "every success exit and the index-0 access), mixed schemes (same_scheme against element 0 dominates every accumulation) and "
    "message-augmentation inputs (either the per-element MessageAugmentation arm reaches only Err exits, or no success exit lies "
    "under a MessageAugmentation first element), adds every element of sigs[1..] plus sigs[0] and returns the variant of sigs[0]; "
    "key and signature accumulators (BlsMultiKey::from_public_keys, BlsMultiSignature::from_signatures, aggregate_public_keys, "
    "aggregate_signatures) start from the identity and add every iterator element (accumulation dominates the loop back edge, no "
    "element-dropping adapter); MultiPublicKey::from_public_keys maps every key 1:1; MultiSignature::verify dispatches on its own "
    "variant and forwards the accumulated key, the signature and the message as pure projections to the scheme's verify (whose "
    "identity guards are C04). Not decided: the group sum itself and its verification for concrete signer sets."
)
RULE = "E4 guard dominance; arm-to-exit reachability; E4 accumulation must-pass-through; E7 adapter deny-list; E2 arm purity; E5 pass-through"


def check_accumulators(ctx, P, keys):
    """The draft's Aggregate / key accumulation: the plain group sum of every element, started at the identity."""
    for ak in keys:
        a = ctx.need_fn("E4.accumulate", ak)
        if a is None:
            continue
        ev = evaluate(a)
        rfold = strip_sites(ev.ret)
        if rfold.op == "call" and B.cname(rfold) == "Iterator::fold" and len(rfold.a[1]) == 3:
            src, init, clo = rfold.a[1]
            c = B.peel(clo)
            okf = B.peel(src).op == "param" and B.peel(init).op == "call" and B.cname(B.peel(init)) == "Group::identity" and c.op == "agg" and c.a[0][0] == "closure"
            if okf:
                g = P.fns.get(c.a[0][1])
                r = strip_sites(evaluate(g).ret) if g is not None else None
                # `|acc, x| acc + x`  or  `|mut acc, x| { acc += x; acc }`
                okf = r is not None and ((r.op == "call" and B.cname(r) in ("Add::add",) and {B.peel(x).a[0] if B.peel(x).op == "param" else None for x in r.a[1]} == {2, 3}) or (r.op == "mutcall" and B.cname(r) == "AddAssign::add_assign" and r.a[1] == 0 and [B.peel(x).a[0] if B.peel(x).op == "param" else None for x in r.a[2]] == [2, 3]))
            ctx.ob("E4.accumulate", ak, okf, "accumulator = fold(iterator, identity, |acc, x| acc + x)", where=where(a))
            F.check_no_dropping_adapters(ctx, "E7.adapters", P, [ak])
            continue
        res = F.loops_push_every_iteration(a)
        pname = a.locals[1].get("name")
        cov = [R.covers_all(s, pname) for _, s in R.loop_sources(a)]
        ret = strip_sites(ev.ret)
        init_ok = ret.op == "loop" and ret.a[2].op == "call" and B.cname(ret.a[2]) == "Group::identity"
        ctx.ob("E4.accumulate", ak, bool(res) and all(r[1] for r in res) and cov == ["all"] and init_ok, "accumulator starts at identity=%s, loop covers %s, every iteration accumulates=%s" % (init_ok, cov, [r[1] for r in res]), where=where(a))
        F.check_no_dropping_adapters(ctx, "E7.adapters", P, [ak])


def run(ctx):
    P = ctx.P
    fk = "<MultiSignature<C> as TryFrom<&[Signature<C>]>>::try_from"
    R.check_min_len(ctx, "E4.len", P, fk, "sigs", 2, extra_blocks=lambda fn, ev: [b for b, d in ev.switch.items() if any(s.op == "index" for s in subterms(d))])
    R.check_same_scheme_guard(ctx, "E4.scheme", P, fk, "sigs")
    from . import spec as SP_

    SP_.check_same_scheme_semantics(ctx, "E2.same-scheme", P)
    f = P.fns.get(fk)
    if f is not None:
        ev = evaluate(f)
        cfg = f.cfg
        accs = F.accumulators(P, f)
        for a_ in accs:
            ctx.ob("E4.accumulate", fk + "/every-element", a_["every"], "every element is added or the function leaves through Err (%s)" % a_["mode"], where=where(a_["fn"], a_["bb"]))
        if not accs:
            ctx.ob("E4.accumulate", fk + "/every-element", False, "no accumulation found", where=where(f))
        cov = [R.covers_all(a_["source"], "sigs") for a_ in accs if a_["source"] is not None]
        adds0 = [s for b_, s in ev.sites.items() if (s.callee[0] == "Add::add" or (s.callee[0] == "AddAssign::add_assign" and b_ not in {a_["bb"] for a_ in accs if a_["fn"] is f})) and len(s.args) == 2 and any((x.op == "index" and B._const_int(x.a[1]) == 0) or (x.op == "cidx" and x.a[1] == 0) for x in subterms(s.args[1]))]
        ctx.ob("E4.accumulate", fk + "/covers-all", cov == ["all"] or (cov == ["tail1"] and len(adds0) >= 1), "loop iterates %s and sigs[0] is added %d time(s) on the exits" % (cov, len(adds0)), where=where(f))
        if len(cov) == 1 and cov[0] in ("all", "tail1"):
            nso = F.check_sum_once(ctx, "E4.sum-once", P, f, "sigs", "MultiSignature", cov[0])
            ctx.floor("E4.sum-once", "schemes whose multi-signature is the once-each sum", nso, 2)
        check_arm_purity(ctx, "E2-A", P, [f])
        SP.check_variant_preserved(ctx, "E2.variant", P, f, "MultiSignature", min_variants=2)
        allow_skip = {(fk, "skip"): "skip(1): element 0 is added separately on the exits"} if (cov == ["tail1"] and len(adds0) >= 1) else {}
        allow_skip[(fk, "windows")] = "windows(2): adjacent pairs compared (scheme consistency; validated by E4.scheme)"
        F.check_no_dropping_adapters(ctx, "E7.adapters", P, [fk], allow=allow_skip)
        # message augmentation refusal
        oks = R.ok_blocks(f)
        acc = [b for b, s in ev.sites.items() if s.callee[0] == "AddAssign::add_assign"]
        per_elem = None
        for b in sorted(cfg.reachable):
            t = f.blocks[b]["term"]
            if t["k"] != "switch":
                continue
            d = ev.switch.get(b)
            if d is None or d.op != "discr" or not any(s.op == "call" and B.cname(s) == "Iterator::next" for s in subterms(d)):
                continue
            v = G.variant_of_switch(P, f, b, 1)
            if not v or v[0] != "Signature":
                continue
            # target of the MessageAugmentation arm
            tgt = None
            for val, tg in t["arms"]:
                vv = G.variant_of_switch(P, f, b, val)
                if vv and vv[1] == "MessageAugmentation":
                    tgt = tg
            if tgt is None:
                ov = G.variant_of_switch(P, f, b, "otherwise")
                if ov and "MessageAugmentation" in (ov[1] if isinstance(ov[1], tuple) else (ov[1],)):
                    tgt = t["otherwise"]
            if tgt is not None:
                reach = cfg.reach_from(tgt)
                per_elem = not (reach & set(acc)) and not (reach & set(oks))
        # the same question on the element-specialised evaluation: assuming a list element is MessageAugmentation,
        # no accumulation is reached (whatever the shape of the refusal: own arm, `matches!`, merged guard)
        if not per_elem:
            eroots = [r for r, a in SP.switch_roots(P, f, ["Signature"], computed=True) if r[0] == "@" and any(x.op == "call" and B.cname(x) == "Iterator::next" for x in subterms(r[1]))]
            for er in eroots:
                sev = evaluate(f, {er: "MessageAugmentation"})
                if not any(s_.callee[0] == "AddAssign::add_assign" for s_ in sev.sites.values()):
                    per_elem = True
        # ... or the accumulation lives in the closure of fold / try_fold: with the closure's element parameter assumed
        # to be MessageAugmentation no addition is reached there
        if not per_elem:
            for a_ in accs:
                g = a_["fn"]
                if a_["mode"] not in ("fold", "try_fold") or g is f:
                    continue
                ename = g.locals[g.arg_count].get("name") if g.arg_count >= 2 else None
                for r, adt in SP.switch_roots(P, g, ["Signature"]):
                    if r[0] == ename and r[0] is not None:
                        gev = evaluate(g, {r: "MessageAugmentation"})
                        if not any(s_.callee[0] in ("AddAssign::add_assign", "Add::add") for s_ in gev.sites.values()):
                            per_elem = True
        # ... or an up-front pass `tail.iter().all(mergeable)` / `!any(..)` over the accumulated range whose closure
        # decides against a MessageAugmentation element (folded under that assumption)
        if not per_elem:
            for a_ in accs:
                for atom, pol in a_["lits"]:
                    if not (atom[0] == "atom" and atom[1] == "term" and atom[2].op == "call" and len(atom[2].a[1]) == 2):
                        continue
                    qn = B.cname(atom[2])
                    if not ((qn == "Iterator::all" and pol) or (qn == "Iterator::any" and not pol)):
                        continue
                    qcov = R.covers_all(strip_sites(atom[2].a[1][0]), "sigs")
                    acov = R.covers_all(a_["source"], "sigs") if a_.get("source") is not None else None
                    if qcov is None or not (qcov == acov or qcov == "all"):
                        continue
                    c_ = B.peel(atom[2].a[1][1])
                    if not (c_.op == "agg" and c_.a[0][0] == "closure"):
                        continue
                    g = P.fns.get(c_.a[0][1])
                    if g is None or g.arg_count < 2:
                        continue
                    ename = g.locals[g.arg_count].get("name")
                    for r, adt in SP.switch_roots(P, g, ["Signature"]):
                        if r[0] == ename and ename is not None:
                            rv = strip_sites(evaluate(g, {r: "MessageAugmentation"}).ret)
                            want = 0 if qn == "Iterator::all" else 1
                            if rv.op == "const" and rv.a[0] == "int" and rv.a[1] == want:
                                per_elem = True
        first_ok = True
        for b in oks:
            # variants of the first element still possible at this exit: the intersection of what every dominating switch
            # on it admits (an exit behind `matches!(sigs[0], MessageAugmentation(_)) => Err` keeps its arm in a later
            # `match sigs[0]`, but no MessageAugmentation value reaches it)
            poss = {}
            for adt, var, src, dsc in __import__("analysis.rules.common", fromlist=["scheme_context"]).scheme_context(P, f, b):
                if adt == "Signature" and "index" in dsc:
                    vs = set(var) if isinstance(var, tuple) else {var}
                    poss[dsc] = (poss[dsc] & vs) if dsc in poss else vs
            if any("MessageAugmentation" in vs for vs in poss.values()):
                first_ok = False
        ok = bool(per_elem) or first_ok
        ctx.ob("E4.aug-refused", fk, ok, "message-augmentation inputs are refused: per-element MessageAugmentation arm reaches only Err exits=%s; no success exit under a MessageAugmentation first element=%s" % (per_elem, first_ok), where=where(f))
    # accumulators
    check_accumulators(ctx, P, ("BlsMultiKey::from_public_keys", "BlsMultiSignature::from_signatures", "BlsSignatureCore::aggregate_public_keys", "BlsSignatureCore::aggregate_signatures"))
    # MultiPublicKey::from_public_keys: 1:1 map
    m = ctx.need_fn("E5.chain", "MultiPublicKey<C>::from_public_keys")
    if m is not None:
        ev = evaluate(m)
        F.check_no_dropping_adapters(ctx, "E7.adapters", P, ["MultiPublicKey<C>::from_public_keys"])
        sites = [s for s in ev.sites.values() if s.callee[0] == "BlsMultiKey::from_public_keys"]
        ok = False
        if sites:
            it = strip_sites(sites[0].args[0])
            ok = it.op == "call" and B.cname(it) == "Iterator::map" and R.covers_all(it.a[1][0], "keys") == "all"
        ctx.ob("E5.chain", "MultiPublicKey<C>::from_public_keys", ok, "every key of the caller's list is mapped 1:1 into the accumulator", where=where(m))
    # verify wrapper
    v = ctx.need_fn("E2-A", "MultiSignature<C>::verify")
    if v is not None:
        check_arm_purity(ctx, "E2-A", P, [v])
        n = SP.check_trait_by_scheme(ctx, "E2.dispatch", P, v, ("verify", "multi_sig_verify", "core_verify"))
        ctx.floor("E2.dispatch", "schemes of MultiSignature::verify reaching their verifier", n, 2)
        ev = evaluate(v)
        for bb, s in sorted(ev.sites.items()):
            c = s.raw.get("callee") or {}
            if c.get("name") == "verify" and c.get("trait", "").startswith("BlsSignature"):
                roots = [F.projection_root(strip_sites(a)) for a in s.args]
                names = [r[0].a[1] if r else None for r in roots]
                ctx.ob("E5.chain", "MultiSignature<C>::verify->%s" % s.callee[0], names == ["pk", "self", "msg"], "forwards (accumulated key, own signature, message) as pure projections: %s" % names, where=where(v, bb))
    K.check_core_forwarding(ctx, P, rule="E5.forward", methods=("verify", "multi_sig_verify"))
    # the accumulated signature is checked under the tag its parts were signed under (per scheme trait)
    K.check_core_table(ctx, P, methods=("sign", "verify", "multi_sig_verify"))
    # ... and every list of two or more is admitted as far as its length goes (own rejections by count, folded over 0..300)
    F.check_len_rejections(ctx, "E4.len-range", P, "<MultiSignature<C> as TryFrom<&[Signature<C>]>>::try_from", "sigs", lambda L: L >= 2, list(range(0, 301)), "number of signatures")
    # "accumulation refuses ... fewer than two inputs": refuses, does not abort - abort census over the accumulation and
    # verification entry points (both profiles)
    from . import aborts as A_

    roots_ = ["<MultiSignature<C> as TryFrom<&[Signature<C>]>>::try_from", "MultiSignature<C>::from_signatures", "MultiSignature<C>::verify", "MultiPublicKey<C>::from_public_keys"]
    A_.check_aborts(ctx, "E8", P, roots_, scope="C07")
    A_.check_aborts(ctx, "E8", ctx.prog("blst", "nodebug"), roots_, scope="C07", profile="nodebug")
    from .posctl import run_posctl

    run_posctl(ctx, "E7.adapters", "adapters")
