"""C04 - identity points and the zero key are never accepted or used."""
from ..core.sym import evaluate, strip_sites
from ..core.terms import show, subterms
from ..core import guards as G
from ..core import bytesnf as B
from .common import where, call_sites
from . import guardrules as R
from . import flow as F

EXPLANATION = (
    "For each of the frozen identity/zero obligations (confirmed by reading the anchored lines) decides on the CFG that the "
    "guard dominates every success exit: every block that builds Ok(..) is edge-dominated by the branch on which the "
    "subtle::Choice formula implies !is_identity(p) / !is_zero(s) (`a | b` true=>Err is accepted, `a & b` is not); for "
    "Choice-returning validators the returned flag must be a conjunction containing the negated atoms; in the aggregate loop "
    "every path to the pairs.push passes the per-entry guard. Additionally every parameter that flows unmodified into a "
    "Pairing::pairing slot anywhere in the crate must be covered by such a guard (generalised caller census), and byte import "
    "of scalars rejects zero. With the dependency contract that is_identity/is_zero are correct this is sufficient, not "
    "only necessary. Not decided: correctness of is_identity inside the backend."
)
RULE = "E4 guard dominance over switch edges + Choice algebra in NNF; E7 pairing-slot census"

P_ = lambda n: ("param", n)

RESULT_GUARDS = [
    ("BlsSignatureCore::core_sign", "is_zero", P_("sk")),
    ("BlsSignatureCore::core_verify", "is_identity", P_("sig")),
    ("BlsSignatureCore::core_verify", "is_identity", P_("pk")),
    ("BlsSignatureCore::core_aggregate_verify", "is_identity", P_("sig")),
    ("BlsSignatureProof::generate_proof", "is_identity", P_("commitment")),
    ("BlsSignatureProof::generate_proof", "is_identity", P_("sig")),
    ("BlsSignatureProof::generate_proof", "is_zero", P_("x")),
    ("BlsSignatureProof::generate_proof", "is_zero", P_("y")),
    ("BlsSignatureProof::generate_timestamp_proof", "is_identity", P_("sig")),
    ("BlsSignatureProof::verify", "is_identity", P_("commitment")),
    ("BlsSignatureProof::verify", "is_identity", P_("proof")),
    ("BlsSignatureProof::verify", "is_identity", P_("pk")),
    ("BlsSignatureProof::verify", "is_zero", P_("y")),
    ("BlsSignCrypt::create_decryption_share", "is_zero", ("re", r"as_field_element")),
    ("BlsSignCrypt::create_decryption_share", "is_identity", P_("u")),
    ("BlsTimeCrypt::seal", "is_identity", P_("pk")),
    ("BlsElGamal::seal_scalar", "is_identity", ("opt-param", "generator")),
    ("BlsElGamal::seal_scalar", "is_identity", P_("pk")),
    ("BlsElGamal::seal_point", "is_identity", P_("pk")),
    ("BlsElGamal::seal_scalar_with_proof", "is_identity", P_("pk")),
    ("BlsElGamal::verify_and_decrypt", "is_zero", P_("sk")),
    ("BlsElGamal::verify_proof", "is_identity", P_("pk")),
    ("BlsElGamal::verify_proof", "is_identity", ("opt-param", "generator")),
    ("BlsElGamal::verify_proof", "is_identity", P_("c1")),
    ("BlsElGamal::verify_proof", "is_identity", P_("c2")),
    ("BlsElGamal::verify_proof", "is_zero", P_("message_proof")),
    ("BlsElGamal::verify_proof", "is_zero", P_("blinder_proof")),
    ("BlsElGamal::verify_proof", "is_zero", P_("challenge")),
]

FLAG_GUARDS = [
    ("BlsSignCrypt::valid", "is_identity", P_("u")),
    ("BlsSignCrypt::valid", "is_identity", P_("w")),
    ("BlsSignCrypt::verify_share", "is_identity", P_("share")),
    ("BlsSignCrypt::verify_share", "is_identity", P_("pk")),
    ("BlsSignCrypt::verify_share", "is_identity", P_("w")),
]


def _guarded_at_callers(P, fn, pidx, depth):
    """Every crate-local call site of `fn` passes for parameter pidx either a derived value (not a bare
    parameter of the caller) or a caller parameter that is identity-guarded on the path to the call."""
    sites = P.callers().get(fn.key, [])
    if not sites or fn.vis == "Public" and fn.trait_default_of is None and False:
        return False, "- no crate-local caller found"
    for g, bb, t in sites:
        gev = evaluate(g)
        st = gev.sites.get(bb)
        if st is None or pidx - 1 >= len(st.args):
            return False, "- unexpected call shape in %s" % g.key
        a = st.args[pidx - 1]
        while a.op in ("ref", "deref"):
            a = a.a[0]
        if a.op != "param":
            continue  # derived value (hash output, product, negation ...): no guard obligation
        lits = G.path_literals(gev, bb, P, checks_only=True)
        if R.has_literal(lits, "is_identity", ("param", a.a[1]), False):
            continue
        if depth > 0:
            ok, how = _guarded_at_callers(P, g, a.a[0], depth - 1)
            if ok:
                continue
        return False, "- caller `%s` passes its parameter `%s` without a guard" % (g.key, a.a[1])
    return True, "at every call site of the private helper `%s`" % fn.key


def check_share_verify_through_core(ctx, P, rule="E4.result"):
    """A (key share, signature share) pair is accepted only where `core_verify` - with its identity refusals - accepted
    the decoded points: what `core_signature_share_verify` returns as success is core_verify's own result, or lies behind
    its Ok verdict (a copy of the pairing check without the guards accepts identity key + identity signature)."""
    fk = "BlsSignatureCore::core_signature_share_verify"
    f = ctx.need_fn(rule, fk, P)
    if f is None:
        return
    ev = evaluate(f)
    is_cv = lambda t: t.op == "call" and B.cname(t) == "BlsSignatureCore::core_verify"
    for rb in sorted(ev.ret_at):
        rv = strip_sites(ev.ret_at[rb])
        for a_ in (list(rv.a[0]) if rv.op == "phi" else [rv]):
            if a_.op == "agg" and a_.a[0][0] == "adt" and len(a_.a[0]) > 2 and a_.a[0][2] == "Err":
                continue
            if a_.op == "call" and B.cname(a_) == "FromResidual::from_residual":
                continue
            via_value = any(is_cv(t) for t in subterms(a_))
            via_path = any(hasattr(x, "op") and any(is_cv(t) for t in subterms(strip_sites(x))) for atom, pol in G.path_literals(ev, rb, P, checks_only=True) for x in atom[2:])
            ctx.ob(rule, "%s/through-core_verify@bb%d" % (fk, rb), via_value or via_path, "share verification succeeds only through core_verify (result is core_verify's=%s, exit behind its verdict=%s): %s" % (via_value, via_path, show(a_, 3)), where=where(f, rb))


def run(ctx):
    P = ctx.P
    check_share_verify_through_core(ctx, P)
    for fk, kind, subj in RESULT_GUARDS:
        R.check_result_guard(ctx, "E4.result", P, fk, kind, subj)
    for fk, kind, subj in FLAG_GUARDS:
        fn = ctx.need_fn("E4.flag", fk)
        if fn is None:
            continue
        ev = evaluate(fn)
        R.check_flag_conjunct(ctx, "E4.flag", P, fk, ev.ret, kind, subj, False, subj[1])
    # time-lock unseal: the flag of the success CtOption
    fn = ctx.need_fn("E4.flag", "BlsTimeCrypt::unseal")
    if fn is not None:
        sites = R.ctoption_sites(P, fn)
        main = [s for s in sites if G.formula(s[2], P) != G.FALSE]
        ctx.ob("E4.flag.anchor", "BlsTimeCrypt::unseal/CtOption", len(main) >= 1, "found %d non-constant-false CtOption::new site(s) in unseal" % len(main), where=where(fn))
        for bb, val, flag in main:
            R.check_flag_conjunct(ctx, "E4.flag", P, "BlsTimeCrypt::unseal", flag, "is_identity", P_("decryption_key"), False, "decryption_key")
            R.check_flag_conjunct(ctx, "E4.flag", P, "BlsTimeCrypt::unseal", flag, "is_identity", P_("u"), False, "u")
    # aggregate loop: per-entry guard dominates the push of (hash, pk)
    def is_pair_push(fn, ev, b):
        s = ev.sites.get(b)
        return s is not None and s.callee[0] == "Vec::<T, A>::push" and any(x.op == "call" and B.cname(x) == "HashToPoint::hash_to_point" for x in subterms(s.args[1]))

    F.check_aggregate_key_guard(ctx, "E4.loop", P)
    # scalar import: zero => none
    R.check_scalar_zero_guard(ctx, "E4.zero", P)
    # partial signing: the share's scalar goes through the zero-refusing core_sign, or is itself tested for zero
    # (a zero-valued share with a non-zero identifier is not the all-zero container)
    fps = ctx.need_fn("E4.zero-share", "BlsSignatureCore::core_partial_sign")
    if fps is not None:
        evp = evaluate(fps)
        cs = [s_ for _, s_ in sorted(evp.sites.items()) if s_.callee[0] == "BlsSignatureCore::core_sign"]
        if cs:
            a0 = strip_sites(cs[0].args[0])
            okp = any(x.op == "call" and B.cname(x) == "Share::as_field_element" for x in subterms(a0))
            ctx.ob("E4.zero-share", fps.key, okp, "the share's scalar (as_field_element) is signed through core_sign, which refuses the zero scalar", where=where(fps, cs[0].bb))
        else:
            muls = [(bb, s_) for bb, s_ in sorted(evp.sites.items()) if s_.callee[0] == "Mul::mul" and any(x.op == "call" and B.cname(x) == "Share::as_field_element" for x in subterms(s_.args[1]) | subterms(s_.args[0]))]
            okp = bool(muls)
            for bb, s_ in muls:
                lits = G.path_literals(evp, bb, P, checks_only=True)
                okp = okp and any(not pol and a[0] == "atom" and a[1] == "is_zero" and any(x.op == "call" and B.cname(x) == "Share::as_field_element" for x in subterms(a[2])) for a, pol in lits)
            ctx.ob("E4.zero-share", fps.key, okp, "the product hash_to_point * scalar is computed only after !is_zero of the share's *scalar* (not of the share container, whose identifier byte is never zero)", where=where(fps))
    # all byte importers of scalars go through these helpers
    imps = call_sites(P, lambda c, t: c.get("name") == "from_repr" and c.get("trait") == "PrimeField")
    for fn, bb, t in imps:
        ctx.ob("E7.from_repr", fn.key, fn.key in ("helpers::scalar_from_be_bytes", "helpers::scalar_from_le_bytes"), "PrimeField::from_repr may only be called by the zero-checking helpers", where=where(fn, bb))
    ctx.floor("E7.from_repr", "from_repr call sites", len(imps), 1)
    # generalised pairing census: parameters flowing unmodified into a pairing slot are guarded in that function
    n = 0
    for fn, bb, t in call_sites(P, lambda c, t: c.get("name") == "pairing" and c.get("trait") == "Pairing"):
        ev = evaluate(fn)
        ctx.saw(fn)
        site = ev.sites[bb]
        direct = set()
        for s in subterms(site.args[0]):
            if s.op == "agg" and s.a[0][0] == "tuple":
                for comp in s.a[1]:
                    c = comp
                    while c.op in ("ref", "deref"):
                        c = c.a[0]
                    if c.op == "param":
                        direct.add(c)
        lits = G.path_literals(ev, bb, P, checks_only=True)
        flag_lits = set()
        for s2 in [ev.ret] + [x[2] for x in R.ctoption_sites(P, fn)]:
            flag_lits |= G.literals(G.formula(s2, P), True)
        for p in sorted(direct, key=lambda x: x.a[0]):
            n += 1
            subj = ("param", p.a[1])
            ok = R.has_literal(lits, "is_identity", subj, False) or R.has_literal(flag_lits, "is_identity", subj, False)
            how = "in the function itself"
            if not ok:
                # private helper: the guard may sit in every caller (stated inlining bound: 2 levels)
                ok, how = _guarded_at_callers(P, fn, p.a[0], 2)
            ctx.ob("E7.pairing-slot", "%s/%s" % (fn.key, p.a[1]), ok, "parameter `%s` enters a pairing slot unmodified and must be identity-guarded (dominating branch or conjunct of the returned flag) %s" % (p.a[1], how), where=where(fn, bb))
    ctx.floor("E7.pairing-slot", "parameters entering pairing slots directly", n, 9)
    # the guards must see the caller's values: scheme methods hand keys/lists to the guarded cores unmodified
    from . import constructions as K

    K.check_core_forwarding(ctx, P, rule="E5.guards-see-inputs")

    F.check_iszero(ctx, P, "E8.iszero", check_asserts=False, need=("zero",))
    ctx.assume("Group::is_identity / Field::is_zero of the backend are correct (dependency contract)")
    ctx.assume("'imported from bytes' means the byte-conversion API (TryFrom<&[u8]>, from_be_bytes, from_le_bytes), as in observe_at; serde import of scalars is not claimed to reject zero")
