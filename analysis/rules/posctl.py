"""Positive controls: zero-count rules must match the fixture crate on every run."""
import os

from ..core.program import Program
from . import flow as F

_FIX = os.path.join(os.path.dirname(os.path.dirname(os.path.dirname(os.path.abspath(__file__)))), "fixtures", "posctl")
_prog = None


def fixture_program():
    global _prog
    if _prog is None:
        from ..extract import facts_path
        import json

        p = facts_path("blst", "dev", repo=_FIX, crate="posctl")
        import gzip

        with (gzip.open(p, "rt") if p.endswith(".gz") else open(p)) as fh:
            _prog = Program(json.load(fh))
    return _prog


def unchecked_calls(P):
    out = []
    for f in P.fns.values():
        for bb, t in f.calls():
            c = t.get("callee")
            if c and "unchecked" in c.get("name", "") and c.get("crate") not in ("core", "alloc", "std"):
                out.append((f, bb, c["path"]))
    return out


def rng_constructors(P):
    out = []
    for f in P.fns.values():
        for bb, t in f.calls():
            c = t.get("callee")
            if not c:
                continue
            p = c["path"]
            n = c.get("name", "")
            if n in ("from_entropy", "from_seed", "seed_from_u64", "from_rng", "thread_rng", "from_os_rng", "try_from_rng") or "StepRng" in p or "OsRng" in p:
                out.append((f, bb, p, n))
    return out


def run_posctl(ctx, rule, what):
    P = fixture_program()
    if what == "adapters":
        n = sum(1 for f in P.fns.values() for a in F.adapter_calls(f) if a[1] in F.ELEMENT_DROPPING)
    elif what == "unchecked":
        n = len(unchecked_calls(P))
    elif what == "rng":
        n = len([x for x in rng_constructors(P) if x[3] != "from_entropy"])
    elif what == "statics":
        n = len([s for s in P.statics if s.get("thread_local") or s.get("mutable") or not s.get("freeze", False)])
    elif what == "aborts":
        n = sum(1 for f in P.fns.values() for b in f.cfg.reachable if f.blocks[b]["term"]["k"] == "assert")
    elif what == "u8-tables":
        n = 0
        for f in P.fns.values():
            from ..core.sym import evaluate, strip_sites

            ev = evaluate(f)
            for bb, s in ev.sites.items():
                if s.callee[0] in ("slice::<impl [T]>::get", "slice::<impl [T]>::get_mut") and len(s.args) == 2:
                    N = F.table_len(s.args[0])
                    hi = F.index_upper_bound(strip_sites(s.args[1]), P)
                    if N is not None and hi is not None and hi >= N:
                        n += 1
    elif what == "clock":
        n = len([s for s in F.effect_sites(P, P.fns.values()) if s[0] == "clock"])
    else:
        n = 0
    return ctx.ob(rule + ".posctl", what, n > 0, "positive control: the `%s` detector matched %d site(s) in fixtures/posctl (must be > 0, otherwise the rule is blind)" % (what, n))
