"""E6/E7 helpers: projections/pass-through, effects, pipelines, finite-domain evaluation."""
from ..core.sym import evaluate, strip_sites, inline
from ..core.terms import T, show, subterms
from ..core import bytesnf as B
from ..core import guards as G
from .common import where, reachable_fns, call_sites

_COPYISH = {"Clone::clone", "Deref::deref", "AsRef::as_ref", "Borrow::borrow", "Into::into", "From::from", "ToOwned::to_owned", "Vec::<T, A>::as_slice", "slice::<impl [T]>::to_vec", "GenericArray::<T, N>::as_slice", "String::as_str", "String::as_bytes"}


def projection_root(t, allow_copy=True):
    """If t is built only from a parameter by field/deref/ref/downcast (and clone-like
    identities), return (param term, path string); else None."""
    path = []
    while True:
        if t.op in ("ref", "deref"):
            t = t.a[0]
        elif t.op == "field":
            path.append("." + str(t.a[1]))
            t = t.a[0]
        elif t.op == "downcast":
            path.append(" as " + str(t.a[1]))
            t = t.a[0]
        elif allow_copy and t.op == "call" and B.cname(t) in _COPYISH and len(t.a[1]) == 1:
            t = t.a[1][0]
        elif t.op == "param":
            return t, "".join(reversed(path))
        elif t.op == "phi" and t.a[0]:
            # `match x { A(v) | B(v) | C(v) => v }`: the payload of whichever variant the parameter has
            rs = [projection_root(x, allow_copy) for x in t.a[0]]
            if all(rs) and len({r[0] for r in rs}) == 1:
                return rs[0][0], " (payload of its variant)" + "".join(reversed(path))
            return None
        elif t.op == "call" and len(t.a[1]) == 1 and t.a[0][0] in _ACCESSORS:
            # crate accessor (`sig.as_raw_value()`): its result is a projection of its receiver (see accessors())
            path.append(".%s()" % t.a[0][0].split("::")[-1])
            t = t.a[1][0]
        else:
            return None


_ACCESSORS = set()


def register_accessors(P):
    """Crate functions of one parameter whose every returned value is a pure projection of that parameter
    (`as_raw_value`, field getters): calls to them are looked through by projection_root."""
    for k, g in P.fns.items():
        if g.arg_count != 1 or g.kind == "Closure" or g.cfg.back_edges() or len(g.blocks) > 40:
            continue
        if any(t["k"] == "call" for _, t in g.calls()):
            continue
        ev = evaluate(g)
        r = strip_sites(ev.ret)
        while r.op in ("ref", "deref"):
            r = r.a[0]
        alts = list(r.a[0]) if r.op == "phi" else [r]
        ok = bool(alts)
        for a in alts:
            pr = projection_root(a)
            if not (pr and pr[0].a[0] == 1 and pr[1]):
                ok = False
        if ok:
            _ACCESSORS.add(k)
    return _ACCESSORS


EFFECT_CALLS = {
    "rng": ("helpers::get_crypto_rng", "::from_entropy", "::thread_rng", "::from_seed", "::seed_from_u64", "::from_rng", "OsRng"),
    "clock": ("::now",),
}


def effect_sites(P, fns):
    """RNG / clock call sites inside the given functions."""
    out = []
    for f in fns:
        for bb, t in f.calls():
            c = t.get("callee")
            if not c:
                continue
            path = c["path"]
            name = c.get("key") or path
            tr = c.get("trait")
            if name == "helpers::get_crypto_rng" or path.endswith("::from_entropy") or path.endswith("::thread_rng") or path.endswith("::from_seed") or path.endswith("::seed_from_u64") or path.endswith("::from_rng") or "OsRng" in path:
                out.append(("rng", f, bb, path))
            elif tr in ("RngCore", "Rng", "CryptoRng") or (tr == "Field" and c["name"] == "random"):
                out.append(("rng-draw", f, bb, path))
            elif path.endswith("SystemTime::now") or path.endswith("Instant::now"):
                out.append(("clock", f, bb, path))
            elif any(x in path for x in _STATE_PATHS):
                out.append(("state", f, bb, path))
    return out


# state that outlives a call: a result that goes through it depends on the history of calls, not only on the arguments
_STATE_PATHS = ("thread::local", "LocalKey", "OnceLock", "OnceCell", "LazyLock", "LazyCell", "lazy_static", "AtomicU", "AtomicI", "AtomicBool", "AtomicPtr", "sync::Mutex", "sync::RwLock", "RefCell", "cell::Cell")


def check_no_effects(ctx, rule, P, root_keys, allow_clock=False, allow=()):
    roots = []
    for k in root_keys:
        f = P.fns.get(k)
        if f is None:
            ctx.ob(rule + ".anchor", k, False, "deterministic entry point `%s` not found" % k)
        else:
            roots.append(f)
    reach = reachable_fns(P, roots)
    for f in reach.values():
        ctx.saw(f)
    sites = effect_sites(P, reach.values())
    state = [s for s in sites if s[0] == "state"]
    sites = [s for s in sites if s[0] != "state"]
    stat = [s_ for s_ in P.statics if s_.get("thread_local") or s_.get("mutable") or not s_.get("freeze", False)]
    ctx.ob(rule, "no-hidden-state", not state and not stat, "no state survives a call: cells / thread-locals / atomics / locks used in the %d reachable functions: %s; thread_local / mutable / interior-mutable statics in the crate: %s" % (len(reach), [(f.key, p) for _, f, bb, p in state][:4], [s_["path"] for s_ in stat][:4]), where=where(state[0][1], state[0][2]) if state else None)
    bad = [s for s in sites if not (allow_clock and s[0] == "clock") and s[1].key not in allow]
    ctx.ob(
        rule,
        "no-rng-no-clock",
        not bad,
        "from %d deterministic entry points %d functions are reachable; RNG/clock effects found: %s" % (len(roots), len(reach), [(k, f.key, p) for k, f, bb, p in bad][:6]),
        where=where(bad[0][1], bad[0][2]) if bad else None,
        sample={"roots": root_keys[:8], "reachable": len(reach)},
    )
    return reach


# ---------------------------------------------------------------------------
# iterator pipelines

ELEMENT_DROPPING = {
    "skip", "take", "step_by", "filter", "filter_map", "skip_while", "take_while", "zip", "chunks", "chunks_exact",
    "rchunks", "rchunks_exact", "array_chunks", "windows", "dedup", "dedup_by", "dedup_by_key", "nth", "last", "find",
    "find_map", "position", "truncate", "drain", "retain", "split_off", "pop", "remove", "swap_remove", "split_at",
    "fuse", "map_while", "scan", "flat_map", "flatten", "peekable", "rev",
}
# `split_first` / `split_last` / `first` are indexing in disguise (`(&x[0], &x[1..])`; the evaluator rewrites the payload
# to those canonical terms): like `x[0]` and `x[1..]` they are judged by the coverage rules, not denied by name.
ONE_TO_ONE = {"iter", "iter_mut", "into_iter", "map", "enumerate", "collect", "copied", "cloned", "as_slice", "as_ref", "deref", "by_ref", "inspect", "from_iter", "to_vec", "into_boxed_slice", "as_mut", "as_mut_slice", "borrow"}


def adapter_calls(fn):
    """[(bb, method name, path)] of iterator/slice adapter calls in fn."""
    out = []
    for bb, t in fn.calls():
        c = t.get("callee")
        if not c:
            continue
        path = c["path"]
        if c.get("trait") in ("Iterator", "IntoIterator", "DoubleEndedIterator", "ExactSizeIterator") or "slice::<impl [T]>" in path or path.startswith("std::vec::Vec") or path.startswith("alloc::vec::Vec"):
            out.append((bb, c["name"], path))
    return out


def _census_dedups(P, g):
    """Blocks of `dedup` calls whose receiver is not a list of inputs but the census of their enum variants
    (`xs.iter().map(mem::discriminant).collect::<Vec<_>>()`): collapsing it drops no input."""
    from . import guardrules as R

    out = set()
    ev = evaluate(g)
    for bb, s_ in ev.sites.items():
        if s_.callee[0] != "Vec::<T, A>::dedup" or len(s_.args) != 1:
            continue
        x = strip_sites(s_.args[0])
        while x.op in ("ref", "deref"):
            x = x.a[0]
        if x.op == "call" and B.cname(x) in ("Iterator::collect", "FromIterator::from_iter") and len(x.a[1]) == 1:
            m = x.a[1][0]
            if m.op == "call" and B.cname(m) == "Iterator::map" and len(m.a[1]) == 2:
                fnv = B.peel(m.a[1][1])
                if fnv.op == "const" and fnv.a[0] == "fn" and str(fnv.a[1][0]).split("::")[-1] == "discriminant":
                    out.add(bb)
    return out


def check_no_dropping_adapters(ctx, rule, P, fn_keys, allow=None, include_closures=True):
    """Deny-list: no element-dropping adapter in the given functions (and their closures).
    allow: {(fn_key, method): reason} for confirmed legitimate uses."""
    allow = allow or {}
    n = 0
    for k in fn_keys:
        f = ctx.need_fn(rule, k, P)
        if f is None:
            continue
        fs = [f]
        if include_closures:
            fs += [g for g in P.fns.values() if g.kind == "Closure" and (g.j.get("parent_key") or "").startswith(k)]
        for g in fs:
            census = None
            for bb, name, path in adapter_calls(g):
                n += 1
                if name in ELEMENT_DROPPING:
                    ok = (k, name) in allow or (g.key, name) in allow
                    if not ok and name == "dedup":
                        census = _census_dedups(P, g) if census is None else census
                        if bb in census:
                            continue
                    ctx.ob(rule, "%s/%s" % (g.key, name), ok, "element-dropping/merging adapter `%s` in `%s`%s" % (name, g.key, (": allowed - " + allow.get((k, name), allow.get((g.key, name), ""))) if ok else " (every list element must reach the decision)"), where=where(g, bb))
    return n


def loops_push_every_iteration(fn, accept=None):
    """For every loop in fn: is there a `push`/`add_assign`-like accumulation call (or, with `accept`, a call
    site satisfying accept(site)) that lies on every path round the loop?  Returns [(header, ok, detail)]."""
    cfg = fn.cfg
    ev = evaluate(fn)
    out = []
    for src, h in cfg.back_edges():
        body = cfg.natural_loop(src, h)
        # note: one entry per back edge - a `continue` path is its own back edge and must accumulate as well
        if accept is not None:
            acc = [b for b in body if b in ev.sites and accept(ev.sites[b])]
        else:
            acc = [b for b in body if b in ev.sites and ev.sites[b].callee[0] in ("Vec::<T, A>::push", "AddAssign::add_assign", "Extend::extend", "Vec::<T, A>::extend_from_slice")]
        # accumulation must dominate the back-edge source (every continuing iteration accumulates)
        ok = any(cfg.dominates(b, src) for b in acc)
        out.append((h, ok, "accumulating calls at %s; back edge from bb%d" % (acc, src)))
    return out


# ---------------------------------------------------------------------------
# finite-domain evaluation of small integer terms (the byte-OR zero test)


def _wrap(v, bits, signed):
    v &= (1 << bits) - 1
    if signed and v >= 1 << (bits - 1):
        v -= 1 << bits
    return v


def _ty_bits(ty):
    if ty is None:
        return None
    ty = str(ty)
    if ty in ("bool",):
        return (8, False)
    if ty[0] in "iu" and ty[1:].isdigit():
        return (int(ty[1:]), ty[0] == "i")
    if ty in ("usize", "isize"):
        return (64, ty[0] == "i")
    return None


def eval_int(t, env, tyhint=None):
    """Evaluate an integer term under env {term: (value, bits, signed)}.  Returns
    (value, bits, signed, overflow_flag) or raises KeyError/ValueError for unknown shapes.
    Checked ops (`XWithOverflow`) return a ('pair', value, overflow) tuple handled via field."""
    if t in env:
        v, bits, signed = env[t]
        return (v, bits, signed)
    op = t.op
    if op == "const" and t.a[0] == "int":
        tb = _ty_bits(t.a[2] if len(t.a) > 2 else None) or (64, True)
        return (t.a[1], tb[0], tb[1])
    if op == "named" and len(t.a) > 2 and isinstance(t.a[2], T) and t.a[2].op == "const" and t.a[2].a[0] == "int":
        # a named constant (`SECRET_KEY_BYTES`) with its evaluated value
        return eval_int(t.a[2], env)
    if op == "cast":
        v, bits, signed = eval_int(t.a[1], env)
        tb = _ty_bits(t.a[2])
        if tb is None:
            raise ValueError("cast to " + str(t.a[2]))
        return (_wrap(v, tb[0], tb[1]), tb[0], tb[1])
    if op == "un":
        v, bits, signed = eval_int(t.a[1], env)
        if t.a[0] == "Neg":
            return (_wrap(-v, bits, signed), bits, signed)
        if t.a[0] == "Not":
            return (_wrap(~v, bits, signed), bits, signed)
        raise ValueError(t.a[0])
    if op == "call" and B.cname(t) in ("ConstantTimeEq::ct_eq", "ConstantTimeEq::ct_ne") and len(t.a[1]) == 2:
        # subtle's contract: Choice(1) iff the two values are equal
        x, y = (B.peel(z) for z in t.a[1])
        vx, vy = eval_int(x, env), eval_int(y, env)
        eq = vx[0] == vy[0]
        return (int(eq if B.cname(t).endswith("ct_eq") else not eq), 8, False)
    if op == "call" and B.cname(t) in ("num::<impl i8>::wrapping_neg",) and len(t.a[1]) == 1:
        v, bits, signed = eval_int(t.a[1][0], env)
        return (_wrap(-v, bits, signed), bits, signed)
    if op == "field" and t.a[0].op == "bin" and t.a[0].a[0].endswith("WithOverflow"):
        res = _checked(t.a[0], env)
        return res[0] if t.a[1] == "0" else (1 if res[1] else 0, 8, False)
    if op == "bin":
        b = t.a[0]
        x = eval_int(t.a[1], env)
        y = eval_int(t.a[2], env)
        bits, signed = x[1], x[2]
        if b == "BitOr":
            return (_wrap(x[0] | y[0], bits, signed), bits, signed)
        if b == "BitAnd":
            return (_wrap(x[0] & y[0], bits, signed), bits, signed)
        if b == "BitXor":
            return (_wrap(x[0] ^ y[0], bits, signed), bits, signed)
        if b in ("Shr", "ShrUnchecked"):
            return (_wrap(x[0] >> (y[0] & (bits - 1)), bits, signed), bits, signed)
        if b in ("Shl", "ShlUnchecked"):
            return (_wrap(x[0] << (y[0] & (bits - 1)), bits, signed), bits, signed)
        if b in ("Add", "AddUnchecked"):
            return (_wrap(x[0] + y[0], bits, signed), bits, signed)
        if b in ("Sub", "SubUnchecked"):
            return (_wrap(x[0] - y[0], bits, signed), bits, signed)
        if b in ("Eq", "Ne", "Lt", "Le", "Gt", "Ge"):
            r = {"Eq": x[0] == y[0], "Ne": x[0] != y[0], "Lt": x[0] < y[0], "Le": x[0] <= y[0], "Gt": x[0] > y[0], "Ge": x[0] >= y[0]}[b]
            return (1 if r else 0, 8, False)
        raise ValueError(b)
    raise ValueError("cannot evaluate %s" % show(t, 3))


def _checked(bt, env):
    b = bt.a[0]
    x = eval_int(bt.a[1], env)
    y = eval_int(bt.a[2], env)
    bits, signed = x[1], x[2]
    exact = {"AddWithOverflow": x[0] + y[0], "SubWithOverflow": x[0] - y[0], "MulWithOverflow": x[0] * y[0]}[b]
    w = _wrap(exact, bits, signed)
    return ((w, bits, signed), w != exact)


def _is_byte_elem(y, is_elem):
    """`y` is the visited byte itself - possibly dereferenced and cast to the accumulator's 8-bit type - and nothing else."""
    for _ in range(6):
        if y.op in ("ref", "deref"):
            y = y.a[0]
        elif y.op == "cast" and str(y.a[2]) in ("i8", "u8"):
            y = y.a[1]
        else:
            break
    return is_elem(y)


def _zero_acc(P, fn, ev, inner):
    """The OR-accumulator of the zero test: (term, init, ok_step, elem_ok, description).
    Either a loop-carried i8 local `t |= *b as i8` or `iter.fold(0i8, |acc, b| acc | *b as i8)`."""
    loops = [s for s in subterms(inner) if s.op == "loop"]
    folds = [s for s in subterms(inner) if s.op == "call" and B.cname(s) == "Iterator::fold" and len(s.a[1]) == 3]
    if len(loops) == 1 and not folds:
        acc = loops[0]
        init = acc.a[2]
        step = ev.loop_step.get((acc.a[0], acc.a[1]))
        ok_step = elem_ok = False
        if step is not None and step.op == "bin" and step.a[0] == "BitOr":
            sides = [step.a[1], step.a[2]]
            if acc in sides:
                other = sides[1] if sides[0] is acc else sides[0]
                ok_step = _is_byte_elem(other, lambda z: z.op == "field" and z.a[0].op == "downcast" and any(s.op == "call" and B.cname(s) == "Iterator::next" for s in subterms(z)))
                elem_ok = any(s.op == "call" and B.cname(s) == "Iterator::next" for s in subterms(other))
        return acc, init, ok_step, elem_ok, "loop step=%s" % (show(strip_sites(step), 5) if step is not None else None)
    if len(folds) == 1 and not loops:
        acc = folds[0]
        src, init, clo = acc.a[1]
        clo = B.peel(clo)
        ok_step = elem_ok = False
        desc = "fold"
        if clo.op == "agg" and clo.a[0][0] == "closure":
            g = P.fns.get(clo.a[0][1])
            if g is not None and not g.cfg.back_edges():
                r = strip_sites(evaluate(g).ret)
                desc = "fold closure=%s" % show(r, 5)
                if r.op == "bin" and r.a[0] == "BitOr":
                    a, b = r.a[1], r.a[2]
                    for x, y in ((a, b), (b, a)):
                        if x.op == "param" and x.a[0] == 2 and _is_byte_elem(y, lambda z: z.op == "param" and z.a[0] == 3):
                            ok_step = True
        s0 = B.peel(src)
        while s0.op == "call" and B.cname(s0) in ("slice::<impl [T]>::iter", "IntoIterator::into_iter", "Iterator::copied", "Iterator::cloned"):
            s0 = B.peel(s0.a[1][0])
        elem_ok = s0.op == "param" and s0.a[0] == 1
        return acc, init, ok_step, elem_ok, desc
    return None


def check_iszero(ctx, P, rule="E8.iszero", check_asserts=True, need=("zero", "nonzero")):
    """The branch-free zero test of byte strings, decided exhaustively over the 256 values of
    its i8 accumulator by folding the extracted term (no code is run): result must be 1 iff
    the OR of the bytes is 0, the accumulator must OR every byte, and (dev profile) no
    arithmetic Assert may fail for any value."""
    from ..core.sym import inline

    fn = ctx.need_fn(rule, "<[u8] as IsZero>::is_zero", P)
    if fn is None:
        return
    ev = evaluate(fn)
    whole = inline(P, ev.ret, 2, only=lambda g: g.kind != "Closure" and not g.cfg.back_edges())
    za = _zero_acc(P, fn, ev, whole)
    if za is None:
        ctx.ob(rule + ".shape", "accumulator", False, "expected exactly one OR-accumulator (loop-carried local or fold) in the zero test", where=where(fn), weak=True)
        return
    acc, init, ok_step, elem_ok, desc = za
    ok_init = init.op == "const" and init.a[1] == 0
    if "nonzero" in need:
        ctx.ob(rule + ".acc", "t = OR of every byte", ok_init and ok_step and elem_ok, "accumulator init=%s %s" % (show(init, 3), desc), where=where(fn))
    bad_ad = [a for a in adapter_calls(fn) if a[1] in ELEMENT_DROPPING]
    if "nonzero" in need:
        ctx.ob(rule + ".all-bytes", "no element-dropping adapter", not bad_ad, "iterator over the byte string uses %s" % ([a[1] for a in adapter_calls(fn)]), where=where(fn))
    # fold the result for all 256 accumulator values
    inner = whole
    while inner.op == "call" and B.cname(inner) in ("From::from", "Into::into", "Choice::from") and len(inner.a[1]) == 1:
        inner = inner.a[1][0]
    wrong = []
    unknown = None
    signed = not (init.op == "const" and len(init.a) > 2 and str(init.a[2]) == "u8")
    for v in (range(-128, 128) if signed else range(0, 256)):
        try:
            r = eval_int(inner, {acc: (v, 8, signed)})
        except (ValueError, KeyError) as e:
            unknown = str(e)
            break
        want = 1 if v == 0 else 0
        if r[0] != want and (("zero" in need and v == 0) or ("nonzero" in need and v != 0)):
            wrong.append((v, r[0]))
    if not need:
        pass
    elif unknown:
        ctx.ob(rule + ".value", "result table", True, "zero-test result is not a foldable integer term (%s): weak form only" % unknown, where=where(fn), weak=True)
    else:
        ctx.ob(rule + ".value", "result table[%s]" % "+".join(need), not wrong, "zero test evaluated for all 256 accumulator values (%s): %s" % ({("zero",): "OR==0 must be reported zero", ("nonzero",): "OR!=0 must be reported non-zero"}.get(tuple(need), "1 iff OR==0"), "holds (exhaustive)" if not wrong else "WRONG for %d values, e.g. OR=%d -> %d" % (len(wrong), wrong[0][0], wrong[0][1])), where=where(fn), sample={"term": show(strip_sites(inner), 8)})
    if check_asserts:
        # asserts in the zero test itself (over the accumulator) and in the straight-line helpers it hands the accumulator to
        # (over their 8-bit parameter: every value of the type is covered)
        from .aborts import small_int_vars

        todo = [(fn, ev)]
        for _, s_ in sorted(ev.sites.items()):
            g = P.fns.get(s_.callee[0])
            if g is not None and g.kind != "Closure" and not g.cfg.back_edges():
                todo.append((g, evaluate(g)))
        for gf, gev in todo:
            for b, (cond, ops) in sorted(gev.asserts.items()):
                tj = gf.blocks[b]["term"]
                if gf is fn:
                    vs = [(acc, "i8")] if any(s is acc for s in subterms(cond)) else []
                else:
                    vs = small_int_vars(gev, cond)
                if len(vs) != 1:
                    continue
                var, ty = vs[0]
                fails = []
                unk = None
                for v in (range(-128, 128) if ty == "i8" else range(0, 256)):
                    try:
                        r = eval_int(cond, {var: (v, 8, ty == "i8")})
                    except (ValueError, KeyError) as e:
                        unk = str(e)
                        break
                    if bool(r[0]) != tj["expected"]:
                        fails.append(v)
                if unk:
                    ctx.ob(rule + ".assert", "%s@%s" % (tj["kind"], "is_zero"), False, "cannot fold assert condition (%s)" % unk, where=where(gf, b))
                else:
                    ctx.ob(rule + ".assert", "%s" % tj["kind"], not fails, "Assert(%s) holds for all 256 accumulator values%s" % (tj["kind"], "" if not fails else ": FAILS for OR=%s" % [hex(x & 0xFF) for x in fails[:4]]), where=where(gf, b))


# ---------------------------------------------------------------------------
# 1:1 images of lists

_IMG_PEEL = ("Deref::deref", "Vec::<T, A>::as_slice", "Iterator::collect", "AsRef::as_ref", "slice::<impl [T]>::to_vec", "Clone::clone", "Borrow::borrow", "Vec::<T, A>::into_boxed_slice", "FromIterator::from_iter")
_IMG_ITER = ("slice::<impl [T]>::iter", "IntoIterator::into_iter", "Iterator::copied", "Iterator::cloned", "Iterator::enumerate", "Iterator::map")


def counted_exit(ev, h, d, want_init=None, want_step=None):
    """`while i < bound`: the tested value is a loop-carried counter that every way round the loop increases by a positive
    constant, and the bound does not change inside the loop - the loop runs at most bound - init times."""
    x = d
    while x.op in ("ref", "deref") or (x.op == "un" and x.a[0] == "Not"):
        x = x.a[1] if x.op == "un" else x.a[0]
    if not (x.op == "bin" and x.a[0] in ("Lt", "Le", "Ne", "Gt", "Ge")):
        return False
    a, b = x.a[1], x.a[2]
    if x.a[0] in ("Gt", "Ge"):
        a, b = b, a
    a = B.peel(a)
    if not (a.op == "loop" and a.a[0] == h):
        return False
    if any(t.op == "loop" and t.a[0] == h for t in subterms(b)) or any(t.op in ("mutcall",) for t in subterms(b)):
        return False
    if want_init is not None and B._const_int(a.a[2]) != want_init:
        return False
    step = ev.loop_step.get((h, a.a[1]))
    if step is None:
        return False
    alts = list(step.a[0]) if step.op == "phi" else [step]
    for st in alts:
        st = B.peel(st)
        if st.op == "field" and st.a[1] == "0" and st.a[0].op == "bin" and st.a[0].a[0] == "AddWithOverflow":
            st = T("bin", "Add", st.a[0].a[1], st.a[0].a[2])
        if not (st.op == "bin" and st.a[0] in ("Add", "AddUnchecked")):
            return False
        u, v = B.peel(st.a[1]), B.peel(st.a[2])
        c = B._const_int(v) if u is a or u == a else (B._const_int(u) if (v is a or v == a) else None)
        if c is None or c <= 0 or (want_step is not None and c != want_step):
            return False
    return (a, b, x.a[0])




def _len_subject(t):
    """x of `x.len()` (slice / Vec), else None."""
    t = B.peel(t)
    if t.op == "call" and B.cname(t) in ("slice::<impl [T]>::len", "Vec::<T, A>::len") and len(t.a[1]) == 1:
        return B.peel(t.a[1][0])
    if t.op == "len":
        return B.peel(t.a[0])
    return None


def _mentions_index(elem, src, counter, next_site=None):
    """The element expression reads `src[i]` where i is the loop counter / the value the range iterator yielded."""
    s0 = strip_sites(src)
    for x in subterms(elem):
        base = ix = None
        if x.op == "index":
            base, ix = x.a[0], x.a[1]
        elif x.op == "call" and B.cname(x) in ("Index::index", "IndexMut::index_mut") and len(x.a[1]) == 2:
            base, ix = x.a[1][0], x.a[1][1]
        if base is None or strip_sites(B.peel(base)) != s0:
            continue
        ixp = B.peel(ix)
        if counter is not None and (ixp is counter or strip_sites(ixp) == strip_sites(counter)):
            return True
        if next_site is not None and ixp.op == "field" and ixp.a[1] == "0" and ixp.a[0].op == "downcast" and B.peel(ixp.a[0].a[0]).op == "call" and B.cname(B.peel(ixp.a[0].a[0])) == "Iterator::next":
            return True
    return False


def image_source(P, fn, ev, t):
    """If `t` denotes a list that holds exactly one entry per element of another list - through map/collect
    pipelines or through a loop that pushes exactly once on every iteration - return (source term, steps);
    otherwise (None, reason).  The source term is what the pipeline / loop iterates (a parameter, a call result)."""
    steps = []
    for _ in range(24):
        while t.op in ("ref", "deref"):
            t = t.a[0]
        if t.op == "call" and B.cname(t) in _IMG_PEEL and len(t.a[1]) >= 1:
            steps.append(B.cname(t))
            t = t.a[1][0]
            continue
        if t.op == "call" and B.cname(t) in ("Index::index", "IndexMut::index_mut") and len(t.a[1]) == 2:
            rg = B.peel(t.a[1][1])
            if rg.op == "agg" and rg.a[0][0] == "adt" and rg.a[0][1] == "RangeFull":
                steps.append("[..]")
                t = t.a[1][0]
                continue
        if t.op == "call" and B.cname(t) in _IMG_ITER:
            steps.append(B.cname(t))
            t = t.a[1][0]
            continue
        if t.op == "mutcall" and B.cname(t) in ("Extend::extend", "Vec::<T, A>::extend_from_slice") and t.a[1] == 0 and len(t.a[2]) == 2:
            # `let mut v = Vec::with_capacity(n); v.extend(iter)`: a fresh vector filled by one extend holds the iterator's items
            base = t.a[2][0]
            while base.op in ("ref", "deref"):
                base = base.a[0]
            if base.op == "call" and B.cname(base) in ("Vec::<T>::new", "Vec::<T>::with_capacity"):
                steps.append(B.cname(t))
                t = t.a[2][1]
                continue
            return None, "extend of a vector that already holds elements: %s" % show(base, 3)
        if t.op == "phi":
            # the vector is built differently on different ways in: every way must leave a 1:1 image of the same list -
            # a vector left empty counts only where the list is known to be empty (`split_first` gave None, `is_empty`)
            r_ = _image_of_phi(P, fn, ev, t)
            if r_[0] is None:
                return r_
            steps.append("phi(%s)" % ", ".join(r_[1]))
            t = r_[0]
            continue
        if t.op == "loop":
            # a vector accumulated in a loop: the loop pushes into this very vector once on every way round
            init = t.a[2]
            while init.op in ("ref", "deref"):
                init = init.a[0]
            head = None
            if init.op == "mutcall" and B.cname(init) == "Vec::<T, A>::push" and init.a[1] == 0 and len(init.a[2]) == 2:
                # `v.push(f(first)); for x in rest { v.push(f(x)) }`: head pushed before the loop over the tail
                i0 = init.a[2][0]
                while i0.op in ("ref", "deref"):
                    i0 = i0.a[0]
                head, init = init.a[2][1], i0
            if not (init.op == "call" and B.cname(init) in ("Vec::<T>::new", "Vec::<T>::with_capacity")):
                return None, "loop-carried value is not a freshly created vector: %s" % show(init, 3)
            header = t.a[0]
            cfg = fn.cfg
            found = None
            for src, h in cfg.back_edges():
                if h != header:
                    continue
                body = cfg.natural_loop(src, h)
                pushes = [b for b in body if b in ev.sites and ev.sites[b].callee[0] == "Vec::<T, A>::push" and any(x.op == "loop" and x.a[0] == t.a[0] and x.a[1] == t.a[1] for x in subterms(ev.sites[b].args[0]))]
                if len(pushes) != 1 or not cfg.dominates(pushes[0], src):
                    return None, "loop at bb%d does not push exactly once on every iteration (pushes at %s)" % (h, pushes)
                nexts = [b for b in body if b in ev.sites and ev.sites[b].callee[0] == "Iterator::next"]
                elem = ev.sites[pushes[0]].args[1]
                if not nexts:
                    # `while k < x.len() { v.push(f(x[k])); k += 1 }` with k starting at 0
                    cnt = None
                    for b_ in body:
                        tt = fn.blocks[b_]["term"]
                        if tt["k"] == "switch" and any(x_ not in body for x_ in [y for _, y in tt["arms"]] + [tt["otherwise"]]):
                            d_ = ev.switch.get(b_)
                            r_ = counted_exit(ev, h, d_, want_init=0, want_step=1) if d_ is not None else False
                            if r_ and r_[2] == "Lt":
                                cnt = r_
                    if cnt is None:
                        return None, "loop at bb%d has neither an iterator nor a 0..len counter" % h
                    src_ = _len_subject(cnt[1])
                    if src_ is None or not _mentions_index(elem, src_, cnt[0]):
                        return None, "loop at bb%d: the pushed element is not built from x[k] of the list whose length bounds k" % h
                    found = src_
                    steps.append("index-loop@bb%s" % header)
                    continue
                if len(nexts) != 1:
                    return None, "loop at bb%d has %d iterator advances" % (h, len(nexts))
                it = B.peel(ev.sites[nexts[0]].args[0])
                if it.op != "loop":
                    return None, "loop iterator is not loop-carried"
                found = it.a[2]
                rng = B.peel(found)
                while rng.op == "call" and B.cname(rng) == "IntoIterator::into_iter" and len(rng.a[1]) == 1:
                    rng = B.peel(rng.a[1][0])
                if rng.op == "agg" and rng.a[0][0] == "adt" and rng.a[0][1] == "Range" and len(rng.a[1]) == 2:
                    # `for i in 0..x.len() { v.push(f(x[i])) }`
                    src_ = _len_subject(rng.a[1][1]) if B._const_int(rng.a[1][0]) == 0 else None
                    ix_ = T("field", T("downcast", ev.sites[nexts[0]].value, "Some"), "0")
                    if src_ is None or not _mentions_index(elem, src_, None, next_site=ev.sites[nexts[0]]):
                        return None, "loop at bb%d ranges over indices but the pushed element is not built from x[i] of the list whose length bounds i" % h
                    found = src_
                    steps.append("index-range@bb%s" % header)
            if found is None:
                return None, "no loop with header bb%s" % header
            steps.append("push-loop@bb%s" % header)
            if head is not None:
                whole = _tail_of(strip_sites(found))
                if whole is None or not any((x.op == "index" and B._const_int(x.a[1]) == 0 and strip_sites(B.peel(x.a[0])) == whole) or (x.op == "cidx" and x.a[1] == 0 and not (len(x.a) > 2 and x.a[2]) and strip_sites(B.peel(x.a[0])) == whole) for x in subterms(strip_sites(head))):
                    return None, "an element is pushed before the loop, and it is not the head of the list whose tail the loop walks: %s" % show(strip_sites(head), 4)
                steps.append("head+tail")
                t = whole
                continue
            t = found
            continue
        break
    return strip_sites(t), steps


def _tail_of(src):
    """X when `src` iterates X[1..] (range index, `[first, rest @ ..]`, skip(1)), else None."""
    t = src
    for _ in range(8):
        while t.op in ("ref", "deref"):
            t = t.a[0]
        if t.op == "call" and B.cname(t) in ("IntoIterator::into_iter", "slice::<impl [T]>::iter", "Iterator::copied", "Iterator::cloned") and len(t.a[1]) == 1:
            t = t.a[1][0]
            continue
        break
    if t.op == "call" and B.cname(t) == "Index::index" and len(t.a[1]) == 2:
        rng = B.peel(t.a[1][1])
        if rng.op == "agg" and rng.a[0][1] == "RangeFrom" and B._const_int(rng.a[1][0]) == 1:
            return B.peel(t.a[1][0])
    if t.op == "subslice" and t.a[3] is True and t.a[1] == 1 and t.a[2] == 0:
        return B.peel(t.a[0])
    if t.op == "call" and B.cname(t) == "Iterator::skip" and len(t.a[1]) == 2 and B._const_int(t.a[1][1]) == 1:
        x = t.a[1][0]
        for _ in range(4):
            while x.op in ("ref", "deref"):
                x = x.a[0]
            if x.op == "call" and B.cname(x) in ("IntoIterator::into_iter", "slice::<impl [T]>::iter") and len(x.a[1]) == 1:
                x = x.a[1][0]
                continue
            break
        return B.peel(x)
    return None


def _says_empty(lits, X):
    """One of the literals says the list X has no element."""
    for atom, pol in lits:
        if atom[0] != "atom":
            continue
        if atom[1] in ("switch", "switch_not") and hasattr(atom[2], "op") and atom[2].op == "discr":
            c = B.peel(strip_sites(atom[2].a[0]))
            if c.op == "call" and B.cname(c) in ("slice::<impl [T]>::split_first", "slice::<impl [T]>::split_last", "slice::<impl [T]>::first", "slice::<impl [T]>::last") and len(c.a[1]) == 1 and B.peel(c.a[1][0]) == X:
                none = (atom[1] == "switch" and atom[3] == 0 and pol) or (atom[1] == "switch_not" and pol and tuple(atom[3]) == (1,)) or (atom[1] == "switch" and atom[3] == 1 and not pol)
                if none:
                    return True
        if atom[1] == "term" and hasattr(atom[2], "op") and atom[2].op == "call" and B.cname(atom[2]) in ("slice::<impl [T]>::is_empty", "Vec::<T, A>::is_empty") and pol and B.peel(strip_sites(atom[2].a[1][0])) == X:
            return True
        if atom[1] == "cmp" and hasattr(atom[3], "op") and hasattr(atom[4], "op"):
            a, b = strip_sites(atom[3]), strip_sites(atom[4])
            c = B._const_int(b)
            if a.op == "call" and B.cname(a) in ("slice::<impl [T]>::len", "Vec::<T, A>::len") and B.peel(a.a[1][0]) == X and c is not None:
                if (atom[2], c, pol) in (("Eq", 0, True), ("Ne", 0, False), ("Lt", 1, True), ("Ge", 1, False), ("Gt", 0, False), ("Le", 0, True)):
                    return True
    return False


def _image_of_phi(P, fn, ev, t):
    cfg = fn.cfg
    join = None
    for j in sorted(ev.entry_state):
        preds = [p for p, _ in cfg.pred.get(j, [])] if isinstance(cfg.pred, dict) else [p for p, _ in cfg.pred[j]]
        if len(preds) < 2:
            continue
        for k, v in ev.entry_state[j].items():
            if v is t and len({id(ev.exit_state[p].get(k)) for p in preds if p in ev.exit_state}) > 1:
                join = (j, k, [p for p in preds if p in ev.exit_state])
                break
        if join:
            break
    if join is None:
        return None, "alternatives of a merged value, and the merge point was not found"
    j, k, preds = join
    srcs, empties, steps = [], [], []
    for p in preds:
        v = ev.exit_state[p].get(k)
        if v is None:
            return None, "merged value undefined on the way from bb%d" % p
        w = v
        while w.op in ("ref", "deref"):
            w = w.a[0]
        if w.op == "call" and B.cname(w) in ("Vec::<T>::new", "Vec::<T>::with_capacity"):
            empties.append(p)
            continue
        x, st = image_source(P, fn, ev, v)
        if x is None:
            return None, st
        srcs.append(x)
        steps.append("bb%d: %s" % (p, "/".join(st)))
    if not srcs or any(x != srcs[0] for x in srcs[1:]):
        return None, "the ways into bb%d do not leave images of one list" % j
    X = B.peel(srcs[0])
    for p in empties:
        if not _says_empty(G.path_literals(ev, p, P), X):
            return None, "the vector stays empty on the way from bb%d, where the list is not known to be empty" % p
        steps.append("bb%d: empty list" % p)
    return srcs[0], steps


# ---------------------------------------------------------------------------
# tables indexed by an 8-bit quantity


def index_upper_bound(t, P=None, depth=3):
    """Largest value an index term can take when it is built from an 8-bit quantity, else None."""
    while t.op in ("ref", "deref"):
        t = t.a[0]
    # element of a `map(.., closure)` pipeline: bound of what the closure returns
    if P is not None and depth > 0 and t.op == "field" and t.a[0].op == "downcast" and t.a[0].a[1] == "Some":
        nx = t.a[0].a[0]
        if nx.op == "call" and B.cname(nx) == "Iterator::next" and nx.a[1]:
            it = B.peel(nx.a[1][0])
            if it.op == "loop":
                it = it.a[2]
            it = B.peel(it)
            while it.op == "call" and B.cname(it) in ("IntoIterator::into_iter", "Iterator::copied", "Iterator::cloned"):
                it = B.peel(it.a[1][0])
            if it.op == "call" and B.cname(it) == "Iterator::map":
                clo = B.peel(it.a[1][1])
                if clo.op == "agg" and clo.a[0][0] == "closure" and clo.a[0][1] in P.fns:
                    return index_upper_bound(strip_sites(evaluate(P.fns[clo.a[0][1]]).ret), P, depth - 1)
    if t.op == "const" and t.a[0] == "int":
        return t.a[1]
    if t.op == "cast" and len(t.a) > 3 and t.a[3] == "u8":
        return 255
    if t.op == "cast" and len(t.a) > 3 and t.a[3] in ("usize", "u64", "u32", "u16") and t.a[2] in ("usize", "u64", "u32", "u16"):
        return index_upper_bound(t.a[1])
    if t.op == "call" and B.cname(t) in ("From::from", "Into::into") and len(t.a[1]) == 1 and "u8" in tuple(t.a[0][1]):
        return 255
    if t.op == "bin" and t.a[0] in ("Sub", "SubUnchecked"):
        hi, c = index_upper_bound(t.a[1]), B._const_int(t.a[2])
        return hi - c if hi is not None and c is not None else None
    if t.op == "bin" and t.a[0] in ("Add", "AddUnchecked"):
        hi, c = index_upper_bound(t.a[1]), B._const_int(t.a[2])
        return hi + c if hi is not None and c is not None else None
    if t.op == "field" and t.a[1] == "0" and t.a[0].op == "bin" and t.a[0].a[0] in ("SubWithOverflow", "AddWithOverflow"):
        hi, c = index_upper_bound(t.a[0].a[1]), B._const_int(t.a[0].a[2])
        if hi is None or c is None:
            return None
        return hi - c if t.a[0].a[0].startswith("Sub") else hi + c
    if t.op == "bin" and t.a[0] == "Rem":
        c = B._const_int(t.a[2])
        return c - 1 if c else None
    if t.op == "bin" and t.a[0] == "BitAnd":
        c = B._const_int(t.a[2])
        return c
    return None


def table_len(t):
    """Length of a fixed table `[x; N]` / `[a, b, ..]` a term was created as (through loops and in-place updates)."""
    for s in subterms(t):
        if s.op == "repeat" and isinstance(s.a[1], int):
            return s.a[1]
    for s in subterms(t):
        if s.op == "agg" and s.a[0][0] == "array":
            return len(s.a[1])
    return None


def check_u8_tables(ctx, rule, P, fns, what="share identifier"):
    """A fixed table looked up with `get`/`get_mut` by a value that ranges over a whole u8 (share identifiers are
    1..=255) must have at least 256 slots: otherwise the `None` arm silently treats a valid value as absent/invalid.
    (Panicking `table[i]` forms are the abort census's business.)"""
    n = 0
    for f in fns:
        ev = evaluate(f)
        for bb, s in sorted(ev.sites.items()):
            if s.callee[0] not in ("slice::<impl [T]>::get", "slice::<impl [T]>::get_mut", "slice::<impl [T]>::get_unchecked", "slice::<impl [T]>::get_unchecked_mut") or len(s.args) != 2:
                continue
            N = table_len(s.args[0])
            hi = index_upper_bound(strip_sites(s.args[1]), P)
            if N is None or hi is None:
                continue
            n += 1
            ctx.ob(rule, "%s/%s" % (f.key, s.callee[0].split("::")[-1]), hi < N, "table of %d slot(s) looked up by a value that can be as large as %d (%s): %s" % (N, hi, what, "every value has a slot" if hi < N else "values %d..=%d fall into the `None` arm" % (N, hi)), where=where(f, bb))
    return n


# ---------------------------------------------------------------------------
# share sets are sets: validation must not depend on the order of the list


def order_sensitive_comparisons(P, fn):
    """Comparisons `<`, `<=`, `>`, `>=` between the identifiers of two elements of a share list, in fn or its closures:
    [(function, description)].  A share set is valid in any order, so such a comparison cannot decide validity."""
    out = []
    fns = [fn] + [g for g in P.fns.values() if g.kind == "Closure" and (g.j.get("parent_key") or "").startswith(fn.key)]
    for g in fns:
        ev = evaluate(g)
        terms = [ev.ret] + list(ev.switch.values()) + [a for s in ev.sites.values() for a in s.args]
        seen = set()
        for t in terms:
            if t is None:
                continue
            for x in subterms(strip_sites(t)):
                if x in seen:
                    continue
                seen.add(x)
                cmp_ = None
                if x.op == "bin" and x.a[0] in ("Lt", "Le", "Gt", "Ge"):
                    cmp_ = (x.a[0], x.a[1], x.a[2])
                elif x.op == "call" and B.cname(x) in ("PartialOrd::lt", "PartialOrd::le", "PartialOrd::gt", "PartialOrd::ge") and len(x.a[1]) == 2:
                    cmp_ = (B.cname(x).split("::")[-1], x.a[1][0], x.a[1][1])
                if cmp_ is None:
                    continue
                ids = [[y for y in subterms(side) if y.op == "call" and B.cname(y).endswith("::identifier")] for side in cmp_[1:]]
                if ids[0] and ids[1]:
                    out.append((g, "%s %s %s" % (show(cmp_[1], 3), cmp_[0], show(cmp_[2], 3))))
    return out


def check_order_insensitive(ctx, rule, P, fn_keys):
    for fk in fn_keys:
        f = P.fns.get(fk)
        if f is None:
            continue
        bad = order_sensitive_comparisons(P, f)
        ctx.ob(rule, fk, not bad, "share-set validation in %s does not compare identifiers of list neighbours by order%s" % (fk, "" if not bad else ": " + "; ".join(d for _, d in bad[:2]) + " - a valid share set handed over in another order is refused"), where=where(bad[0][0]) if bad else where(f))


# ---------------------------------------------------------------------------
# "one pairing input per list entry", however it is written


def _has_h2p(t):
    return any(x.op == "call" and B.cname(x) == "HashToPoint::hash_to_point" for x in subterms(t))


def entry_builders(P, fn):
    """Where fn builds its per-entry pairing input (hash_to_point(msg, dst), pk): either a `push` in a loop over the
    list, or the closure of a `map(..)` whose results are collected.  Each builder: dict(mode, fn, bb, value, lits,
    source, every) - `value` the pair term, `lits` the conditions under which it is built, `source` what is iterated,
    `every` whether every element yields its pair or an error."""
    from . import guardrules as R

    ev = evaluate(fn)
    cfg = fn.cfg
    out = []
    # (a) push in a loop (a loop = all back edges into one header: `continue` adds a second one)
    headers = {}
    for src_b, h in cfg.back_edges():
        headers.setdefault(h, []).append(src_b)
    for h, latches in sorted(headers.items()):
        body = set()
        for src_b in latches:
            body |= set(cfg.natural_loop(src_b, h))
        pushes = [b for b in sorted(body) if b in ev.sites and ev.sites[b].callee[0] == "Vec::<T, A>::push" and _has_h2p(ev.sites[b].args[1])]
        for b in pushes:
            srcs = [s for bb, s in R.loop_sources(fn) if bb in body]
            out.append({"mode": "push-loop", "fn": fn, "bb": b, "value": strip_sites(ev.sites[b].args[1]), "lits": G.path_literals(ev, b, P, checks_only=True), "source": srcs[0] if srcs else None, "every": all(cfg.dominates(b, src_b) for src_b in latches), "header": h})
    # (b) map(closure) + collect
    for b, s in sorted(ev.sites.items()):
        if s.callee[0] != "Iterator::map" or len(s.args) != 2:
            continue
        clo = B.peel(s.args[1])
        if not (clo.op == "agg" and clo.a[0][0] == "closure"):
            continue
        g = P.fns.get(clo.a[0][1])
        if g is None or g.cfg.back_edges():
            continue
        gev = evaluate(g)
        rty = g.locals[0].get("ty") or ""
        if "Result<" in rty:
            exits = R.ok_exits(P, g, gev)
            vals = []
            for gb, lits in exits:
                v = _R().ok_value(gev.fn, gev, gb) if gb in gev.exit_state else None
                if v is not None and v.op == "agg" and v.a[1]:
                    vals.append((gb, strip_sites(v.a[1][0]), lits))
        else:
            vals = [(rb, strip_sites(gev.ret_at[rb]), G.path_literals(gev, rb, P, checks_only=True)) for rb in gev.ret_at]
        vals = [v for v in vals if _has_h2p(v[1])]
        if not vals:
            continue
        collected = any(x.op == "call" and B.cname(x) == "Iterator::collect" and any(y.op == "call" and y.a[0] == s.callee and strip_sites(y) == strip_sites(s.value) for y in subterms(x)) for bb2, s2 in ev.sites.items() for x in [strip_sites(s2.value)] if s2.callee[0] == "Iterator::collect")
        # captured variables: field i of the closure environment is the i-th captured operand of the aggregate
        from ..core.terms import subst

        envp = T("param", 1, gev.pname(1))
        cap = {}
        for i, c in enumerate(clo.a[1]):
            cs = strip_sites(c)
            for base in (envp, T("deref", envp)):
                cap[T("field", base, str(i))] = cs
        vals = [(gb, strip_sites(subst(v, cap)), lits) for gb, v, lits in vals]
        for gb, v, lits in vals:
            out.append({"mode": "map-closure", "fn": g, "bb": gb, "value": v, "lits": lits, "source": strip_sites(s.args[0]), "every": collected and len(vals) == 1, "header": None})
    # (c) for_each / try_for_each(closure) that pushes the pair into a captured vector
    for b, s in sorted(ev.sites.items()):
        if s.callee[0] not in ("Iterator::for_each", "Iterator::try_for_each") or len(s.args) != 2:
            continue
        clo = B.peel(s.args[1])
        if not (clo.op == "agg" and clo.a[0][0] == "closure"):
            continue
        g = P.fns.get(clo.a[0][1])
        if g is None or g.cfg.back_edges():
            continue
        gev = evaluate(g)
        pushes = [gb for gb, gs in sorted(gev.sites.items()) if gs.callee[0] == "Vec::<T, A>::push" and len(gs.args) == 2 and _has_h2p(gs.args[1])]
        if not pushes:
            continue
        from ..core.terms import subst

        envp = T("param", 1, gev.pname(1))
        cap = {}
        for i, c in enumerate(clo.a[1]):
            cs = strip_sites(c)
            for base in (envp, T("deref", envp)):
                cap[T("field", base, str(i))] = cs
        fallible = s.callee[0].endswith("try_for_each")
        okb = (R.ok_blocks(g) if fallible else list(gev.ret_at)) or list(gev.ret_at)
        # a failing element stops the whole verification: the pipeline's result is branched on by fn
        sv = s.value
        propagated = (not fallible) or any(d is not None and any(x is sv or x == sv for x in subterms(d)) for d in ev.switch.values()) or any(s2.callee[0] == "Try::branch" and s2.args and any(x is sv or x == sv for x in subterms(s2.args[0])) for s2 in ev.sites.values())
        for gb in pushes:
            every = propagated and all(g.cfg.dominates(gb, o) for o in okb)
            out.append({"mode": "for-each-closure", "fn": g, "bb": gb, "value": strip_sites(subst(gev.sites[gb].args[1], cap)), "lits": G.path_literals(gev, gb, P, checks_only=True), "source": strip_sites(s.args[0]), "every": every, "header": None})
    return out


def check_entry_pair_form(ctx, rule, P, fk, ents):
    """The pairing input an entry contributes is (hash_to_point(message of THIS entry, tag), key of THIS entry): the hash
    component is the hash call itself - not a value carried over from an earlier iteration or merged with one (a cache
    keyed on the previous message, a default kept when a branch is skipped) - and its message and the key are projections
    of the element the loop / closure is at."""
    def of_element(t, mode):
        t = strip_sites(t)
        for _ in range(16):
            t = B.peel(t)
            if t.op == "call" and len(t.a[1]) >= 1 and (B.cname(t) in _COPYISH or B.cname(t) in ("AsRef::as_ref", "Deref::deref", "Borrow::borrow", "Clone::clone")):
                t = t.a[1][0]
                continue
            if t.op in ("field", "downcast", "ref", "deref"):
                t = t.a[0]
                continue
            break
        if mode == "push-loop":
            return t.op == "call" and B.cname(t) == "Iterator::next"
        return (t.op == "param" and t.a[0] >= 2) or (t.op == "call" and B.cname(t) == "Iterator::next")

    for e in ents:
        v = B.peel(e["value"])
        comps = list(v.a[1]) if v.op == "agg" and v.a[0][0] == "tuple" else []
        hs = [B.peel(c) for c in comps if _has_h2p(c)]
        ks = [c for c in comps if not _has_h2p(c)]
        ok = len(comps) == 2 and len(hs) == 1 and len(ks) == 1
        why = "pair = %s" % show(v, 4)
        if ok:
            h = hs[0]
            direct = h.op == "call" and B.cname(h) == "HashToPoint::hash_to_point" and len(h.a[1]) == 2
            ok = direct and of_element(h.a[1][0], e["mode"]) and of_element(ks[0], e["mode"])
            why = "hash component %s; its message %s; key component %s" % ("is the hash_to_point call itself" if direct else "is NOT the call itself (carried over / merged): " + show(h, 3), "is a projection of the current element" if direct and of_element(h.a[1][0], e["mode"]) else "is not a projection of the current element", "is a projection of the current element" if of_element(ks[0], e["mode"]) else "is not a projection of the current element: " + show(B.peel(ks[0]), 3))
        ctx.ob(rule, fk + "/entry-pair", ok, "every entry contributes (hash_to_point(its own message, tag), its own key): %s" % why, where=where(e["fn"], e["bb"]))


def closure_result(P, clo):
    """What a closure literal returns, in the caller's terms (captured variables substituted), else None."""
    from ..core.terms import subst

    clo = B.peel(clo)
    if not (clo.op == "agg" and clo.a[0][0] == "closure"):
        return None
    g = P.fns.get(clo.a[0][1])
    if g is None:
        return None
    gev = evaluate(g)
    envp = T("param", 1, gev.pname(1))
    cap = {}
    for i, c in enumerate(clo.a[1]):
        cs = strip_sites(c)
        for base in (envp, T("deref", envp)):
            cap[T("field", base, str(i))] = cs
    return strip_sites(subst(strip_sites(gev.ret), cap))


def closing_pair_candidates(P, ev):
    """2-tuples mentioning the `sig` parameter among the values a function hands to calls - also the one a lazily
    evaluated `iter::once_with(|| (sig, -G))` / `repeat_with` closure returns."""
    cand = {}
    for s_ in ev.sites.values():
        vals = [strip_sites(a_) for a_ in s_.args]
        if s_.callee[0].split("::")[-1] in ("once_with", "repeat_with", "from_fn") and s_.args:
            r = closure_result(P, s_.args[0])
            if r is not None:
                vals.append(r)
        for v in vals:
            for x in subterms(v):
                if x.op == "agg" and x.a[0][0] == "tuple" and len(x.a[1]) == 2 and any(y.op == "param" and y.a[1] == "sig" for c_ in x.a[1] for y in subterms(c_)):
                    cand[x] = True
    return cand


def _R():
    from . import guardrules as R

    return R


# ---------------------------------------------------------------------------
# "sum over the list", however it is written


def accumulators(P, fn):
    """Where fn adds list elements into an accumulator: a loop with `+=` / `acc = acc + x`, or the closure of
    `fold` / `try_fold`.  Each: dict(mode, fn, bb, lits, elem, source, every, captures) - `lits` the conditions under
    which the element is added, `elem` the element term in that function's terms, `source` what is iterated."""
    from . import guardrules as R
    from ..core.terms import subst

    ev = evaluate(fn)
    cfg = fn.cfg
    out = []
    headers = {}
    for src_b, h in cfg.back_edges():
        headers.setdefault(h, []).append(src_b)
    for h, latches in sorted(headers.items()):
        body = set()
        for src_b in latches:
            body |= set(cfg.natural_loop(src_b, h))
        accs = [b for b in sorted(body) if b in ev.sites and ev.sites[b].callee[0] in ("AddAssign::add_assign",)]
        for b in accs:
            srcs = [s for bb, s in R.loop_sources(fn) if bb in body]
            src0 = srcs[0] if srcs else None
            if src0 is not None:
                # `for i in c..x.len()`: the positions count as the elements only when what is added is built from x[i]
                rng = B.peel(src0)
                while rng.op == "call" and B.cname(rng) == "IntoIterator::into_iter" and len(rng.a[1]) == 1:
                    rng = B.peel(rng.a[1][0])
                if rng.op == "agg" and rng.a[0][0] == "adt" and rng.a[0][1] == "Range" and len(rng.a[1]) == 2:
                    subj = _len_subject(rng.a[1][1])
                    if subj is None or not _mentions_index(ev.sites[b].args[1], subj, None, next_site=True):
                        src0 = None
            out.append({"mode": "loop", "fn": fn, "bb": b, "lits": G.path_literals(ev, b, P, checks_only=True), "elem": strip_sites(ev.sites[b].args[1]), "source": src0, "every": all(cfg.dominates(b, s_) for s_ in latches), "cap": {}})
    for b, s in sorted(ev.sites.items()):
        if s.callee[0] not in ("Iterator::fold", "Iterator::try_fold") or len(s.args) != 3:
            continue
        clo = B.peel(s.args[2])
        if not (clo.op == "agg" and clo.a[0][0] == "closure"):
            continue
        g = P.fns.get(clo.a[0][1])
        if g is None or g.cfg.back_edges():
            continue
        gev = evaluate(g)
        envp = T("param", 1, gev.pname(1))
        cap = {}
        for i, c in enumerate(clo.a[1]):
            for base in (envp, T("deref", envp)):
                cap[T("field", base, str(i))] = strip_sites(c)
        sites = [(gb, gs) for gb, gs in sorted(gev.sites.items()) if gs.callee[0] in ("AddAssign::add_assign", "Add::add")]
        # every non-error way through the closure adds the element
        okb = R.ok_blocks(g) if "Result<" in (g.locals[0].get("ty") or "") else list(gev.ret_at)
        for gb, gs in sites:
            lits = R.subst_literals(G.path_literals(gev, gb, P, checks_only=True), cap, P)
            every = bool(okb) and all(g.cfg.dominates(gb, ob) for ob in okb)
            out.append({"mode": s.callee[0].split("::")[-1], "fn": g, "bb": gb, "lits": lits, "elem": strip_sites(subst(gs.args[1], cap)), "source": strip_sites(s.args[0]), "every": every, "cap": cap, "outer": G.path_literals(ev, b, P, checks_only=True), "site_bb": b})
    return out


_LIGHT_CALLS = {
    "AsRef::as_ref", "Deref::deref", "Borrow::borrow", "slice::<impl [T]>::len", "slice::<impl [T]>::is_empty", "Vec::<T, A>::len", "Vec::<T, A>::is_empty",
    "Vec::<T, A>::as_slice", "Index::index", "slice::<impl [T]>::first", "slice::<impl [T]>::last", "slice::<impl [T]>::get", "PartialEq::eq", "PartialEq::ne",
    "PartialOrd::lt", "PartialOrd::le", "PartialOrd::gt", "PartialOrd::ge", "slice::<impl [T]>::starts_with", "slice::<impl [T]>::ends_with", "slice::<impl [T]>::contains",
    "Option::<T>::is_some", "Option::<T>::is_none", "Option::<T>::unwrap_or", "Option::<T>::unwrap_or_default", "Clone::clone", "Into::into", "From::from",
    "slice::<impl [T]>::to_vec", "ToOwned::to_owned", "slice::<impl [T]>::iter", "Iterator::count", "IntoIterator::into_iter", "slice::<impl [T]>::split_first", "slice::<impl [T]>::split_last",
    # the crate's own byte-string zero test reads every byte of its argument
    "IsZero::is_zero",
}


def reads_directly(t, pnames, targets=()):
    """Does the (branch) condition look at the named parameters itself - their bytes or length through indexing,
    comparisons, arithmetic - rather than at the verdict of a function they were handed to?"""
    t = strip_sites(t)
    seen = {}

    def rec(x):
        if x in seen:
            return seen[x]
        seen[x] = False
        r = False
        if x.op == "discr":
            # which constructor a value was built with says nothing about its payload: `match opt { Some(m) => .., None => .. }`
            # over Some(message) / None tests the verdict of the step that produced the message, not the message
            def dis(y):
                while y.op in ("ref", "deref"):
                    y = y.a[0]
                if y.op == "agg" or y in targets:
                    return False
                if y.op == "phi":
                    return any(dis(z) for z in y.a[0])
                if y.op == "call" and B.cname(y) in ("FromResidual::from_residual",):
                    return False
                return rec(y)

            r = dis(x.a[0])
            seen[x] = r
            return r
        if x in targets:
            r = True
        elif x.op == "param":
            r = x.a[1] in pnames
        elif x.op in ("call", "mutcall"):
            if B.cname(x) in _LIGHT_CALLS:
                args = x.a[1] if x.op == "call" else x.a[2]
                r = any(rec(y) for y in args if isinstance(y, T))
        else:
            for y in x.a:
                if isinstance(y, T):
                    r = r or rec(y)
                elif isinstance(y, tuple):
                    r = r or any(rec(z) for z in y if isinstance(z, T))
        seen[x] = r
        return r

    return rec(t)


def _folds_over_param(f, ev, d, pnames):
    """The branch condition is computed by a loop that walks the bytes of one of the named parameters (a spliced
    `is_zero` / checksum / comparison loop): `loop@h` in the condition whose iterator is `param.iter()`."""
    cfg = f.cfg
    for t in subterms(d):
        if t.op != "loop":
            continue
        h = t.a[0]
        body = set()
        for src, hh in cfg.back_edges():
            if hh == h:
                body |= set(cfg.natural_loop(src, h))
        for b in body:
            s_ = ev.sites.get(b)
            if s_ is None or s_.callee[0] != "Iterator::next" or not s_.args:
                continue
            it = B.peel(s_.args[0])
            src_t = it.a[2] if it.op == "loop" else it
            if any(x.op == "param" and x.a[1] in pnames for x in subterms(strip_sites(src_t))):
                return True
    return False


def check_message_blind_control(ctx, rule, P, root_keys, pnames=("msg", "message"), floor=4):
    """Verification (and signing) decide through the hash of the message only: in every function reachable from the
    roots that has a message parameter, no branch condition reads the message itself (its length, its bytes).  A branch
    on `msg.is_empty()` or `msg[0]` makes the verdict differ from CoreVerify's for some message."""
    from .common import reachable_fns

    roots = [P.fns[k] for k in root_keys if k in P.fns]
    for k in root_keys:
        if k not in P.fns:
            ctx.ob(rule + ".anchor", k, False, "function `%s` not found" % k)
    reach = reachable_fns(P, roots)
    n = 0
    for k, f in sorted(reach.items()):
        if f.from_expansion:
            continue
        mine = [f.locals[i].get("name") for i in range(1, f.arg_count + 1) if f.locals[i].get("name") in pnames]
        if not mine:
            continue
        n += 1
        ev = evaluate(f)
        bad = [(b, d) for b, d in sorted(ev.switch.items()) if d is not None and (reads_directly(d, mine) or _folds_over_param(f, ev, d, mine))]
        ctx.ob(rule, k, not bad, "no branch of %s looks at the message itself%s" % (k, "" if not bad else ": " + show(strip_sites(bad[0][1]), 4)[:160]), where=where(f, bad[0][0]) if bad else where(f))
    ctx.floor(rule, "functions with a message parameter on the way", n, floor)


def check_sum_once(ctx, rule, P, fn, list_param, out_adt, cov):
    """The value handed out is the sum in which every list element occurs exactly once: under each scheme of element 0
    the payload of the result is flattened over `+` into leaves - the accumulation (a loop / fold with its initial
    value), the group identity, and terms of element 0.  With the accumulation running over list[1..] element 0 occurs
    exactly once among the leaves (the initial value of the accumulator included); over the whole list, never."""
    from . import guardrules as R
    from . import spec as SP

    def is_elem0(t):
        for x in subterms(t):
            if x.op == "index" and B._const_int(x.a[1]) == 0:
                b = B.peel(x.a[0])
                if b.op == "param" and b.a[1] == list_param:
                    return True
        return False

    def leaves(t):
        t = B.peel(t)
        while True:
            if t.op == "call" and B.cname(t) in ("Clone::clone", "Into::into", "From::from", "Try::branch", "Result::<T, E>::unwrap", "Result::<T, E>::expect", "Option::<T>::unwrap", "Option::<T>::expect") and len(t.a[1]) >= 1:
                t = B.peel(t.a[1][0])
            elif t.op == "field" and t.a[1] == "0" and t.a[0].op == "downcast" and t.a[0].a[1] in ("Continue", "Ok", "Some"):
                # the value carried by `x?` / an Ok(..) / Some(..) payload
                t = B.peel(t.a[0].a[0])
            else:
                break
        if t.op == "call" and B.cname(t) in ("Add::add",) and len(t.a[1]) == 2:
            return leaves(t.a[1][0]) + leaves(t.a[1][1])
        if t.op == "mutcall" and B.cname(t) == "AddAssign::add_assign" and t.a[1] == 0 and len(t.a[2]) == 2:
            # `g += x` after the loop: the sum so far plus x
            return leaves(t.a[2][0]) + leaves(t.a[2][1])
        if t.op == "phi":
            return [("other", t)]
        if t.op == "loop":
            return [("acc", t)] + leaves(t.a[2])
        if t.op == "call" and B.cname(t) in ("Iterator::fold", "Iterator::try_fold") and len(t.a[1]) == 3:
            return [("acc", t)] + leaves(t.a[1][1])
        if t.op == "call" and B.cname(t) in ("Iterator::sum",):
            return [("acc", t)]
        if t.op == "call" and B.cname(t) in ("Group::identity", "Default::default", "Zero::zero"):
            return [("identity", t)]
        if is_elem0(t):
            return [("elem0", t)]
        return [("other", t)]

    n = 0
    for a in SP.assumptions(P, fn):
        ev = evaluate(fn, a)
        for b in R.ok_blocks(fn):
            v = R.ok_value(fn, ev, b)
            if v is None:
                continue
            v = strip_sites(v)
            pay = [x for x in subterms(v) if x.op == "agg" and x.a[0][0] == "adt" and x.a[0][1] == out_adt and len(x.a[1]) == 1]
            if not pay:
                continue
            n += 1
            ls = leaves(pay[0].a[1][0])
            kinds = [k for k, _ in ls]
            want0 = 1 if cov == "tail1" else 0
            ok = kinds.count("acc") == 1 and kinds.count("elem0") == want0 and "other" not in kinds
            name = "/".join(str(x) for x in a.values()) or "-"
            ctx.ob(rule, "%s@%s" % (fn.key, name), ok, "with element 0 of scheme %s the result is the sum of [%s]: one accumulation over %s and element 0 exactly %d time(s)" % (name, ", ".join("%s" % k if k != "other" else "other:" + show(t, 3) for k, t in ls), "list[1..]" if cov == "tail1" else "the whole list", want0), where=where(fn, b))
    return n


def check_sum_once_of(ctx, rule, P, fn_key, list_param, out_adt, floor):
    """check_sum_once with the coverage of the accumulation worked out here (for rules that do not look at it otherwise)."""
    from . import guardrules as R

    f = ctx.need_fn(rule, fn_key, P)
    if f is None:
        return
    accs_ = accumulators(P, f)
    for a_ in accs_:
        # the sum has one term per element: no way round the loop (no closure exit) skips the addition and carries on
        ctx.ob(rule, fn_key + "/every-element", a_["every"], "every element the accumulation visits is added, or the function leaves through Err (%s) - none is skipped" % a_["mode"], where=where(a_["fn"], a_["bb"]))
    cov = [R.covers_all(a_["source"], list_param) for a_ in accs_ if a_["source"] is not None]
    if len(cov) != 1 or cov[0] not in ("all", "tail1"):
        ctx.ob(rule, fn_key, False, "accumulation over `%s` not recognised (coverage %s)" % (list_param, cov), where=where(f))
        return
    n = check_sum_once(ctx, rule, P, f, list_param, out_adt, cov[0])
    ctx.floor(rule, "schemes of %s whose result is the once-each sum" % fn_key, n, floor)


# ---------------------------------------------------------------------------
# parameter-range rejections decided on a finite grid


def check_range_rejections(ctx, rule, P, fn_key, params, valid, grid, describe):
    """Own rejections of integer parameters: every Err exit of fn whose path condition consists of comparisons over the
    given parameters and constants is evaluated on a finite grid (exhaustive folding of the extracted comparison
    terms); no point of the valid region may be rejected.  Exits whose condition involves anything else are not
    decided here."""
    from . import guardrules as R

    f = P.fns.get(fn_key)
    if f is None:
        return
    ev = evaluate(f)
    pterms = {}
    for i in range(1, f.arg_count + 1):
        if f.locals[i].get("name") in params:
            pterms[f.locals[i]["name"]] = T("param", i, ev.pname(i))
    if set(pterms) != set(params):
        return
    n = 0
    for b in R.err_blocks(f):
        lits = [(a, p) for a, p in G.path_literals(ev, b, P, checks_only=True)]
        cmps = [(a, p) for a, p in lits if a[0] == "atom" and a[1] == "cmp"]
        others = [(a, p) for a, p in lits if not (a[0] == "atom" and a[1] == "cmp")]
        if not cmps:
            continue

        def only_params(t):
            return all(x.op != "param" or x in pterms.values() for x in subterms(t)) and not any(x.op in ("call", "mutcall", "loop", "phi") for x in subterms(t))

        cmps = [(a, p) for a, p in cmps if only_params(a[3]) and only_params(a[4]) and any(x.op == "param" for x in subterms(a[3]) | subterms(a[4]))]
        if not cmps or any(any(x.op == "param" for x in subterms(a[2])) for a, p in others if len(a) > 2 and hasattr(a[2], "op")):
            continue
        n += 1
        bad = None
        for pt in grid:
            env = {pterms[k]: (v, 64, False) for k, v in zip(params, pt)}
            try:
                holds = True
                for a, pol in cmps:
                    x, y = eval_int(a[3], env)[0], eval_int(a[4], env)[0]
                    r = {"Lt": x < y, "Le": x <= y, "Gt": x > y, "Ge": x >= y, "Eq": x == y, "Ne": x != y}[a[2]]
                    if r != pol:
                        holds = False
                        break
            except Exception:
                holds = False
                break
            if holds and valid(*pt):
                bad = pt
                break
        conds = " & ".join("%s%s %s %s" % ("" if p else "!", show(a[3], 3), a[2], show(a[4], 3)) for a, p in cmps)
        ctx.ob(rule, "%s/err[%s]" % (fn_key, conds[:80]), bad is None, "%s rejects when %s: %s" % (fn_key, conds, "no valid %s is rejected (folded over the grid)" % describe if bad is None else "REJECTS the valid %s %s" % (describe, dict(zip(params, bad)))), where=where(f, b))
    return n


def _range_contains(t):
    """(lo, hi, hi_inclusive, item) of `(lo..hi).contains(&item)` in any of the std range forms, else None."""
    t = B.peel(t)
    if not (t.op == "call" and len(t.a[1]) == 2):
        return None
    m = B.cname(t)
    if not m.endswith("::contains") or not m.startswith(("Range", "ops::Range", "RangeBounds", "ops::RangeBounds")):
        return None
    r, item = B.peel(t.a[1][0]), B.peel(t.a[1][1])
    if r.op == "agg" and r.a[0][0] == "adt":
        kind, fields = r.a[0][1], dict(zip(r.a[0][3], r.a[1]))
        if kind in ("Range", "RangeFrom", "RangeTo", "RangeToInclusive"):
            return (fields.get("start"), fields.get("end"), kind == "RangeToInclusive", item)
        return None
    if r.op == "call" and B.cname(r).endswith("RangeInclusive::<Idx>::new") and len(r.a[1]) == 2:
        return (r.a[1][0], r.a[1][1], True, item)
    return None


def _about_len_only(a, list_param, R):
    """The literal speaks about the element count of the list and about nothing else."""
    if a[0] != "atom":
        return False
    ts = [x for x in a[2:] if hasattr(x, "op")]
    if not ts:
        return False
    for t in ts:
        for x in subterms(t):
            if x.op == "param" and x.a[1] != list_param:
                return False
            if x.op in ("loop", "phi", "mutcall"):
                return False
            if x.op == "call" and B.cname(x) not in ("slice::<impl [T]>::len", "Vec::<T, A>::len", "slice::<impl [T]>::is_empty", "Vec::<T, A>::is_empty") and not (B.cname(x).endswith("::contains") and B.cname(x).startswith(("Range", "ops::Range"))) and not B.cname(x).endswith("RangeInclusive::<Idx>::new"):
                return False
    return any(x.op == "param" and x.a[1] == list_param for t in ts for x in subterms(t))


def check_len_rejections(ctx, rule, P, fn_key, list_param, valid_len, lengths, describe):
    """Own rejections by the NUMBER of list elements: every Err exit of fn (spliced helpers included) whose path condition
    consists of comparisons between `len(list_param)` and constants is evaluated for each length of `lengths`; no
    admitted length may be refused ("any t or more shares ... up to 255").  Returns the number of such exits."""
    from . import guardrules as R

    f = P.fns.get(fn_key)
    if f is None:
        return 0
    ev = evaluate(f)
    n = 0
    for b in R.err_blocks(f):
        lits = G.path_literals(ev, b, P, checks_only=True)
        cmps = []
        other = 0
        for a, pol in lits:
            if not _about_len_only(a, list_param, R):
                other += 1
        if other:
            # the exit also depends on something that is not the element count (a scheme comparison, a decoded value ..):
            # it is not a rejection by count
            continue
        for a, pol in lits:
            rc = _range_contains(a[2]) if (a[0] == "atom" and a[1] == "term") else None
            if rc is not None and R._is_len_of(rc[3], list_param):
                lo, hi, incl, item = rc
                if any(x is not None and any(y.op in ("param", "call", "mutcall", "loop", "phi") for y in subterms(x)) for x in (lo, hi)):
                    continue

                def holds_rc(L, lo=lo, hi=hi, incl=incl):
                    if lo is not None and not (eval_int(lo, {})[0] <= L):
                        return False
                    if hi is not None:
                        h = eval_int(hi, {})[0]
                        if not (L <= h if incl else L < h):
                            return False
                    return True

                cmps.append((holds_rc, pol, "len in %s..%s%s" % (show(lo, 3) if lo is not None else "", "=" if incl else "", show(hi, 3) if hi is not None else "")))
                continue
            if a[0] == "atom" and a[1] == "term" and a[2].op == "call" and B.cname(a[2]) in ("slice::<impl [T]>::is_empty", "Vec::<T, A>::is_empty") and len(a[2].a[1]) == 1:
                off_ = R._len_offset(a[2].a[1][0], list_param)
                if off_ is not None:

                    def holds_empty(L, off=off_):
                        if L - off < 0:
                            raise ValueError("sub-slice does not exist for this length")
                        return L - off == 0

                    cmps.append((holds_empty, pol, "is_empty(%s)" % show(a[2].a[1][0], 3)))
                continue
            if not (a[0] == "atom" and a[1] == "cmp"):
                continue
            sides = (a[3], a[4])
            # len(list) itself, or the length of a sub-slice of it at a constant offset (`rest` of `[first, rest @ ..]`)
            lens = [(x, R._len_offset_of_len(x, list_param)) for x in sides if R._len_offset_of_len(x, list_param) is not None]
            if len(lens) != 1:
                continue
            other = sides[1] if lens[0][0] is sides[0] else sides[0]
            if any(x.op in ("param", "call", "mutcall", "loop", "phi") for x in subterms(other)):
                continue

            def holds_cmp(L, a=a, lt=lens[0][0], off=lens[0][1]):
                if L - off < 0:
                    raise ValueError("sub-slice does not exist for this length")
                env = {lt: (L - off, 64, False)}
                x, y = eval_int(a[3], env)[0], eval_int(a[4], env)[0]
                return {"Lt": x < y, "Le": x <= y, "Gt": x > y, "Ge": x >= y, "Eq": x == y, "Ne": x != y}[a[2]]

            cmps.append((holds_cmp, pol, "%s %s %s" % (show(a[3], 3), a[2], show(a[4], 3))))
        if not cmps:
            continue
        n += 1
        bad = None
        for L in lengths:
            try:
                holds = all(fn(L) == pol for fn, pol, _ in cmps)
            except Exception:
                holds = False
            if holds and valid_len(L):
                bad = L
                break
        conds = " & ".join("%s%s" % ("" if p else "!", d) for _, p, d in cmps)
        ctx.ob(rule, "%s/err[%s]" % (fn_key, conds[:80]), bad is None, "%s rejects when %s: %s" % (fn_key, conds, "no admitted %s is refused" % describe if bad is None else "REFUSES the admitted %s %d" % (describe, bad)), where=where(f, b))
    # the same question decided by walking the control-flow graph for each length: as long as every branch on the way is
    # decided by the element count alone (comparisons of len / of a sub-slice's len, is_empty, slice patterns), follow it;
    # reaching an error exit that way is a rejection by count (this sees disjunctive guards such as
    # `match xs { [first, rest @ ..] if rest.len() > 1 => .., _ => return Err(..) }`)
    errs = set(R.err_blocks(f))
    refused = None
    for L in lengths:
        if not valid_len(L):
            continue
        hit = _walk_by_count(f, ev, list_param, L, errs, R)
        if hit is not None:
            refused = (L, hit)
            break
    if errs:
        n += 1
        ctx.ob(rule, "%s/walk" % fn_key, refused is None, "%s, followed branch by branch for each admitted %s: %s" % (fn_key, describe, "no error exit is reached through count-only decisions" if refused is None else "REFUSES the admitted %s %d (error exit bb%d reached through decisions on the count alone)" % (describe, refused[0], refused[1])), where=where(f, refused[1]) if refused else where(f))
    return n


def _walk_by_count(f, ev, list_param, L, errs, R, limit=400):
    """Error-exit block reached from the entry when len(list_param) = L and every switch on the way is decided by L
    alone; None when an undecidable branch (or a normal exit) comes first."""
    b = 0
    seen_err = None
    for _ in range(limit):
        if b in errs and seen_err is None:
            seen_err = b
        t = f.blocks[b]["term"]
        k = t["k"]
        if k == "return":
            return seen_err
        if k in ("goto", "drop", "assert") or (k == "call" and t.get("target") is not None):
            b = t["target"]
            continue
        if k != "switch":
            return None
        d = ev.switch.get(b)
        if d is None:
            return None
        env = {}
        ok = True
        for x in subterms(d):
            if x.op in ("loop", "phi", "mutcall"):
                ok = False
                break
            off = R._len_offset_of_len(x, list_param)
            if off is not None:
                if L - off < 0:
                    ok = False
                    break
                env[x] = (L - off, 64, False)
            elif x.op == "call" and B.cname(x) in ("slice::<impl [T]>::is_empty", "Vec::<T, A>::is_empty") and len(x.a[1]) == 1:
                o2 = R._len_offset(x.a[1][0], list_param)
                if o2 is None or L - o2 < 0:
                    ok = False
                    break
                env[x] = (1 if L - o2 == 0 else 0, 8, False)
            elif x.op == "param" and x.a[1] != list_param:
                ok = False
                break
        if not ok:
            return None
        try:
            v = eval_int(strip_sites(d) if False else d, env)[0]
        except Exception:
            return None
        nxt = None
        for val, tgt in t["arms"]:
            if val == v:
                nxt = tgt
        b = nxt if nxt is not None else t["otherwise"]
    return None


COMBINERS = (
    ("SecretKey<C>::combine", "vsss_rs::combine_shares"),
    ("Signature<C>::from_shares", "BlsSignatureCore::core_combine_signature_shares"),
    ("PublicKey<C>::from_shares", "BlsSignatureCore::core_combine_public_key_shares"),
    ("SignCryptDecryptionKey<C>::from_shares", "BlsSignatureCore::core_combine_public_key_shares"),
    ("ElGamalDecryptionKey<C>::from_shares", "BlsSignatureCore::core_combine_public_key_shares"),
)


def check_combiner_images(ctx, rule, P, only=None):
    """Every share handed to a recombination function reaches the combiner: the combiner's argument is a 1:1 image of
    the whole `shares` list (no share dropped, filtered out, deduplicated or replaced)."""
    for fk, sink in COMBINERS:
        if only is not None and fk not in only:
            continue
        f = ctx.need_fn(rule, fk, P)
        if f is None:
            continue
        ev = evaluate(f)
        sites = [s for s in ev.sites.values() if s.callee[0] == sink or s.callee[0].endswith("::" + sink)]
        ok = False
        shown = None
        if sites:
            shown = show(strip_sites(sites[0].args[0]), 5)
            x, steps = image_source(P, f, ev, sites[0].args[0])
            ok = x is not None and x.op == "param" and x.a[1] == "shares"
            if x is None:
                shown = "%s - %s" % (shown, steps)
        ctx.ob(rule, fk, ok, "%s receives a 1:1 image of the whole `shares` list: %s" % (sink, shown), where=where(f))


def check_combiner_lengths(ctx, rule, P):
    """No recombination function (or the core combiner it calls) refuses a share count between 2 and 255."""
    n = 0
    lengths = [0, 1, 2, 3, 4, 127, 128, 253, 254, 255, 256, 300]
    for fk, _ in COMBINERS:
        n += check_len_rejections(ctx, rule, P, fk, "shares", lambda L: 2 <= L <= 255, lengths, "share count")
    for fk in ("BlsSignatureCore::core_combine_signature_shares", "BlsSignatureCore::core_combine_public_key_shares"):
        n += check_len_rejections(ctx, rule, P, fk, "shares", lambda L: 2 <= L <= 255, lengths, "share count")
    ctx.ob(rule, "census", True, "%d own rejection(s) by share count inspected" % n)


def check_conditional_select(ctx, rule, P, only=None, floor=1):
    """`T::conditional_select(a, b, choice)` returns a for choice 0 and b for choice 1 (subtle's contract): every impl in
    the crate builds its result from `conditional_select(a.., b.., choice)` of its fields - or from a copy of a that is
    conditionally overwritten with b - with a and b in that order."""
    n = 0
    for k, f in sorted(P.fns.items()):
        if f.impl_trait != "ConditionallySelectable" or f.name != "conditional_select" or f.from_expansion:
            continue
        if only is not None and not any(o in (f.impl_self_adt or f.impl_self or "") for o in only):
            continue
        n += 1
        ev = evaluate(f)
        r = strip_sites(ev.ret)
        sels = []
        for x in subterms(r):
            if x.op == "call" and B.cname(x) == "ConditionallySelectable::conditional_select" and len(x.a[1]) == 3:
                sels.append(tuple(x.a[1]))
            if x.op == "mutcall" and B.cname(x) == "ConditionallySelectable::conditional_assign" and x.a[1] == 0 and len(x.a[2]) == 3:
                sels.append(tuple(x.a[2]))
        def root(t):
            pr = projection_root(t)
            return pr[0].a[1] if pr else None
        bad = [(root(a), root(b)) for a, b, c in sels if not (root(a) == "a" and root(b) == "b" and B.peel(c).op == "param" and B.peel(c).a[1] == "choice")]
        # panicking impls on mismatched variants etc. still select field-wise where they select
        ctx.ob(rule, k, bool(sels) and not bad, "%s selects (a, b) in this order under `choice`%s" % (k, "" if sels and not bad else ": found operand roots %s" % (bad or "no selection")), where=where(f))
    ctx.floor(rule, "ConditionallySelectable impls", n, floor)


def check_aggregate_key_guard(ctx, rule, P):
    """CoreAggregateVerify's KeyValidate, per entry: the (hash, pk) pair of an entry is built only where !is_identity of the
    very key it contains holds (an identity key contributes e(H(m), 0) = 1 and would let a pair be added for free)."""
    fagg = ctx.need_fn(rule, "BlsSignatureCore::core_aggregate_verify", P)
    if fagg is None:
        return
    ents = entry_builders(P, fagg)
    if not ents:
        ctx.ob(rule + ".anchor", "BlsSignatureCore::core_aggregate_verify/per-entry pair", False, "per-entry construction of (hash, pk) not found in core_aggregate_verify (missing anchor)", where=where(fagg))
    for e in ents:
        comps = e["value"].a[1] if e["value"].op == "agg" else ()
        pkc = [B.peel(c) for c in comps if not _has_h2p(c)]
        ok = bool(pkc) and any(not pol and a[0] == "atom" and a[1] == "is_identity" and B.peel(a[2]) == pkc[0] for a, pol in e["lits"])
        ctx.ob(rule, "BlsSignatureCore::core_aggregate_verify/pairs.push((hash, pk)) per entry", ok, "the per-entry pair (%s) is built only after !is_identity of the very key it contains" % e["mode"], where=where(e["fn"], e["bb"]))


def check_core_combiners(ctx, rule, P):
    """The core combiners hand the slice they were given, whole and unmodified, to vsss-rs: every payload is decoded by
    `combine_shares_group` (which validates each one) - none is dropped, deduplicated or replaced beforehand."""
    for fk in ("BlsSignatureCore::core_combine_signature_shares", "BlsSignatureCore::core_combine_public_key_shares"):
        f = ctx.need_fn(rule, fk, P)
        if f is None:
            continue
        ev = evaluate(f)
        sites = [s for s in ev.sites.values() if s.callee[0] == "vsss_rs::combine_shares_group"]
        ok = bool(sites) and projection_root(strip_sites(sites[0].args[0])) is not None and projection_root(strip_sites(sites[0].args[0]))[0].a[1] == "shares"
        ctx.ob(rule, fk, ok, "combine_shares_group(shares) receives the slice unmodified", where=where(f))
