"""C18 - own-protocol wire formats are stable and independently implementable."""
from ..core.sym import evaluate, strip_sites
from ..core.terms import show, subterms
from ..core import bytesnf as B
from .common import where, spec, collect_constants
from . import codecs as C
from . import constructions as K
from . import protocols as PR
from . import c14 as C14

EXPLANATION = (
    "Compares what the code builds with a pinned specification, which is the only way a change made consistently on the producing "
    "and the consuming side is seen: the 5 protocol salts, the 2 ElGamal generator tags, the merlin protocol label, its 8 message "
    "labels in order and the challenge label/length, HKDF info 0x0030 and output length 48, the 32-byte zero padding; the "
    "construction terms of signcryption (frame, keystream key, W input to_bytes(U)‖V), time-lock (r_input = repr(alpha)‖Sha256(M), "
    "K, V, W), the proof-of-knowledge challenge layout to_bytes(u)‖t_le, the ElGamal transcript roles and message generator, KeyGen; "
    "and the serialized layout of every data type: field order, per-field codec module, enum variant order (BARE variant index = "
    "declaration order) and the numeric/string wire tags of SignatureSchemes and Bls12381. Constructions that the value-numbering "
    "cannot normalise degrade to their weak form (reported as such). Not decided: that bytes produced by the pinned release decode "
    "on the current tree (needs a corpus and execution) and two-way interoperation with an independent implementation."
)
RULE = "E1 constants vs pinned table; E5 construction terms (bytes normal form, builder event lists) vs pinned constructions; E9 layout and wire-tag tables vs pinned"


def run(ctx):
    P = ctx.P
    pinned = spec("pinned.json")
    consts = collect_constants(P)
    byid = {c["id"]: c for c in consts}
    want_salts = {
        "helpers::KEYGEN_SALT": pinned["salts"]["keygen"],
        "sig_proof::SALT": pinned["salts"]["pok"],
        "BlsSignCrypt::seal::SALT": pinned["salts"]["signcrypt"],
        "time_crypt::SALT": pinned["salts"]["timelock"],
        "elgamal::SALT": pinned["salts"]["elgamal"],
    }
    vals = {c["str"] for c in consts}
    for cid, want in want_salts.items():
        # identified by value class: a salt constant with the pinned bytes must exist (ids may move with refactors)
        present = want in vals
        ctx.ob("E1.salt", cid.split("::")[-2] if "::" in cid else cid, present, "protocol salt %r is %s among the crate's byte-string constants %s" % (want, "present" if present else "ABSENT", "" if present else sorted(v for v in vals if v and "SALT" in v.upper() or v and "XOF" in v)[:6]))
    salts = [c for c in consts if c["name"].endswith("SALT")]
    ctx.ob("E1.salt", "census", sorted(c["str"] for c in salts) == sorted(want_salts.values()), "salt constants in the crate = %s" % sorted(c["str"] for c in salts))
    for key, wantv in pinned["own_tags"].items():
        impl, item = key.split("/")
        tr, name = item.split("::")
        got = [c for c in consts if c["impl"] == impl and c["trait"] == tr and c["name"] == name]
        ctx.ob("E1.enc_dst", key, bool(got) and got[0]["str"] == wantv, "`%s` = %r (pinned %r)" % (key, got[0]["str"] if got else None, wantv))
    # which salt feeds which construction
    for fk, salt_key in (("BlsSignatureProof::compute_y", "pok"), ("BlsSignCrypt::seal", "signcrypt"), ("BlsTimeCrypt::seal", "timelock"), ("BlsTimeCrypt::unseal", "timelock")):
        f = ctx.need_fn("E1.salt-route", fk)
        if f is None:
            continue
        ev = evaluate(f)
        got = set()
        for _m, _salt in K.hash_to_scalar_calls(P, f):
            st = B.peel(_salt)
            if st.op == "named" and st.a[2].op == "const":
                got.add(bytes.fromhex(st.a[2].a[1]).decode("latin-1"))
            else:
                got.add("?" + show(strip_sites(st), 3))
        ctx.ob("E1.salt-route", fk, got == {pinned["salts"][salt_key]}, "hash_to_scalar salt(s) in %s = %s (pinned %r)" % (fk, sorted(got), pinned["salts"][salt_key]), where=where(f))
    # the tag an own-protocol construction hashes under, per scheme: the scheme's *signature* tag (pinned by the IETF
    # table in E1) - also when the producing and the consuming side are changed together
    from . import spec as SP

    nt = 0
    for fk, sinks in (
        ("PublicKey<C>::sign_crypt", ("BlsSignCrypt::seal",)),
        ("SignCryptCiphertext<C>::is_valid", ("BlsSignCrypt::valid",)),
        ("SignCryptCiphertext<C>::decrypt", ("BlsSignCrypt::unseal",)),
        ("SignCryptCiphertext<C>::decrypt_with_shares", ("BlsSignCrypt::unseal_with_shares",)),
        ("SignCryptDecryptionKey<C>::decrypt", ("BlsSignCrypt::valid",)),
        ("SignDecryptionShare<C>::verify", ("BlsSignCrypt::verify_share",)),
        ("PublicKey<C>::encrypt_time_lock", ("BlsTimeCrypt::seal",)),
    ):
        f = ctx.need_fn("E2.tag-by-scheme", fk)
        if f is not None:
            k_ = SP.check_tag_by_scheme(ctx, "E2.tag-by-scheme", P, f, sinks, -1, purpose="sig")
            ctx.ob("E2.tag-by-scheme", fk + "/all-schemes", k_ >= 3, "%s selects the tag for %s by the scheme in %d of 3 schemes" % (fk, sinks[0], k_), where=where(f))
            nt += k_
    from . import codecs as C_

    C_.check_serialize_total(ctx, P)
    # constructions
    K.check_keygen(_Sub(ctx, ("E5.keygen.hash", "E5.keygen.salt", "E5.keygen.ikm", "E5.keygen.info", "E5.keygen.len", "E5.keygen.prk", "E5.keygen.okm", "E5.keygen.ret", "E5.keygen.route", "E5.keygen.anchor")), P, rule="E5.keygen")
    PR.check_compute_y(ctx, "E5.challenge", P)
    PR.check_frame_writer(ctx, "E5.frame", P, "BlsSignCrypt::seal", "message", lambda s: s.callee[0] == "BlsSignCrypt::compute_v", "compute_v")
    PR.check_frame_writer(ctx, "E5.frame", P, "BlsTimeCrypt::seal", "message", lambda s: s.callee[0] == "BlsTimeCrypt::compute_w", "compute_w")
    PR.check_frame_reader(ctx, "E5.frame", P, "BlsSignCrypt::decrypt", "plaintext", strict=False)
    PR.check_frame_reader(ctx, "E5.frame", P, "BlsTimeCrypt::unseal", "plaintext", strict=False)
    PR.check_xof_mask(ctx, "E5.keystream", P, "BlsSignCrypt::compute_v", "uar", "r", "Shake128", True)
    PR.check_xof_mask(ctx, "E5.keystream", P, "BlsTimeCrypt::compute_w", "alpha", "msg", "Shake128", False)
    PR.check_xof_mask(ctx, "E5.keystream", P, "BlsTimeCrypt::compute_v", "k_tick", "alpha_or_v", "Sha256", True)
    # signcryption W input and time-lock sides (from C11 / C13)
    from . import c11, c13

    sub = _Sub(ctx, ("E5.w", "E5.seal", "E3.sides", "E3.signer", "E5.equation", "E5.equation.anchor", "E5.keystream", "E5.frame", "E3.frame"))
    c11.run(sub)
    c13.run(sub)
    # ElGamal transcript + generator (from C14)
    sub = _Sub(ctx, ("E5.transcript", "E3.transcript", "E5.generator", "E1.enc_dst", "E5.response", "E5.response.anchor"))
    C14.run(sub)
    # proof-of-knowledge and validity equations (from C10 / C11 / C12)
    from . import equations as EQ

    EQ.check_pok_equations(ctx, "E5.equation", P)
    EQ.check_pairing_equation(ctx, "E5.equation", P, "BlsSignCrypt::valid", {("w", "G"): -1, ("cw", "u"): 1}, "e(w, -G) * e(compute_w(u, v, dst), u)")
    EQ.check_pairing_equation(ctx, "E5.equation", P, "BlsSignCrypt::verify_share", {("cw", "share"): -1, ("w", "pk"): 1}, "e(-compute_w(u, v, dst), share) * e(w, pk)")
    # augmentation / PoP framing (shared with C03)
    K.check_core_table(ctx, P, methods=("sign", "partial_sign", "verify", "partial_verify", "pop_prove", "pop_verify", "multi_sig_verify"))
    K.check_hash_to_point_routing(ctx, P)
    # layouts and wire tags
    C.check_layouts(ctx, P)
    C.check_serde_with_pairs(ctx, P, rule="E9.serde")
    check_field_codecs(ctx, P, pinned)
    sub2 = _Sub(ctx, ())
    C.check_tag_tables(sub2, P)
    for adt, tabs in pinned["wire_tags"].items():
        got = (sub2.extra.get("tag_tables") or {}).get(adt) or {}
        ws = got.get("writers_u8") or []
        if adt == "Bls12381":
            ok = bool(ws) and all(w["map"] == tabs["u8"] for w in ws)
            ctx.ob("E9.wiretag", adt + "/u8", ok, "numeric wire tags of %s = %s (pinned %s)" % (adt, [w["map"] for w in ws], tabs["u8"]))
        else:
            ok = got.get("declared") == tabs["u8"]
            ctx.ob("E9.wiretag", adt + "/u8", ok, "numeric wire tags of %s (declared discriminants, written with `as u8`) = %s (pinned %s)" % (adt, got.get("declared"), tabs["u8"]))
    # string tags from Display
    for adt, tabs in pinned["wire_tags"].items():
        f = P.fns.get("<%s as Display>::fmt" % adt)
        if f is None:
            ctx.ob("E9.wiretag", adt + "/str", False, "Display impl of %s not found" % adt)
            continue
        m = C._variant_to_out(P, f, adt)
        ctx.ob("E9.wiretag", adt + "/str", m == tabs["str"], "string wire tags of %s = %s (pinned %s)" % (adt, m, tabs["str"]), where=where(f))
    ctx.assume("pinned tables in analysis/spec/pinned.json are a faithful transcription of the pinned release (commit 4bdca94) and of the IETF draft")


class _Sub:
    """Run another property's rule module but keep only the obligations of selected rules."""

    def __init__(self, ctx, rules):
        self._ctx = ctx
        self._rules = rules
        self.tier = ctx.tier
        self.extra = {}
        self.precision = ctx.precision

    @property
    def P(self):
        return self._ctx.P

    def prog(self, *a):
        return self._ctx.prog(*a)

    def _keep(self, rule):
        return any(rule == r or rule.startswith(r + ".") for r in self._rules)

    def prog(self, *a):
        return self._ctx.prog(*a)

    def ob(self, rule, key, ok, detail="", **kw):
        if self._keep(rule):
            return self._ctx.ob(rule, key, ok, detail, **kw)
        return ok

    def floor(self, rule, what, count, minimum):
        if self._keep(rule):
            return self._ctx.floor(rule, what, count, minimum)
        return True

    def need_fn(self, rule, key, prog=None):
        return self._ctx.need_fn(rule, key, prog)

    def saw(self, fn):
        self._ctx.saw(fn)

    def note(self, s):
        pass

    def assume(self, s):
        pass


def check_field_codecs(ctx, P, pinned):
    """Per-field codec module (serialize_with) vs the pinned layout."""
    import re

    got = {}
    for k, f in P.fns.items():
        if "__SerializeWith" in k:
            ty = re.match(r"^<<([A-Za-z0-9]+)", k)
            idx = int(k.rsplit("#", 1)[1]) if "#" in k.rsplit("::", 1)[-1] else 0
            mods = [C._mod(t) for bb, t in f.calls() if C._mod(t)]
            if ty and mods:
                got.setdefault(ty.group(1), []).append((idx, mods[0]))
    for ty, want in pinned["layouts"].items():
        wm = [m for _, m in want if m != "-"]
        gm = [m for _, m in sorted(got.get(ty, []))]
        ctx.ob("E9.layout", ty + "/codecs", gm == wm, "per-field codec modules of %s = %s (pinned %s)" % (ty, gm, wm))
