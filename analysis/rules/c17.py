"""C17 - no input makes a decoding / verification / decryption call abort."""
import json
import os

from ..core.sym import evaluate, strip_sites
from ..core.terms import T as T_  # noqa
from ..core.terms import show, subterms
from ..core import bytesnf as B
from .common import where, reachable_fns, SPEC_DIR
from . import aborts as A
from . import flow as F

EXPLANATION = (
    "Abort-site census with machine-re-checked discharge. From the untrusted-input entry set (every TryFrom<bytes>, every "
    "Deserialize/Visitor method, from_be/le_bytes, every verify / decrypt / is_valid / from_shares / combine / from_signatures / "
    "from_public_keys and the accessors of decoded values) the crate-local call graph (class-hierarchy resolution) is closed and "
    "every MIR Assert terminator (bounds, overflow, negation, shift) and every call to an abort-capable callee (unwrap/expect, "
    "CtOption::unwrap, slice indexing, copy_from_slice, Vec::insert, SystemTime arithmetic, panic!/assert!/debug_assert!) in blsful's "
    "own frames is enumerated, in the dev profile (debug assertions + overflow checks) and in the no-debug-assertions profile. "
    "Each site must be discharged by a rule that is re-evaluated on every run: constant condition, exhaustive folding of the i8 zero "
    "test over its 256 values, dominating length guard / is_some guard / Ok-arm of a callee with a stated contract, tiling, interval "
    "(lengths), caller-side argument facts, or a negligible-probability debug assertion on a hash output. Loops whose exit is not an "
    "iterator's None are listed and must be justified. Dependency internals are covered by per-crate contracts (counted, not "
    "enumerated); the one known violation of such a contract (blst backend hex decoding) is a recorded finding. Not decided: "
    "abort-freedom inside the arithmetic/hash kernels and allocation failure."
)
RULE = "E8 abort-site census (MIR Assert + panicking callees) over the class-hierarchy call graph; discharge rules const/fold256/len-guard/is-some-guard/ok-arm/tiling/interval/callers/negligible/contract; loop census; dependency contract table"


def run(ctx):
    profiles = [("blst", "dev"), ("blst", "nodebug")]
    if ctx.tier == "thorough":
        profiles += [("rust", "dev"), ("rust", "nodebug")]
    total = 0
    for backend, prof in profiles:
        P = ctx.prog(backend, prof)
        tag = prof if backend == "blst" else backend + "-" + prof
        sites, reach = A.check_aborts(ctx, "E8", P, profile=tag)
        total += len(sites)
        if prof == "dev" and backend == "blst":
            ctx.floor("E8", "abort-capable sites enumerated (dev profile)", len(sites), 60)
            ctx.floor("E8", "functions reachable from the untrusted-input entry set", len(reach), 500)
            check_loops(ctx, P, reach)
            F.check_iszero(ctx, P, "E8.iszero", check_asserts=True, need=())
    check_dep_contracts(ctx)
    check_dep_surface(ctx, (("dev", ctx.prog("blst", "dev")), ("nodebug", ctx.prog("blst", "nodebug"))))
    check_choice_domain(ctx, ctx.prog("blst", "dev"))
    check_dep_callees(ctx, ctx.prog("blst", "dev"), A.check_aborts.__globals__["entry_fns"])
    from .posctl import run_posctl

    run_posctl(ctx, "E8", "aborts")
    ctx.extra["sites_total_all_profiles"] = total
    ctx.assume("allocation failure (capacity_overflow, handle_alloc_error) is out of scope (memory exhaustion)")
    ctx.assume("kernel crates (sha2, sha3, keccak, hmac, hkdf, merlin, digest, generic-array, blst FFI, core/alloc internals) are total on every byte string (per-crate contract, not enumerated site by site)")
    ctx.assume("vsss-rs 4.3.8: combine_shares(_group) returns Err for fewer than 2 shares; uint-zigzag 0.2: Uint::peek(buf)==Some(n) implies n<=buf.len() and try_from(&buf[..n]) is Ok")


_counted_exit = F.counted_exit


def check_loops(ctx, P, reach):
    """Every loop in reached hand-written functions exits through an iterator's None, a guarded
    induction, or is individually justified."""
    n = 0
    for f in reach.values():
        cfg = f.cfg
        be = cfg.back_edges()
        if not be:
            continue
        ev = evaluate(f)
        for src, h in be:
            n += 1
            body = cfg.natural_loop(src, h)
            # exit test inside the loop: switch whose one target leaves the body
            kinds = []
            for b in body:
                t = f.blocks[b]["term"]
                if t["k"] == "switch":
                    tg = [x for _, x in t["arms"]] + [t["otherwise"]]
                    if any(x not in body for x in tg):
                        d = ev.switch.get(b)
                        if d is not None and d.op == "discr" and any(s.op == "call" and B.cname(s) == "Iterator::next" for s in subterms(d)):
                            kinds.append("iterator")
                        elif d is not None and any(s.op == "call" and B.cname(s) in ("MapAccess::next_key", "SeqAccess::next_element", "MapAccess::next_entry") for s in subterms(d)):
                            # driven by the caller's deserializer (environment call, assumed to terminate)
                            kinds.append("iterator")
                        elif d is not None and _counted_exit(ev, h, d):
                            kinds.append("counted")
                        elif d is not None:
                            kinds.append(show(strip_sites(d), 3))
            ok = "iterator" in kinds or "counted" in kinds
            just = None
            if not ok:
                if f.key == "helpers::scalar_from_hkdf_bytes":
                    ok = True
                    just = "retry-on-zero of the HKDF output: repeats with probability 2^-255 per input (negligible)"
                elif f.key in ("BlsSignCrypt::seal", "BlsTimeCrypt::seal") and any("Lt" in k and "32" in k for k in kinds):
                    ok = True
                    just = "padding loop `while len < 32 { push }`: at most 32 iterations"
                elif f.key in ("BlsSignatureProof::generate_commitment", "BlsSignatureProof::generate_timestamp_proof"):
                    ok = True
                    just = "re-draw while the random scalar is zero (probability 2^-255)"
            ctx.ob("E8.loop", "%s@loop%s" % (f.key, "" if len(be) == 1 else "#%d" % h), ok, "loop exit: %s%s" % (kinds, (" - justified: " + just) if just else ""), where=where(f, h), weak=bool(just))
    ctx.floor("E8.loop", "loops in reached functions", n, 10)


def check_dep_contracts(ctx):
    """Dependency contracts: each entry names the callee, crate version and evidence; `total: false`
    entries are violations unless listed as known findings."""
    p = os.path.join(SPEC_DIR, "dep_contracts.json")
    tab = json.load(open(p))
    lock = open(os.path.join(os.environ.get("VERIF_REPO", "/repo"), "Cargo.lock")).read()
    Pb = ctx.prog("blst", "dev")
    for e in tab["contracts"]:
        ver_ok = ('name = "%s"\nversion = "%s"' % (e["crate"].replace("_", "-") if e.get("dash") else e["crate"], e["version"])) in lock
        ctx.ob("E8.dep.version", "%s %s" % (e["crate"], e["version"]), ver_ok, "contract evidence was read in %s %s; Cargo.lock %s that version" % (e["crate"], e["version"], "pins" if ver_ok else "does NOT pin"))
        if e.get("total", True):
            continue
        # partial contract: is the partial function reachable from blsful's untrusted entry points?
        reached = []
        for f in Pb.fns.values():
            for bb, t in f.calls():
                c = t.get("callee") or {}
                r = c.get("resolved") or {}
                if c.get("trait") == "Deserialize" and c.get("self_ty") in ("Scalar", "G1Projective", "G2Projective") and r.get("crate") == e["crate"]:
                    reached.append((f, bb))
        ctx.ob("E8.dep", e["key"], not reached, "%s: %s; reachable from blsful through %d call site(s), e.g. %s" % (e["fn"], e["fails_on"], len(reached), [x[0].key for x in reached[:3]]), where=where(*reached[0]) if reached else None)


# functions of the byte-handling dependencies that blsful calls on the pinned tree; each one is covered by a contract in
# dep_contracts.json / DEP_ABORT_TRIAGED.  Another function of these crates (a fixed-buffer combiner, a polynomial
# evaluator, an unchecked reader ..) has no contract: whether it can abort on hostile input has not been looked at.
DEP_SURFACE = {
    "vsss_rs": {"vsss_rs::Share::as_field_element", "vsss_rs::Share::as_group_element", "vsss_rs::Share::empty_share_with_capacity", "vsss_rs::Share::identifier", "vsss_rs::Share::identifier_mut", "vsss_rs::Share::is_zero", "vsss_rs::Share::value", "vsss_rs::Share::value_mut", "vsss_rs::Share::value_vec", "vsss_rs::combine_shares", "vsss_rs::combine_shares_group", "vsss_rs::shamir::split_secret", "vsss_rs::Share::with_identifier_and_value", "vsss_rs::Share::is_empty"},
    "uint_zigzag": {"uint_zigzag::Uint::peek", "uint_zigzag::Uint::to_vec", "std::convert::From::from", "std::convert::TryFrom::try_from", "std::convert::Into::into", "uint_zigzag::Uint::to_bytes", "std::clone::Clone::clone", "std::default::Default::default"},
    "hex": {"hex::decode_to_slice", "hex::encode", "hex::decode"},
    "serde_bare": {"serde_bare::from_slice", "serde_bare::to_vec"},
}


def check_dep_surface(ctx, progs, rule="E8.dep-surface"):
    n = 0
    for name, P in progs:
        for f in P.fns.values():
            if f.from_expansion:
                continue
            for bb, t in f.calls():
                c = t.get("callee") or {}
                r = c.get("resolved") or {}
                cr = c.get("crate") if c.get("crate") in DEP_SURFACE else (r.get("crate") if r.get("crate") in DEP_SURFACE else None)
                if cr is None:
                    continue
                n += 1
                pth = c.get("path") or ""
                if pth not in DEP_SURFACE[cr]:
                    ctx.ob(rule, "%s|%s->%s" % (name, f.key, pth), False, "%s build: %s calls `%s` of %s, for which no contract has been read (the functions blsful is known to call: %s)" % (name, f.key, r.get("path") or pth, cr, sorted(DEP_SURFACE[cr])[:6]), where=where(f, bb))
    ctx.ob(rule, "census", True, "%d calls into vsss_rs / uint_zigzag / hex / serde_bare inspected: all to functions with a contract" % n)
    ctx.floor(rule, "calls into the byte-handling dependencies", n, 60)


def check_choice_domain(ctx, P, rule="E8.choice"):
    """subtle::Choice::from(u8) debug-asserts that its argument is 0 or 1 (abort in builds with debug assertions).
    Every conversion of a u8 into a Choice in blsful gets a constant 0/1, a bool, the byte of another Choice, or the
    zero test's result expression (folded exhaustively by E8.iszero to be 0 or 1)."""
    n = 0
    for f in sorted(P.fns.values(), key=lambda g: g.key):
        ev = None
        for bb, t in f.calls():
            c = t.get("callee") or {}
            r = c.get("resolved") or {}
            is_from = "subtle::Choice" in (r.get("path") or "") and "From<u8>" in (r.get("path") or "")
            is_into = c.get("name") == "into" and c.get("args") == ["u8", "Choice"]
            if not (is_from or is_into):
                continue
            ev = ev or evaluate(f)
            s_ = ev.sites.get(bb)
            if s_ is None:
                continue
            n += 1
            a = strip_sites(s_.args[0])
            ci = B._const_int(a)
            ok = ci in (0, 1)
            why = "constant %s" % ci if ok else ""
            if not ok and a.op == "cast" and len(a.a) > 3 and a.a[3] == "bool":
                ok, why = True, "a bool cast to u8"
            if not ok and a.op == "call" and B.cname(a) == "Choice::unwrap_u8":
                ok, why = True, "the byte of another Choice"
            if not ok and a.op == "call" and B.cname(a) in ("From::from", "Into::into") and len(a.a[1]) == 1 and set(a.a[0][1][:2]) == {"u8", "bool"}:
                ok, why = True, "u8::from(bool)"
            if not ok and f.key == "<[u8] as IsZero>::is_zero":
                ok, why = True, "the zero test's result, shown to be 0 or 1 for all 256 accumulator values (E8.iszero.value in C01/C04/C16)"
                try:
                    from .aborts import small_int_vars

                    inner = a
                    vs = small_int_vars(ev, inner)
                    if len(vs) == 1:
                        var, ty = vs[0]
                        vals = set()
                        for v in (range(-128, 128) if ty == "i8" else range(256)):
                            vals.add(F.eval_int(inner, {var: (v, 8, ty == "i8")})[0])
                        ok = vals <= {0, 1}
                        why = "folded for all 256 accumulator values: results %s" % sorted(vals)
                except Exception:
                    ok = False
                    why = "could not fold the argument"
            ctx.ob(rule, "%s#%d" % (f.key, sum(1 for o in ctx.obligations if o["key"].startswith("%s%s/%s#" % (ctx.key_prefix, rule, f.key)))), ok, "Choice::from(u8) argument is %s" % (why or "not provably 0 or 1: " + show(a, 4)), where=where(f, bb))
    ctx.floor(rule, "u8 -> Choice conversions", n, 5)


# foreign callees whose own body can abort (Assert terminators / calls that never return), reachable from blsful:
# path fragment -> why it cannot abort the way blsful uses it (or which rule discharges the call sites)
DEP_ABORT_TRIAGED = {
    "as vsss_rs::Share>::identifier": "indexes byte 0 of a [u8; L] share container; L is 33/49/97 in every instantiation",
    "as vsss_rs::Share>::identifier_mut": "indexes byte 0 of a [u8; L] share container; L is 33/49/97 in every instantiation",
    "as vsss_rs::Share>::value": "slices [1..] of a [u8; L] share container; L >= 1 in every instantiation",
    "as vsss_rs::Share>::value_mut": "slices [1..] of a [u8; L] share container and copies an equally long encoding (vsss-rs 4.3.8 checks the length first)",
    "Enumerate<I> as std::iter::Iterator>::next": "counter overflow needs usize::MAX elements",
    "subtle::Choice as std::convert::From<u8>>::from": "argument domain checked by E8.choice",
    "From<subtle::Choice> for bool>::from": "debug-asserts that the Choice byte is 0 or 1: holds for every Choice (built by subtle's own operators or through the conversions checked by E8.choice)",
    "subtle::Choice::unwrap_u8": "returns the byte",
    "as subtle::ConstantTimeEq>::ct_eq": "subtle 2.x: xor, wrapping_neg and a right shift by the constant bit-width - 1, then Choice::from of a value that is 0 or 1 by construction; slices compare lengths first",
    "as subtle::ConstantTimeEq>::ct_ne": "negation of ct_eq",
    "as subtle::ConstantTimeGreater>::ct_gt": "subtle 2.x: shifts by constants below the bit width",
    "as subtle::ConstantTimeLess>::ct_lt": "defined through ct_gt / ct_eq",
    "as subtle::ConditionallySelectable>::conditional_select": "negates a Choice byte (0 or 1) as i8: cannot overflow",
    "uint_zigzag::Uint as std::convert::TryFrom<&[u8]>>::try_from": "returns Err on malformed input; internal indexing is bounded by its own length checks (contract in dep_contracts.json)",
    "uint_zigzag::Uint::peek": "returns None on malformed input (contract in dep_contracts.json)",
    "Projective::hash": "hash-to-curve over byte strings of any length (contract: total)",
    "core::panicking::": "the panic machinery itself (call sites are the abort sites of the census)",
    "hex::decode_to_slice": "returns Err on odd length / bad digit / length mismatch (contract in dep_contracts.json)",
    "rand_core::SeedableRng::from_entropy": "aborts only if the operating system's entropy source fails (environment, not input)",
    "Result::<T, E>::expect": "call sites are abort sites of the census (call:expect)",
    "Result::<T, E>::unwrap": "call sites are abort sites of the census (call:unwrap)",
    "Option::<T>::expect": "call sites are abort sites of the census",
    "Option::<T>::unwrap": "call sites are abort sites of the census",
    "subtle::CtOption::<T>::unwrap": "call sites are abort sites of the census (call:ct-unwrap)",
}


def check_dep_callees(ctx, P, entry_fns, rule="E8.depcallee"):
    """Every foreign function that blsful calls and whose own body can abort (the driver reads the callee's MIR: Assert
    terminators, calls that never return) is either an abort site of the census or triaged here with the reason why the
    way blsful uses it cannot abort.  A newly called one is reported."""
    ca = (P.facts.get("walk") or {}).get("callee_aborts") or {}
    ctx.floor(rule, "abort-capable foreign callees seen by the driver", len(ca), 8)
    keys, _ = entry_fns(P, "C17")
    reach = reachable_fns(P, [P.fns[k] for k in keys if k in P.fns])
    used = {}
    for f in reach.values():
        for bb, t in f.calls():
            c = t.get("callee") or {}
            for pth in ((c.get("resolved") or {}).get("path_full"), (c.get("resolved") or {}).get("path"), c.get("path_full"), c.get("path")):
                if pth and pth in ca:
                    used.setdefault(pth, (f, bb))
    for pth in sorted(ca):
        if ca[pth]["crate"] in ("core", "alloc", "std"):
            # the standard library is covered by the abort-capable callee table of the census (aborts.PANICKING)
            continue
        why = next((w for frag, w in DEP_ABORT_TRIAGED.items() if frag in pth), None)
        if pth not in used and why is None:
            # not on an untrusted-input path: nothing to decide
            continue
        f, bb = used.get(pth, (None, None))
        ctx.ob(rule, pth, why is not None, "foreign callee `%s` (%s) can abort in its own body (%d assert(s), %d diverging call(s)); %s" % (pth, ca[pth]["crate"], len(ca[pth]["asserts"]), len(ca[pth]["never_returns"]), ("triaged: " + why) if why else "NOT triaged and reachable from untrusted input" + (" via " + f.key if f else "")), where=where(f, bb) if f else None, weak=why is not None)
