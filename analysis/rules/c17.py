"""C17 - no input makes a decoding / verification / decryption call abort."""
import json
import os

from ..core.sym import evaluate, strip_sites
from ..core.terms import show, subterms
from ..core import bytesnf as B
from .common import where, reachable_fns, SPEC_DIR
from . import aborts as A
from . import flow as F

EXPLANATION = (
    "Abort-site census with machine-re-checked discharge. From the untrusted-input entry set (every TryFrom<bytes>, every "
    "Deserialize/Visitor method, from_be/le_bytes, every verify / decrypt / is_valid / from_shares / combine / from_signatures / "
    "from_public_keys and the accessors of decoded values) the crate-local call graph (class-hierarchy resolution) is closed and "
    "every MIR Assert terminator (bounds, overflow, negation, shift) and every call to an abort-capable callee (unwrap/expect, "
    "CtOption::unwrap, slice indexing, copy_from_slice, Vec::insert, SystemTime arithmetic, panic!/assert!/debug_assert!) in blsful's "
    "own frames is enumerated, in the dev profile (debug assertions + overflow checks) and in the no-debug-assertions profile. "
    "Each site must be discharged by a rule that is re-evaluated on every run: constant condition, exhaustive folding of the i8 zero "
    "test over its 256 values, dominating length guard / is_some guard / Ok-arm of a callee with a stated contract, tiling, interval "
    "(lengths), caller-side argument facts, or a negligible-probability debug assertion on a hash output. Loops whose exit is not an "
    "iterator's None are listed and must be justified. Dependency internals are covered by per-crate contracts (counted, not "
    "enumerated); the one known violation of such a contract (blst backend hex decoding) is a recorded finding. Not decided: "
    "abort-freedom inside the arithmetic/hash kernels and allocation failure."
)
RULE = "E8 abort-site census (MIR Assert + panicking callees) over the class-hierarchy call graph; discharge rules const/fold256/len-guard/is-some-guard/ok-arm/tiling/interval/callers/negligible/contract; loop census; dependency contract table"


def run(ctx):
    profiles = [("blst", "dev"), ("blst", "nodebug")]
    if ctx.tier == "thorough":
        profiles += [("rust", "dev"), ("rust", "nodebug")]
    total = 0
    for backend, prof in profiles:
        P = ctx.prog(backend, prof)
        tag = prof if backend == "blst" else backend + "-" + prof
        sites, reach = A.check_aborts(ctx, "E8", P, profile=tag)
        total += len(sites)
        if prof == "dev" and backend == "blst":
            ctx.floor("E8", "abort-capable sites enumerated (dev profile)", len(sites), 60)
            ctx.floor("E8", "functions reachable from the untrusted-input entry set", len(reach), 500)
            check_loops(ctx, P, reach)
            F.check_iszero(ctx, P, "E8.iszero", check_asserts=True, need=())
    check_dep_contracts(ctx)
    from .posctl import run_posctl

    run_posctl(ctx, "E8", "aborts")
    ctx.extra["sites_total_all_profiles"] = total
    ctx.assume("allocation failure (capacity_overflow, handle_alloc_error) is out of scope (memory exhaustion)")
    ctx.assume("kernel crates (sha2, sha3, keccak, hmac, hkdf, merlin, digest, generic-array, blst FFI, core/alloc internals) are total on every byte string (per-crate contract, not enumerated site by site)")
    ctx.assume("vsss-rs 4.3.8: combine_shares(_group) returns Err for fewer than 2 shares; uint-zigzag 0.2: Uint::peek(buf)==Some(n) implies n<=buf.len() and try_from(&buf[..n]) is Ok")


def check_loops(ctx, P, reach):
    """Every loop in reached hand-written functions exits through an iterator's None, a guarded
    induction, or is individually justified."""
    n = 0
    for f in reach.values():
        cfg = f.cfg
        be = cfg.back_edges()
        if not be:
            continue
        ev = evaluate(f)
        for src, h in be:
            n += 1
            body = cfg.natural_loop(src, h)
            # exit test inside the loop: switch whose one target leaves the body
            kinds = []
            for b in body:
                t = f.blocks[b]["term"]
                if t["k"] == "switch":
                    tg = [x for _, x in t["arms"]] + [t["otherwise"]]
                    if any(x not in body for x in tg):
                        d = ev.switch.get(b)
                        if d is not None and d.op == "discr" and any(s.op == "call" and B.cname(s) == "Iterator::next" for s in subterms(d)):
                            kinds.append("iterator")
                        elif d is not None and any(s.op == "call" and B.cname(s) in ("MapAccess::next_key", "SeqAccess::next_element", "MapAccess::next_entry") for s in subterms(d)):
                            # driven by the caller's deserializer (environment call, assumed to terminate)
                            kinds.append("iterator")
                        elif d is not None:
                            kinds.append(show(strip_sites(d), 3))
            ok = "iterator" in kinds
            just = None
            if not ok:
                if f.key == "helpers::scalar_from_hkdf_bytes":
                    ok = True
                    just = "retry-on-zero of the HKDF output: repeats with probability 2^-255 per input (negligible)"
                elif f.key in ("BlsSignCrypt::seal", "BlsTimeCrypt::seal") and any("Lt" in k and "32" in k for k in kinds):
                    ok = True
                    just = "padding loop `while len < 32 { push }`: at most 32 iterations"
                elif f.key in ("BlsSignatureProof::generate_commitment", "BlsSignatureProof::generate_timestamp_proof"):
                    ok = True
                    just = "re-draw while the random scalar is zero (probability 2^-255)"
            ctx.ob("E8.loop", "%s@loop%s" % (f.key, "" if len(be) == 1 else "#%d" % h), ok, "loop exit: %s%s" % (kinds, (" - justified: " + just) if just else ""), where=where(f, h), weak=bool(just))
    ctx.floor("E8.loop", "loops in reached functions", n, 10)


def check_dep_contracts(ctx):
    """Dependency contracts: each entry names the callee, crate version and evidence; `total: false`
    entries are violations unless listed as known findings."""
    p = os.path.join(SPEC_DIR, "dep_contracts.json")
    tab = json.load(open(p))
    lock = open(os.path.join(os.environ.get("VERIF_REPO", "/repo"), "Cargo.lock")).read()
    Pb = ctx.prog("blst", "dev")
    for e in tab["contracts"]:
        ver_ok = ('name = "%s"\nversion = "%s"' % (e["crate"].replace("_", "-") if e.get("dash") else e["crate"], e["version"])) in lock
        ctx.ob("E8.dep.version", "%s %s" % (e["crate"], e["version"]), ver_ok, "contract evidence was read in %s %s; Cargo.lock %s that version" % (e["crate"], e["version"], "pins" if ver_ok else "does NOT pin"))
        if e.get("total", True):
            continue
        # partial contract: is the partial function reachable from blsful's untrusted entry points?
        reached = []
        for f in Pb.fns.values():
            for bb, t in f.calls():
                c = t.get("callee") or {}
                r = c.get("resolved") or {}
                if c.get("trait") == "Deserialize" and c.get("self_ty") in ("Scalar", "G1Projective", "G2Projective") and r.get("crate") == e["crate"]:
                    reached.append((f, bb))
        ctx.ob("E8.dep", e["key"], not reached, "%s: %s; reachable from blsful through %d call site(s), e.g. %s" % (e["fn"], e["fails_on"], len(reached), [x[0].key for x in reached[:3]]), where=where(*reached[0]) if reached else None)
