"""C03 - keys, signatures and proofs of possession match the IETF BLS ciphersuites."""
from .common import spec, collect_constants, where
from . import constructions as K
from ..core.sym import evaluate, strip_sites
from ..core import bytesnf as B
from ..core.terms import show

EXPLANATION = (
    "Decides the conformance-relevant glue for all inputs: the 8 ciphersuite tags are const-evaluated and compared with the "
    "IETF strings (exhaustive); every hash_to_point resolves to the backend's random-oracle `hash` with expander "
    "ExpandMsgXmd<SHA-256> (read from resolved generic arguments) and forwards message and tag unmodified; KeyGen is "
    "HKDF-Extract(salt, ikm‖0x00) / Expand(info=0x0030, 48) / from_okm with the pinned salt routed from the key-derivation "
    "entry points; each scheme method routes exactly (its tag, its message framing) to the core primitive - augmentation "
    "hashes to_bytes(pk)‖msg on sign, verify and aggregate-verify, proof of possession hashes to_bytes(pk) under the POP tag; "
    "byte conversions of keys/proofs use the group's compressed encoding; an aggregate / multi-signature is, under each scheme, the sum over `+` of one accumulation and element 0 exactly once. Not decided: byte equality with a reference "
    "implementation (needs execution) and the curve arithmetic of the backend."
)
RULE = "E1 constants vs IETF table; E1 routing via resolved generic args; E5 construction terms (value numbering + bytes normal form) vs pinned KeyGen/augmentation/PoP constructions"


def run(ctx):
    P = ctx.P
    pinned = spec("pinned.json")
    consts = collect_constants(P)
    for key, want in pinned["ietf_tags"].items():
        impl, item = key.split("/")
        tr, name = item.split("::")
        got = [c for c in consts if c["impl"] == impl and c["trait"] == tr and c["name"] == name]
        if not got:
            ctx.ob("E1.ietf", key, False, "ciphersuite tag `%s` not found (missing anchor)" % key)
            continue
        ctx.ob("E1.ietf", key, got[0]["str"] == want, "`%s` = %r, IETF draft says %r" % (key, got[0]["str"], want), sample={"tag": key, "value": got[0]["str"]})
    ctx.extra["exhaustive"] = True
    K.check_hash_to_point_routing(ctx, P)
    # signature group <-> tag group: the G1 impl signs in G1 (minimal-signature-size), G2 impl in G2
    for im in P.impls:
        if im.get("trait") == "Pairing":
            tys = {t["name"]: t["ty"] for t in im["types"]}
            ctx.ob("E1.groups", im["self"], tys.get("Signature") == pinned["group_of_signature"].get(im["self"]) and tys.get("PublicKey") == pinned["group_of_public_key"].get(im["self"]), "%s: Signature=%s PublicKey=%s" % (im["self"], tys.get("Signature"), tys.get("PublicKey")))
    for im in P.impls:
        if im.get("trait") == "HashToPoint" and im["self"] in pinned["group_of_signature"]:
            out = {t["name"]: t["ty"] for t in im["types"]}.get("Output")
            ctx.ob("E1.groups", "%s/HashToPoint::Output" % im["self"], out == pinned["group_of_signature"][im["self"]], "%s hashes into %s" % (im["self"], out))
    K.check_keygen(ctx, P)
    K.check_seeded_derivation(ctx, P)
    K.check_core_table(ctx, P, methods=("sign", "partial_sign", "pop_prove", "verify", "partial_verify", "pop_verify", "multi_sig_verify"))
    with ctx.prefixed("nodebug|"):
        K.check_core_table(ctx, ctx.prog("blst", "nodebug"), methods=("sign", "partial_sign", "pop_prove", "verify", "partial_verify", "pop_verify", "multi_sig_verify"))
    # a signature labelled with scheme V is produced and checked by the draft's scheme V: the library's entry points reach the
    # scheme trait of the label (the tag table above is per trait; a wrapper arm that calls another trait's method uses the
    # other ciphersuite's tag and message rule)
    from . import spec as SP
    from .c01 import WRAPPERS

    nsp = 0
    for k in WRAPPERS:
        f = P.fns.get(k)
        if f is not None and k != "Signature<C>::from_shares":
            nsp += SP.check_trait_by_scheme(ctx, "E2.dispatch", P, f, ("sign", "verify", "partial_sign", "partial_verify", "aggregate_verify", "multi_sig_verify", "pop_prove", "pop_verify", "core_sign", "core_verify"))
    ctx.floor("E2.dispatch", "(wrapper, scheme) pairs reaching the scheme's own trait method", nsp, 14)
    # the user-facing proof-of-possession entry points are the draft's PopProve / PopVerify
    K.check_pop_chain(ctx, P)
    # compressed point encoding for the byte form of keys and proofs of possession
    for ty in ("PublicKey", "MultiPublicKey", "ProofOfPossession"):
        f = ctx.need_fn("E9.compressed", "<Vec<u8> as From<&%s<C>>>::from" % ty)
        if f is None:
            continue
        ev = evaluate(f)
        segs = B.nf(ev, ev.ret)
        ok = len(segs) == 1 and segs[0][0] == "v" and segs[0][1].op == "call" and B.cname(segs[0][1]) == "GroupEncoding::to_bytes"
        ctx.ob("E9.compressed", ty, ok, "byte form of %s is %s (want GroupEncoding::to_bytes = compressed encoding)" % (ty, B.show_nf(segs)), where=where(f))
    # aggregates are the plain group sum of their parts (draft: Aggregate), every part exactly once
    from . import flow as F

    F.check_sum_once_of(ctx, "E4.sum-once", P, "<AggregateSignature<C> as TryFrom<&[Signature<C>]>>::try_from", "sigs", "AggregateSignature", 3)
    F.check_sum_once_of(ctx, "E4.sum-once", P, "<MultiSignature<C> as TryFrom<&[Signature<C>]>>::try_from", "sigs", "MultiSignature", 2)
    # the trait-level Aggregate / key aggregation of the draft
    from .c07 import check_accumulators

    check_accumulators(ctx, P, ("BlsSignatureCore::aggregate_signatures", "BlsSignatureCore::aggregate_public_keys"))
    # the draft signs and verifies EVERY octet string (the empty one included): no branch on the way from sign / verify to
    # the hash reads the message itself
    F.check_message_blind_control(ctx, "E6.msg-blind", P, ["SecretKey<C>::sign", "Signature<C>::verify", "BlsSignatureCore::core_sign", "BlsSignatureCore::core_verify"], floor=4)
    # CoreAggregateVerify of the draft: one pairing input (H(m_i), pk_i) per list entry - none merged, skipped or built
    # from another entry's message - so that what the reference verifier accepts is accepted
    fkc = "BlsSignatureCore::core_aggregate_verify"
    fc = ctx.need_fn("E4.loop", fkc)
    if fc is not None:
        ents = F.entry_builders(P, fc)
        for e in ents:
            ctx.ob("E4.loop", fkc + "/every-entry", e["every"], "every list entry yields its own (hash_to_point(msg,dst), pk) pairing input or an error (%s)" % e["mode"], where=where(e["fn"], e["bb"]))
        if not ents:
            ctx.ob("E4.loop", fkc + "/every-entry", False, "no per-entry construction of pairing inputs found", where=where(fc))
        F.check_entry_pair_form(ctx, "E5.equation", P, fkc, ents)
    ctx.assume("GroupEncoding::to_bytes of both backends is the ZCash/IETF compressed serialization (dependency contract)")
    ctx.assume("the backend's hash::<ExpandMsgXmd<Sha256>> implements hash_to_curve SSWU_RO of RFC 9380 (dependency contract)")
