"""E9: codec sibling agreement, wire-tag tables, layouts."""
from ..core.sym import evaluate, strip_sites, inline
from ..core.terms import T, show, subterms
from ..core import bytesnf as B
from ..core import guards as G
from .common import where, spec


def _adt(P, name):
    return P.adts.get(name)


def switch_table(P, fn):
    """For a function that switches on a scalar/str parameter or an enum discriminant and
    returns constants/variants: list of (input, output) pairs read from the CFG.
    input: ('int', v) | ('str', s) | ('variant', name) | ('otherwise',)
    output: ('int', v) | ('str', s) | ('variant', adt, name) | ('err',)"""
    ev = evaluate(fn)
    cfg = fn.cfg
    rows = []
    for rb in cfg.return_blocks():
        pass
    # walk every block that defines the return place with a constant/variant
    for b in sorted(cfg.reachable):
        blk = fn.blocks[b]
        outs = []
        for s in blk["stmts"]:
            if s["k"] == "assign" and s["place"].get("l") == 0 and "p" not in s["place"]:
                outs.append(_out_of_rv(P, s["rv"], fn, b))
        t = blk["term"]
        if t["k"] == "call" and t["dest"].get("l") == 0 and "p" not in t["dest"]:
            outs.append(_out_of_term(ev.sites[b].value) if b in ev.sites else None)
        for o in outs:
            if o is None:
                continue
            rows.append((tuple(_conds(P, fn, ev, b)), o, b))
    return rows


def _out_of_rv(P, rv, fn, b):
    if "use" in rv and "const" in rv["use"]:
        c = rv["use"]["const"]
        if "int" in c:
            if c.get("ty") in P.adts and P.adts[c["ty"]]["kind"] == "enum":
                for v in P.adts[c["ty"]]["variants"]:
                    if v.get("discr", v["index"]) == c["int"]:
                        return ("variant", c["ty"], v["name"])
            return ("int", c["int"])
        if "bytes_str" in c:
            return ("str", c["bytes_str"])
    if "agg" in rv:
        a = rv["agg"]
        if "adt" in a:
            if a["adt"] in ("Result", "Option") and a["variant"] in ("Ok", "Some") and rv["ops"]:
                op = rv["ops"][0]
                if "const" in op:
                    return _out_of_rv(P, {"use": op}, fn, b)
                # Ok(move _x) where _x assigned a variant in the same block
                pl = op.get("move") or op.get("copy")
                if pl:
                    for s in fn.blocks[b]["stmts"]:
                        if s["k"] == "assign" and s["place"] == pl:
                            return _out_of_rv(P, s["rv"], fn, b)
                return ("ok", "?")
            if a["adt"] in ("Result", "Option") and a["variant"] in ("Err", "None"):
                return ("err",)
            if a["adt"] in P.adts and P.adts[a["adt"]]["kind"] == "enum":
                return ("variant", a["adt"], a["variant"])
    return None


def _out_of_term(v):
    """String literal carried by a formatting call such as write_fmt(f, Arguments::from_str("lit"))."""
    lits = [x for x in subterms(v) if x.op == "const" and x.a[0] == "bytes"]
    if len(lits) == 1:
        try:
            return ("str", bytes.fromhex(lits[0].a[1]).decode())
        except Exception:
            return None
    return None


def _out_of_call(P, t):
    # write!(f, "literal") -> Formatter::write_str / write_fmt(Arguments::new_const(["lit"]))
    c = t.get("callee")
    if not c:
        return None
    for a in t.get("args", []):
        if "const" in a and "bytes_str" in a["const"]:
            return ("str", a["const"]["bytes_str"])
    return None


def _conds(P, fn, ev, b):
    out = []
    for src, val, d, tj in G.edge_conditions(ev, b):
        v = G.variant_of_switch(P, fn, src, val)
        if v is not None:
            out.append(("variant", v[0], v[1]))
            continue
        if tj.get("ty") == "bool":
            # string comparisons: eq(param, "lit")
            f = G.formula(d) if d is not None else None
            if f and f[0] == "atom" and f[1] == "eq":
                lit = None
                for x in (f[2], f[3]):
                    x = B.peel(x)
                    if x.op == "const" and x.a[0] == "bytes":
                        try:
                            lit = bytes.fromhex(x.a[1]).decode()
                        except Exception:
                            lit = x.a[1]
                if lit is not None:
                    out.append(("str", lit, val != 0))
                    continue
            out.append(("cond", show(strip_sites(d), 4) if d is not None else "?", val))
        else:
            out.append(("int", val, show(strip_sites(d), 3) if d is not None else "?"))
    return out


def enum_tables(P, adt_name):
    """Writer and reader tables of a wire-tag enum."""
    a = P.adts.get(adt_name)
    variants = [v["name"] for v in a["variants"]]
    declared = {v["name"]: v.get("discr", v["index"]) for v in a["variants"]}
    tables = {"declared": declared, "writers_u8": [], "readers_u8": [], "writers_str": [], "readers_str": [], "as_casts": []}
    for fn in P.fns.values():
        if fn.from_expansion:
            continue
        k = fn.key
        # explicit conversions
        if fn.impl_trait in ("From", "TryFrom", "FromStr", "Display") or True:
            pass
        if k in ("<u8 as From<%s>>::from" % adt_name,):
            tables["writers_u8"].append((fn, _variant_to_out(P, fn, adt_name)))
        if k in ("<%s as From<u8>>::from" % adt_name, "<%s as TryFrom<u8>>::try_from" % adt_name):
            tables["readers_u8"].append((fn, _in_to_variant(P, fn, adt_name, "int")))
        if k == "<%s as Display>::fmt" % adt_name:
            tables["writers_str"].append((fn, _variant_to_out(P, fn, adt_name)))
        if k in ("<%s as FromStr>::from_str" % adt_name, "<%s as From<&str>>::from" % adt_name):
            tables["readers_str"].append((fn, _in_to_variant(P, fn, adt_name, "str")))
    # `E as u8` casts anywhere in hand-written code: writer by declared discriminant
    for fn in P.fns.values():
        for bi in sorted(fn.cfg.reachable):
            for s in fn.blocks[bi]["stmts"]:
                if s["k"] == "assign" and "cast" in s["rv"] and s["rv"]["cast"] == "IntToInt":
                    # preceded by `_x = discriminant(_y)` with adt == adt_name
                    src = s["rv"]["a"]
                    pl = src.get("move") or src.get("copy")
                    if not pl:
                        continue
                    for s2 in fn.blocks[bi]["stmts"]:
                        if s2["k"] == "assign" and s2["place"] == pl and "discr" in s2["rv"] and s2["rv"].get("adt") == adt_name:
                            if not (s.get("mac") and any(m.startswith("derive") or m in ("Hash", "PartialOrd", "Ord", "PartialEq") for m in s.get("mac", []))):
                                tables["as_casts"].append((fn, bi, s.get("sp")))
    return variants, tables


def _variant_to_out(P, fn, adt_name):
    rows = switch_table(P, fn)
    m = {}
    for conds, out, b in rows:
        vs = [c for c in conds if c[0] == "variant" and c[1] == adt_name]
        if vs and isinstance(vs[-1][2], str) and out[0] in ("int", "str"):
            m[vs[-1][2]] = out[1]
    return m


def _in_to_variant(P, fn, adt_name, kind):
    rows = switch_table(P, fn)
    m = {}
    for conds, out, b in rows:
        if out[0] == "variant" and out[1] == adt_name:
            key = None
            if kind == "int":
                ints = [c for c in conds if c[0] == "int"]
                if ints:
                    key = ints[-1][1]
            else:
                strs = [c for c in conds if c[0] == "str" and c[2]]
                if strs:
                    key = strs[-1][1]
                else:
                    key = "otherwise" if any(c[0] == "str" for c in conds) else None
            if key is None:
                key = "otherwise"
            m.setdefault(key, out[2])
        elif out[0] == "err":
            m.setdefault("otherwise", None)
    return m


def check_tag_tables(ctx, P, only=None):
    """Writer table ∘ reader table = identity on variants, for u8 and str forms, including
    every `E as u8` cast (which writes the *declared* discriminant)."""
    pinned = spec("pinned.json")["wire_tags"]
    for adt_name in pinned:
        if only and adt_name not in only:
            continue
        if adt_name not in P.adts:
            ctx.ob("E9.tags.anchor", adt_name, False, "wire-tag enum `%s` not found" % adt_name)
            continue
        variants, tb = enum_tables(P, adt_name)
        readers_u8 = tb["readers_u8"]
        if not readers_u8:
            ctx.ob("E9.tags.anchor", adt_name + "/reader-u8", False, "no u8 reader for `%s`" % adt_name)
            continue
        rfn, rmap = readers_u8[0]
        ctx.saw(rfn)

        def read_u8(v):
            if v in rmap:
                return rmap[v]
            return rmap.get("otherwise")

        # explicit writers
        for wfn, wmap in tb["writers_u8"]:
            ctx.saw(wfn)
            for var in variants:
                back = read_u8(wmap.get(var))
                ctx.ob(
                    "E9.tags.u8",
                    "%s::%s via %s" % (adt_name, var, wfn.key),
                    back == var,
                    "%s::%s is written as %r by `%s` and read back as %r by `%s`" % (adt_name, var, wmap.get(var), wfn.key, back, rfn.key),
                    where=where(wfn),
                )
        # `as u8` casts use the declared discriminants
        for fn, bi, sp in tb["as_casts"]:
            ctx.saw(fn)
            for var in variants:
                val = tb["declared"][var]
                back = read_u8(val)
                ctx.ob(
                    "E9.tags.cast",
                    "%s::%s as u8 in %s" % (adt_name, var, fn.key),
                    back == var,
                    "`%s::%s as u8` writes the declared discriminant %r, which `%s` reads back as %r" % (adt_name, var, val, rfn.key, back),
                    where=where(fn, bi, sp),
                )
        # string tables
        if tb["writers_str"] and tb["readers_str"]:
            wfn, wmap = tb["writers_str"][0]
            for sfn, smap in tb["readers_str"]:
                ctx.saw(sfn)
                for var in variants:
                    s = wmap.get(var)
                    back = smap.get(s, smap.get("otherwise"))
                    ctx.ob(
                        "E9.tags.str",
                        "%s::%s via %s" % (adt_name, var, sfn.key),
                        back == var,
                        "%s::%s is displayed as %r and parsed back as %r by `%s`" % (adt_name, var, s, back, sfn.key),
                        where=where(sfn),
                    )
        else:
            ctx.ob("E9.tags.anchor", adt_name + "/str", False, "string writer/reader table of `%s` not found" % adt_name)
        # pinned values (C18): both the numeric and the string forms
        ctx.extra.setdefault("tag_tables", {})[adt_name] = {
            "declared": tb["declared"],
            "reader_u8": {str(k): v for k, v in rmap.items()},
            "writers_u8": [{"fn": w.key, "map": m} for w, m in tb["writers_u8"]],
            "casts": [f.key for f, _, _ in tb["as_casts"]],
        }
    return True
