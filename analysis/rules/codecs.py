"""E9: codec sibling agreement, wire-tag tables, layouts."""
from ..core.sym import evaluate, strip_sites, inline
from ..core.terms import T, show, subterms
from ..core import bytesnf as B
from ..core import guards as G
from .common import where, spec


def _adt(P, name):
    return P.adts.get(name)


def switch_table(P, fn):
    """For a function that switches on a scalar/str parameter or an enum discriminant and
    returns constants/variants: list of (input, output) pairs read from the CFG.
    input: ('int', v) | ('str', s) | ('variant', name) | ('otherwise',)
    output: ('int', v) | ('str', s) | ('variant', adt, name) | ('err',)"""
    ev = evaluate(fn)
    cfg = fn.cfg
    rows = []
    for rb in cfg.return_blocks():
        pass
    # walk every block that defines the return place with a constant/variant
    for b in sorted(cfg.reachable):
        blk = fn.blocks[b]
        outs = []
        for s in blk["stmts"]:
            if s["k"] == "assign" and s["place"].get("l") == 0 and "p" not in s["place"]:
                outs.append(_out_of_rv(P, s["rv"], fn, b))
        t = blk["term"]
        if t["k"] == "call" and t["dest"].get("l") == 0 and "p" not in t["dest"]:
            outs.append(_out_of_term(ev.sites[b].value) if b in ev.sites else None)
        for o in outs:
            if o is None:
                continue
            rows.append((tuple(_conds(P, fn, ev, b)), o, b))
    return rows


def _out_of_rv(P, rv, fn, b):
    if "use" in rv and "const" in rv["use"]:
        c = rv["use"]["const"]
        if "int" in c:
            if c.get("ty") in P.adts and P.adts[c["ty"]]["kind"] == "enum":
                for v in P.adts[c["ty"]]["variants"]:
                    if v.get("discr", v["index"]) == c["int"]:
                        return ("variant", c["ty"], v["name"])
            return ("int", c["int"])
        if "bytes_str" in c:
            return ("str", c["bytes_str"])
    if "agg" in rv:
        a = rv["agg"]
        if "adt" in a:
            if a["adt"] in ("Result", "Option") and a["variant"] in ("Ok", "Some") and rv["ops"]:
                op = rv["ops"][0]
                if "const" in op:
                    return _out_of_rv(P, {"use": op}, fn, b)
                # Ok(move _x) where _x assigned a variant in the same block
                pl = op.get("move") or op.get("copy")
                if pl:
                    for s in fn.blocks[b]["stmts"]:
                        if s["k"] == "assign" and s["place"] == pl:
                            return _out_of_rv(P, s["rv"], fn, b)
                return ("ok", "?")
            if a["adt"] in ("Result", "Option") and a["variant"] in ("Err", "None"):
                return ("err",)
            if a["adt"] in P.adts and P.adts[a["adt"]]["kind"] == "enum":
                return ("variant", a["adt"], a["variant"])
    return None


def _out_of_term(v):
    """String literal carried by a formatting call such as write_fmt(f, Arguments::from_str("lit"))."""
    lits = [x for x in subterms(v) if x.op == "const" and x.a[0] == "bytes"]
    if len(lits) == 1:
        try:
            return ("str", bytes.fromhex(lits[0].a[1]).decode())
        except Exception:
            return None
    return None


def _out_of_call(P, t):
    # write!(f, "literal") -> Formatter::write_str / write_fmt(Arguments::new_const(["lit"]))
    c = t.get("callee")
    if not c:
        return None
    for a in t.get("args", []):
        if "const" in a and "bytes_str" in a["const"]:
            return ("str", a["const"]["bytes_str"])
    return None


def _conds(P, fn, ev, b):
    out = []
    for src, val, d, tj in G.edge_conditions(ev, b):
        v = G.variant_of_switch(P, fn, src, val)
        if v is not None:
            out.append(("variant", v[0], v[1]))
            continue
        if tj.get("ty") == "bool":
            # string comparisons: eq(param, "lit")
            f = G.formula(d) if d is not None else None
            if f and f[0] == "atom" and f[1] == "eq":
                lit = None
                for x in (f[2], f[3]):
                    x = B.peel(x)
                    if x.op == "const" and x.a[0] == "bytes":
                        try:
                            lit = bytes.fromhex(x.a[1]).decode()
                        except Exception:
                            lit = x.a[1]
                if lit is not None:
                    out.append(("str", lit, val != 0))
                    continue
            out.append(("cond", show(strip_sites(d), 4) if d is not None else "?", val))
        else:
            out.append(("int", val, show(strip_sites(d), 3) if d is not None else "?"))
    return out


def enum_tables(P, adt_name):
    """Writer and reader tables of a wire-tag enum."""
    a = P.adts.get(adt_name)
    variants = [v["name"] for v in a["variants"]]
    declared = {v["name"]: v.get("discr", v["index"]) for v in a["variants"]}
    tables = {"declared": declared, "writers_u8": [], "readers_u8": [], "writers_str": [], "readers_str": [], "as_casts": []}
    for fn in P.fns.values():
        if fn.from_expansion:
            continue
        k = fn.key
        # explicit conversions
        if fn.impl_trait in ("From", "TryFrom", "FromStr", "Display") or True:
            pass
        if k in ("<u8 as From<%s>>::from" % adt_name,):
            tables["writers_u8"].append((fn, _variant_to_out(P, fn, adt_name)))
        if k in ("<%s as From<u8>>::from" % adt_name, "<%s as TryFrom<u8>>::try_from" % adt_name):
            tables["readers_u8"].append((fn, _in_to_variant(P, fn, adt_name, "int")))
        if k == "<%s as Display>::fmt" % adt_name:
            tables["writers_str"].append((fn, _variant_to_out(P, fn, adt_name)))
        if k in ("<%s as FromStr>::from_str" % adt_name, "<%s as From<&str>>::from" % adt_name):
            tables["readers_str"].append((fn, _in_to_variant(P, fn, adt_name, "str")))
    # `E as u8` casts anywhere in hand-written code: writer by declared discriminant
    for fn in P.fns.values():
        for bi in sorted(fn.cfg.reachable):
            for s in fn.blocks[bi]["stmts"]:
                if s["k"] == "assign" and "cast" in s["rv"] and s["rv"]["cast"] == "IntToInt" and str(s["rv"].get("to")) in ("u8", "i8", "u16", "u32", "u64"):
                    # (a cast to usize is an index into a table, not a value written out)
                    # preceded by `_x = discriminant(_y)` with adt == adt_name
                    src = s["rv"]["a"]
                    pl = src.get("move") or src.get("copy")
                    if not pl:
                        continue
                    for s2 in fn.blocks[bi]["stmts"]:
                        if s2["k"] == "assign" and s2["place"] == pl and "discr" in s2["rv"] and s2["rv"].get("adt") == adt_name:
                            if not (s.get("mac") and any(m.startswith("derive") or m in ("Hash", "PartialOrd", "Ord", "PartialEq") for m in s.get("mac", []))):
                                tables["as_casts"].append((fn, bi, s.get("sp")))
    return variants, tables


def _variant_to_out_spec(P, fn, adt_name):
    """Writer table by variant-specialised evaluation: under "value = V" the function returns one integer constant, or
    hands exactly one string literal to the formatter.  None if the function does not select on the enum."""
    from . import spec as SP

    roots = [r for r, a in SP.switch_roots(P, fn, [adt_name]) if a == adt_name]
    if not roots:
        # `value as u8`: the declared discriminant is written
        r0 = strip_sites(evaluate(fn).ret)
        while r0.op == "cast":
            r0 = r0.a[1]
        if r0.op == "discr" and B.peel(r0.a[0]).op == "param":
            return {v["name"]: v.get("discr", v["index"]) for v in P.adts[adt_name]["variants"]}
    if not roots:
        # table lookup by discriminant (`TAGS[self as usize]`, `f.write_str(NAMES[self.index()])`): the branch-free term
        # is folded for each variant over the constant table
        from ..core import ceval as CE

        ev0 = evaluate(fn)
        pidx = next((i for i in range(1, fn.arg_count + 1) if adt_name in str(fn.locals[i].get("ty") or "")), None)
        cands = [strip_sites(SP.spec_inline(P, ev0, ev0.ret, 2))]
        for _, s_ in sorted(ev0.sites.items()):
            if s_.callee[0].split("::")[-1] in ("write_str", "pad", "serialize_str", "serialize_u8") and len(s_.args) >= 2:
                cands.append(strip_sites(SP.spec_inline(P, ev0, s_.args[1], 2)))
        if pidx is not None:
            for cand in cands:
                m = {}
                try:
                    for v in P.adts[adt_name]["variants"]:
                        val = ("adt", adt_name, v["name"], ())
                        env = {T("param", pidx, ev0.pname(pidx)): val}
                        r = CE.ceval(P, cand, env)
                        if isinstance(r, bool) or not isinstance(r, (int, bytes)):
                            raise CE.Unknown("not a tag")
                        m[v["name"]] = r if isinstance(r, int) else r.decode()
                except (CE.Unknown, Exception):
                    continue
                if m:
                    return m
    if len(roots) != 1:
        return None
    m = {}
    for v in P.adts[adt_name]["variants"]:
        ev = evaluate(fn, {roots[0]: v["name"]})
        r = strip_sites(SP.spec_inline(P, ev, ev.ret, 2))
        if r.op == "const" and r.a[0] == "int":
            m[v["name"]] = r.a[1]
            continue
        lits = set()
        for _, s_ in sorted(ev.sites.items()):
            if s_.callee[0].split("::")[-1] in ("write_str", "write_fmt", "pad", "fmt", "new_const", "from_str", "to_string", "serialize_str"):
                for a in s_.args:
                    for x in subterms(strip_sites(SP.spec_inline(P, ev, a, 2))):
                        if x.op == "const" and x.a[0] == "bytes":
                            lits.add(x.a[1])
        if len(lits) == 1:
            try:
                m[v["name"]] = bytes.fromhex(next(iter(lits))).decode()
            except Exception:
                pass
    return m


def _variant_to_out_concrete(P, fn, adt_name):
    """Writer table by walking the function with each variant as its argument (see core/cinterp.py)."""
    from ..core import cinterp as CI

    pidx = next((i for i in range(1, fn.arg_count + 1) if adt_name in str(fn.locals[i].get("ty") or "")), None)
    if pidx is None:
        return None
    m = {}
    try:
        for v in P.adts[adt_name]["variants"]:
            args = [("adt", "Formatter", "Formatter", ())] * fn.arg_count
            args[pidx - 1] = ("adt", adt_name, v["name"], ())
            val, out = CI.run_fn(P, fn, args)
            if isinstance(val, int) and not isinstance(val, bool) and not out:
                m[v["name"]] = val
            elif len(out) == 1:
                m[v["name"]] = out[0] if isinstance(out[0], int) else out[0].decode()
            else:
                return None
    except Exception:
        return None
    return m


def _variant_to_out(P, fn, adt_name):
    m = _variant_to_out_spec(P, fn, adt_name)
    if m and len(m) == len(P.adts[adt_name]["variants"]):
        return m
    mc = _variant_to_out_concrete(P, fn, adt_name)
    if mc:
        return mc
    if m:
        return m
    rows = switch_table(P, fn)
    m = {}
    for conds, out, b in rows:
        vs = [c for c in conds if c[0] == "variant" and c[1] == adt_name]
        if vs and isinstance(vs[-1][2], str) and out[0] in ("int", "str"):
            m[vs[-1][2]] = out[1]
    return m


def _in_to_variant(P, fn, adt_name, kind, _depth=0):
    # a reader that only forwards its input to a sibling reader of the same enum (`from_str(s) = Ok(Self::from(s))`)
    if _depth == 0:
        ev = evaluate(fn)
        r = strip_sites(ev.ret)
        if r.op == "agg" and r.a[0][0] == "adt" and r.a[0][1] in ("Result", "Option") and r.a[0][2] in ("Ok", "Some") and len(r.a[1]) == 1:
            r = r.a[1][0]
        if r.op == "call" and len(r.a[1]) == 1 and B.peel(r.a[1][0]).op == "param":
            cands = ["<%s as From<&str>>::from" % adt_name, "<%s as FromStr>::from_str" % adt_name, "<%s as From<u8>>::from" % adt_name, "<%s as TryFrom<u8>>::try_from" % adt_name]
            name = B.cname(r)
            g = None
            if name in cands and name != fn.key:
                g = P.fns.get(name)
            elif name in ("From::from", "TryFrom::try_from", "FromStr::from_str", "Into::into"):
                # trait call resolved by type: the sibling reader with the same input kind
                for c in cands:
                    if c != fn.key and c in P.fns and (("str" in c) == (kind == "str")):
                        g = P.fns[c]
                        break
            if g is not None:
                return _in_to_variant(P, g, adt_name, kind, 1)
    # table-driven reader (no branch on the input in the function itself): evaluate it on every candidate input
    ev0 = evaluate(fn)
    r0 = strip_sites(ev0.ret)
    if not any(x.op == "phi" for x in subterms(r0)) and not any(B.peel(d).op == "param" or any(y.op == "param" for y in subterms(d)) for d in ev0.switch.values()):
        from ..core import ceval as CE

        p1 = T("param", 1, ev0.pname(1))
        if kind == "int":
            cands = list(range(256))
        else:
            cands = sorted({bytes.fromhex(x.a[1]) for f_ in P.fns.values() for s_ in evaluate(f_).sites.values() for a_ in s_.args for x in subterms(a_) if x.op == "const" and x.a[0] == "bytes"} | {bytes.fromhex(x.a[1]) for c_ in P.consts for x in subterms(__import__("analysis.core.sym", fromlist=["_val"])._val(c_.get("value") or {}, None)) if x.op == "const" and x.a[0] == "bytes"})
        m = {}
        try:
            other = CE.result_variant(CE.ceval(P, r0, {p1: 255 if kind == "int" else b"\x00<none>"}))
            for k_ in cands:
                v_ = CE.result_variant(CE.ceval(P, r0, {p1: k_}))
                if v_ != other or (kind == "int" and False):
                    m[k_ if kind == "int" else k_.decode("latin-1")] = v_
            m["otherwise"] = other
            # keys that map to the fallback variant as well (e.g. 2 -> ProofOfPossession by position and by default)
            return m
        except CE.Unknown:
            pass
    # branchy conversion (if / match / early returns / helpers): walk it with every candidate input
    try:
        from ..core import cinterp as CI
        from ..core import ceval as CE

        if kind == "int":
            cands = list(range(256))
        else:
            cands = sorted({bytes.fromhex(x.a[1]) for f_ in P.fns.values() if not f_.from_expansion for s_ in evaluate(f_).sites.values() for a_ in s_.args for x in subterms(a_) if x.op == "const" and x.a[0] == "bytes" and len(x.a[1]) <= 80})
            for f_ in list(P.fns.values()) + list(getattr(P, "helpers", {}).values()):
                if adt_name in f_.key:
                    for blk in f_.blocks:
                        for st_ in blk["stmts"]:
                            if st_["k"] == "assign":
                                for x in subterms(__import__("analysis.core.sym", fromlist=["const_term"]).const_term(st_["rv"]["use"]["const"])) if isinstance(st_["rv"].get("use"), dict) and "const" in st_["rv"]["use"] else []:
                                    if x.op == "const" and x.a[0] == "bytes":
                                        cands.append(bytes.fromhex(x.a[1]))
            cands = sorted(set(cands))
        other = CE.result_variant(CI.run_fn(P, fn, [255 if kind == "int" else b"\x00<none>"])[0])
        m = {}
        for k_ in cands:
            v_ = CE.result_variant(CI.run_fn(P, fn, [k_])[0])
            if v_ != other:
                m[k_ if kind == "int" else k_.decode("latin-1")] = v_
        m["otherwise"] = other
        if len(m) > 1 or other is not None:
            return m
    except Exception:
        pass
    rows = switch_table(P, fn)
    m = {}
    for conds, out, b in rows:
        if out[0] == "variant" and out[1] == adt_name:
            key = None
            if kind == "int":
                ints = [c for c in conds if c[0] == "int"]
                if ints:
                    key = ints[-1][1]
            else:
                strs = [c for c in conds if c[0] == "str" and c[2]]
                if strs:
                    key = strs[-1][1]
                else:
                    key = "otherwise" if any(c[0] == "str" for c in conds) else None
            if key is None:
                key = "otherwise"
            m.setdefault(key, out[2])
        elif out[0] == "err":
            m.setdefault("otherwise", None)
    return m


def check_tag_tables(ctx, P, only=None):
    """Writer table ∘ reader table = identity on variants, for u8 and str forms, including
    every `E as u8` cast (which writes the *declared* discriminant)."""
    pinned = spec("pinned.json")["wire_tags"]
    for adt_name in pinned:
        if only and adt_name not in only:
            continue
        if adt_name not in P.adts:
            ctx.ob("E9.tags.anchor", adt_name, False, "wire-tag enum `%s` not found" % adt_name)
            continue
        variants, tb = enum_tables(P, adt_name)
        readers_u8 = tb["readers_u8"]
        if not readers_u8:
            ctx.ob("E9.tags.anchor", adt_name + "/reader-u8", False, "no u8 reader for `%s`" % adt_name)
            continue
        rfn, rmap = readers_u8[0]
        ctx.saw(rfn)

        def read_u8(v):
            if v in rmap:
                return rmap[v]
            return rmap.get("otherwise")

        # explicit writers
        for wfn, wmap in tb["writers_u8"]:
            ctx.saw(wfn)
            for var in variants:
                back = read_u8(wmap.get(var))
                ctx.ob(
                    "E9.tags.u8",
                    "%s::%s via %s" % (adt_name, var, wfn.key),
                    back == var,
                    "%s::%s is written as %r by `%s` and read back as %r by `%s`" % (adt_name, var, wmap.get(var), wfn.key, back, rfn.key),
                    where=where(wfn),
                )
        # `as u8` casts use the declared discriminants
        for fn, bi, sp in tb["as_casts"]:
            ctx.saw(fn)
            for var in variants:
                val = tb["declared"][var]
                back = read_u8(val)
                ctx.ob(
                    "E9.tags.cast",
                    "%s::%s as u8 in %s" % (adt_name, var, fn.key),
                    back == var,
                    "`%s::%s as u8` writes the declared discriminant %r, which `%s` reads back as %r" % (adt_name, var, val, rfn.key, back),
                    where=where(fn, bi, sp),
                )
        # string tables
        if tb["writers_str"] and tb["readers_str"]:
            wfn, wmap = tb["writers_str"][0]
            for sfn, smap in tb["readers_str"]:
                ctx.saw(sfn)
                for var in variants:
                    s = wmap.get(var)
                    back = smap.get(s, smap.get("otherwise"))
                    ctx.ob(
                        "E9.tags.str",
                        "%s::%s via %s" % (adt_name, var, sfn.key),
                        back == var,
                        "%s::%s is displayed as %r and parsed back as %r by `%s`" % (adt_name, var, s, back, sfn.key),
                        where=where(sfn),
                    )
        else:
            ctx.ob("E9.tags.anchor", adt_name + "/str", False, "string writer/reader table of `%s` not found" % adt_name)
        # pinned values (C18): both the numeric and the string forms
        ctx.extra.setdefault("tag_tables", {})[adt_name] = {
            "declared": tb["declared"],
            "reader_u8": {str(k): v for k, v in rmap.items()},
            "writers_u8": [{"fn": w.key, "map": m} for w, m in tb["writers_u8"]],
            "casts": [f.key for f, _, _ in tb["as_casts"]],
        }
    return True


# ---------------------------------------------------------------------------
# byte codecs: writer / reader classification

import re as _re


def byte_codec_fns(P):
    ws, rs = {}, {}
    for k, f in P.fns.items():
        m = _re.match(r"^<Vec<u8> as From<&([A-Za-z0-9]+)(<C>)?>>::from$", k)
        if m:
            ws[m.group(1)] = f
        m = _re.match(r"^<([A-Za-z0-9]+)(<C>)? as TryFrom<&\[u8\]>>::try_from$", k)
        if m:
            rs[m.group(1)] = f
    return ws, rs


def _norm_ty(s):
    return s.replace("&", "").replace("mut ", "").replace(" ", "")


def _unwrap(t):
    while t.op == "call" and B.cname(t) in ("Result::<T, E>::unwrap", "Result::<T, E>::expect"):
        t = t.a[1][0]
    return t


def classify_writer(P, f):
    from ..core.sym import inline

    ev = evaluate(f)
    # a writer may hand the whole value to a sibling writer of the same type (`Vec::from(&x)` -> `x.to_be_bytes()`)
    sib = lambda g: g.impl_self_adt is not None and g.impl_self_adt == (f.j.get("inputs") or [""])[0].replace("&", "").split("<")[0] and g.name in ("to_be_bytes", "to_le_bytes", "to_bytes", "to_vec")
    ret = strip_sites(inline(P, ev.ret, 1, only=sib))
    alts = list(ret.a[0]) if ret.op == "phi" else [ret]
    kinds = set()
    for r in alts:
        r = _unwrap(r)
        if r.op == "call" and B.cname(r) == "serde_bare::to_vec":
            ty = [s for s in ev.sites.values() if s.callee[0] == "serde_bare::to_vec"][0].callee[1]
            arg = B.peel(r.a[1][0])
            if arg.op == "agg" and arg.a[0][0] == "tuple":
                kinds.add(("BareTagged", _norm_ty(ty[0])))
            else:
                root = F_root(r.a[1][0])
                kinds.add(("Bare", _norm_ty(ty[0]), root))
            continue
        segs = B.nf(ev, r)
        if len(segs) == 1 and segs[0][0] == "v":
            t = segs[0][1]
            if t.op == "call" and B.cname(t) == "GroupEncoding::to_bytes":
                kinds.add(("PointCompressed", F_root(t.a[1][0])))
                continue
            if t.op == "call" and B.cname(t) in ("helpers::scalar_to_be_bytes", "SecretKey<C>::to_be_bytes"):
                kinds.add(("ScalarBE",))
                continue
            if t.op == "call" and B.cname(t) in ("helpers::scalar_to_le_bytes", "SecretKey<C>::to_le_bytes"):
                kinds.add(("ScalarLE",))
                continue
            if t.op == "field" and F_root(t) is not None:
                kinds.add(("Raw", F_root(t)))
                continue
        if len(segs) == 2 and segs[0][0] == "v1":
            kinds.add(("CurveTagged",))
            continue
        if segs and segs[0][0] in ("v1", "b") and any(x[0] == "phi" for x in segs[1:]):
            kinds.add(("CurveTagged",))
            continue
        kinds.add(("Unknown", B.show_nf(segs)[:80]))
    return kinds


def F_root(t):
    from .flow import projection_root

    r = projection_root(strip_sites(t))
    return (r[0].a[1] + r[1]) if r else None


def classify_reader(P, f):
    ev = evaluate(f)
    names = [(s.callee[0], s.callee[1]) for s in ev.sites.values()]
    kinds = set()
    for n, g in names:
        if n == "serde_bare::from_slice":
            ty = _norm_ty(g[0])
            kinds.add(("BareTagged", ty) if ty.startswith("(") else ("Bare", ty))
        elif n in ("GroupEncoding::from_bytes", "GroupEncoding::from_bytes_unchecked"):
            kinds.add(("PointCompressed",))
        elif n in ("helpers::scalar_from_be_bytes", "SecretKey<C>::from_be_bytes") or (n in P.fns and n.endswith("::from_be_bytes")):
            # the type's own big-endian importer (its delegation to the zero-rejecting helper is the endian rule's business)
            kinds.add(("ScalarBE",))
        elif n in ("helpers::scalar_from_le_bytes", "SecretKey<C>::from_le_bytes") or (n in P.fns and n.endswith("::from_le_bytes")):
            kinds.add(("ScalarLE",))
        elif n == "TryInto::try_into" and len(g) == 2 and g[1].startswith("[u8;"):
            # `slice.try_into()` into `[u8; N]` is `<[u8; N]>::try_from(slice)` written from the other side
            kinds.add(("RawArray",))
        elif n == "TryFrom::try_from" and g and g[0].startswith("[u8;"):
            # `<[u8; N]>::try_from(slice)`: the whole input is the fixed-size payload (unless it is decoded further)
            kinds.add(("RawArray",))
        elif n == "TryFrom::try_from" and g and g[0] == "Bls12381":
            kinds.add(("CurveTagged",))
    if ("RawArray",) in kinds:
        kinds.discard(("RawArray",))
        if not kinds:
            kinds.add(("Raw",))
    return kinds


def check_byte_codecs(ctx, P, rule="E9.bytes"):
    ws, rs = byte_codec_fns(P)
    ctx.floor(rule, "types with From<&T> for Vec<u8> + TryFrom<&[u8]>", min(len(ws), len(rs)), 26)
    for n in sorted(set(ws) | set(rs)):
        if n not in ws or n not in rs:
            ctx.ob(rule + ".pair", n, False, "type `%s` has %s but no %s" % (n, "a byte writer" if n in ws else "a byte reader", "reader" if n in ws else "writer"))
            continue
        ctx.saw(ws[n])
        ctx.saw(rs[n])
        wk, rk = classify_writer(P, ws[n]), classify_reader(P, rs[n])
        wkind = {k[0] for k in wk}
        rkind = {k[0] for k in rk}
        ok = len(wkind) == 1 and wkind == rkind and "Unknown" not in wkind
        detail = "writer %s / reader %s" % (sorted(map(str, wk)), sorted(map(str, rk)))
        if ok and wkind == {"Bare"}:
            wt = {k[1] for k in wk}
            rt = {k[1] for k in rk}
            # writer type argument `&T`/`T` equals reader's type argument; newtype adaptation `&x.0` <-> `.map(Self)`
            ok = wt == rt or (wt == {"<CasPairing>::PublicKeyShare"} == rt)
            detail += " ; type arguments %s vs %s" % (sorted(wt), sorted(rt))
            wroot = {k[2] for k in wk}
            # whole value, or the single field of a newtype
            ok = ok and all(r is not None for r in wroot)
        if ok and wkind == {"BareTagged"}:
            wt = {k[1] for k in wk}
            rt = {k[1] for k in rk}
            ok = wt == rt
            detail += " ; tuple types %s vs %s" % (sorted(wt), sorted(rt))
        if "Unknown" in wkind or not rk:
            ctx.ob(rule + ".classify", n, False, "unclassified byte codec (a new encoder/decoder must be triaged): " + detail, where=where(rs[n]))
            continue
        ctx.ob(rule, n, ok, "byte codec kinds agree: " + detail, where=where(rs[n]), sample={"type": n, "writer": sorted(map(str, wk)), "reader": sorted(map(str, rk))})
    return ws, rs


def check_reader_totality(ctx, P, rule="E9.reader-total"):
    """Hand-written byte readers of tagged enums accept every tag (see spec.check_reader_totality)."""
    from . import spec as SP

    ws, rs = byte_codec_fns(P)
    tag_adts = list(P.scheme_adts()) + ["Bls12381"]
    n = 0
    for name, f in sorted(rs.items()):
        a = P.adts.get(name)
        if not a or a["kind"] != "enum":
            continue
        if not SP.switch_roots(P, f, tag_adts, True):
            continue
        n += SP.check_reader_totality(ctx, rule, P, f, name, tag_adts)
    ctx.floor(rule, "(hand-written tagged reader, tag) pairs", n, 5)


def _reads_content(t, pname):
    """Does the term use the input bytes themselves (not just their length)?"""
    from . import guardrules as R_

    def rec(x):
        if x.op == "call" and B.cname(x) in ("slice::<impl [T]>::len", "slice::<impl [T]>::is_empty", "Vec::<T, A>::len", "Vec::<T, A>::is_empty") and len(x.a[1]) == 1:
            y = B.peel(x.a[1][0])
            if y.op == "param":
                return False
            # the length of a sub-slice at a constant offset (`&value[1..]`, the rest of a slice pattern) is still only a length
            try:
                if R_._len_offset(x.a[1][0], pname) is not None:
                    return False
            except Exception:
                pass
        if x.op == "len":
            y = B.peel(x.a[0])
            if y.op == "param":
                return False
        if x.op == "param":
            return x.a[1] == pname
        for y in x.a:
            if isinstance(y, T) and rec(y):
                return True
            if isinstance(y, tuple):
                for z in y:
                    if isinstance(z, T) and rec(z):
                        return True
        return False

    return rec(t)


def check_reader_rejections(ctx, P, rule="E4.reader-rejects", only=None, floor=4):
    """Own rejections of the byte readers.  A reader refuses input (a) by length - the input's length compared with
    something that does not depend on the input's content - or (b) because a decoder it called said no (the `?` / ok_or
    / map_err exits, the None arm of a checked conversion); tag readers in addition dispatch on the tag byte (their
    totality is a rule of its own).  Any other explicit Err exit - one guarded by a comparison or bit test over the
    content of the input, or over values decoded from it - refuses encodings the writer produces."""
    from . import guardrules as R

    ws, rs = byte_codec_fns(P)
    n = 0
    for ty, f in sorted(rs.items()):
        if only is not None and ty not in only:
            continue
        ev = evaluate(f)
        pname = f.locals[1].get("name") or "value"
        for b in R.err_blocks(f):
            n += 1
            lits = G.path_literals(ev, b, P, checks_only=True)
            bad = []
            for atom, pol in lits:
                if atom[0] != "atom":
                    continue
                k = atom[1]
                if k in ("switch", "switch_not"):
                    d = atom[2]
                    inner = d.a[0] if d.op == "discr" else d
                    inner = B.peel(inner)
                    # the verdict of a call (Option / Result / CtOption of a decoder) or a tag dispatch
                    if inner.op in ("call", "mutcall") or d.op == "discr":
                        continue
                    if _reads_content(d, pname):
                        # raw byte switched on: a tag
                        continue
                    continue
                terms = [x for x in atom[2:] if isinstance(x, T)]
                if k == "cmp":
                    terms = [atom[3], atom[4]]
                if k in ("is_some", "is_identity", "is_zero"):
                    continue
                if any(_reads_content(x, pname) for x in terms):
                    bad.append("%s%s" % ("" if pol else "!", G.show_f(atom, 4)[:160]))
            ctx.ob(rule, "%s/err" % f.key, not bad, "explicit rejection in %s is by length or by a decoder's verdict%s" % (f.key, "" if not bad else "; it tests the CONTENT of the input: " + "; ".join(bad[:2])), where=where(f, b))
    ctx.floor(rule, "explicit rejections of byte readers", n, floor)


def check_serialize_total(ctx, P, rule="E9.serialize-total"):
    """The compact serde form is positional (serde_bare): a struct serializer must write every field on every path.
    In each Serialize impl that uses SerializeStruct / SerializeTuple*, no field is skipped (`skip_field`, i.e.
    `skip_serializing_if`) and every field write dominates the closing `end` call."""
    n = 0
    for k, f in sorted(P.fns.items()):
        if not (f.impl_trait == "Serialize" and f.name == "serialize"):
            continue
        ev = evaluate(f)
        writes = [(b, s_) for b, s_ in sorted(ev.sites.items()) if s_.callee[0].split("::")[-1] in ("serialize_field", "serialize_element") and s_.callee[0].split("::")[0].startswith("Serialize")]
        ends = [b for b, s_ in sorted(ev.sites.items()) if s_.callee[0].split("::")[-1] == "end" and s_.callee[0].split("::")[0].startswith("Serialize")]
        skips = [b for b, s_ in sorted(ev.sites.items()) if s_.callee[0].split("::")[-1] == "skip_field"]
        if not writes and not skips:
            continue
        n += 1
        # a write inside a loop (sequence elements) is exempt from the dominance test
        cfg = f.cfg
        inloop = set()
        for src, h in cfg.back_edges():
            inloop |= set(cfg.natural_loop(src, h))
        # every way from the entry to an `end` performs the same number of field writes (a skipped field is a way with
        # fewer writes; writes spread over match arms that all write their fields are not)
        order = [n_ for n_ in cfg.rpo() if isinstance(n_, int)]
        idx_ = {n_: i for i, n_ in enumerate(order)}
        wblocks = {b for b, _ in writes if b not in inloop}
        lo_, hi_ = {}, {}
        for n_ in order:
            ps_ = [p_ for p_, _ in cfg.pred[n_] if p_ in lo_ and idx_.get(p_, 1 << 30) < idx_[n_]]
            base_lo = min((lo_[p_] for p_ in ps_), default=0)
            base_hi = max((hi_[p_] for p_ in ps_), default=0)
            w_ = 1 if n_ in wblocks else 0
            lo_[n_], hi_[n_] = base_lo + w_, base_hi + w_
        cond = [e for e in ends if e in lo_ and lo_[e] != hi_[e]]
        ctx.ob(rule, k, not skips and not cond, "%s writes %d field(s)%s%s" % (k, len(writes), "" if not skips else "; %d field(s) can be SKIPPED (skip_serializing_if): the positional compact form loses them" % len(skips), "" if not cond else "; the number of field writes before `end` depends on the path (%s)" % ", ".join("%d..%d" % (lo_[e], hi_[e]) for e in cond)), where=where(f, (skips or cond or [None])[0]))
    ctx.floor(rule, "struct/tuple serializers", n, 6)


def check_delegations(ctx, P, rule="E9.delegate"):
    """The macro-derived container conversions delegate to the primary pair without touching the bytes."""
    n = 0
    for k, f in sorted(P.fns.items()):
        m = _re.match(r"^<([A-Za-z0-9]+)(<C>)? as TryFrom<(Vec<u8>|&Vec<u8>|Box<\[u8\]>)>>::try_from$", k)
        m2 = _re.match(r"^<Vec<u8> as From<([A-Za-z0-9]+)(<C>)?>>::from$", k)
        if not (m or m2):
            continue
        n += 1
        ctx.saw(f)
        r = strip_sites(evaluate(f).ret)
        ok = r.op == "call" and len(r.a[1]) == 1
        if ok:
            name = B.cname(r)
            arg = r.a[1][0]
            root = None
            x = arg
            while x.op in ("ref", "deref") or (x.op == "call" and B.cname(x) in ("Vec::<T, A>::as_slice", "AsRef::as_ref", "Deref::deref", "Borrow::borrow")):
                x = x.a[0] if x.op in ("ref", "deref") else x.a[1][0]
            ok = x.op == "param" and x.a[1] == "value"
            if m:
                ok = ok and (name.endswith("::try_from") or name == "TryFrom::try_from")
            else:
                ok = ok and (name in ("From::from",) or name.endswith("::from"))
        ctx.ob(rule, k, ok, "delegates to the primary conversion with the bytes unmodified: %s" % show(r, 4), where=where(f))
    ctx.floor(rule, "derived container conversions", n, 100)


def check_serde_with_pairs(ctx, P, rule="E9.serde"):
    """Per type: the sequence of traits::M::serialize callees in its __SerializeWith helpers equals the
    sequence of traits::M::deserialize callees in its __DeserializeWith helpers."""
    ser, de = {}, {}
    for k, f in P.fns.items():
        if "__SerializeWith" in k and k.endswith("serialize") or "__SerializeWith" in k and "::serialize#" in k:
            ty = _re.match(r"^<<([A-Za-z0-9]+)", k)
            idx = int(k.rsplit("#", 1)[1]) if "#" in k.rsplit("::", 1)[-1] else 0
            mods = [_mod(t) for bb, t in f.calls() if _mod(t)]
            if ty and mods:
                ser.setdefault(ty.group(1), []).append((idx, mods[0], f))
        if "__DeserializeWith" in k and ("::deserialize" in k.rsplit(">", 1)[-1]):
            ty = _re.match(r"^<<+([A-Za-z0-9]+)", k)
            idx = int(k.rsplit("#", 1)[1]) if "#" in k.rsplit("::", 1)[-1] else 0
            mods = [_mod(t) for bb, t in f.calls() if _mod(t)]
            if ty and mods:
                de.setdefault(ty.group(1), []).append((idx, mods[0], k, f))
    n = 0
    for ty in sorted(set(ser) | set(de)):
        s = [m for _, m, _ in sorted(ser.get(ty, []), key=lambda x: x[0])]
        # deserialize helpers are emitted once per visitor method (visit_seq and visit_map): compare as multisets of field order
        dl = sorted(de.get(ty, []), key=lambda x: (x[2].count("visit_map"), x[0]))
        d_seq = [m for i, m, k, _ in dl if "visit_seq" in k or "visit_newtype" in k or "visit_enum" in k and "visit_map" not in k]
        d_all = [m for _, m, _, _ in dl]
        n += 1
        ok = bool(s) and d_seq[: len(s)] == s and len(d_all) % max(1, len(s)) == 0 and set(d_all) == set(s)
        ctx.ob(rule, ty, ok, "serialize_with modules %s ; deserialize_with modules (seq order) %s" % (s, d_seq or d_all), sample={"type": ty, "ser": s, "de": d_all})
        for x in ser.get(ty, []):
            ctx.saw(x[2])
    ctx.floor(rule, "types with serialize_with/deserialize_with fields", n, 14)
    # BlsSerde impl pairs: serialize_X / deserialize_X on the same associated type
    impls = {}
    for k, f in P.fns.items():
        if f.impl_trait == "BlsSerde":
            kind, what = f.name.split("_", 1)
            tys = [t["callee"].get("self_ty") for bb, t in f.calls() if t.get("callee") and t["callee"].get("trait") in ("Serialize", "Deserialize", "BigArray")]
            trs = [t["callee"].get("trait") for bb, t in f.calls() if t.get("callee") and t["callee"].get("trait") in ("Serialize", "Deserialize", "BigArray")]
            impls.setdefault((f.impl_self, what), {})[kind] = (tys, trs, f)
    for (im, what), d in sorted(impls.items()):
        if "serialize" in d and "deserialize" in d:
            st, sr, sf = d["serialize"]
            dt, dr, df = d["deserialize"]
            norm = lambda xs: [x.replace("<Self as Pairing>::", "").replace("&", "") for x in xs if x]
            ok = len(st) == 1 and len(dt) == 1 and norm(st) == norm(dt) and (sr[0] == "BigArray") == (dr[0] == "BigArray")
            ctx.ob(rule + ".blsserde", "%s/%s" % (im, what), ok, "serialize_%s uses <%s as %s>, deserialize_%s uses <%s as %s>" % (what, st, sr, what, dt, dr), where=where(df))
            # the deserializer is a direct delegation (no hand-rolled visitor)
            r = strip_sites(evaluate(df).ret)
            ctx.ob(rule + ".blsserde", "%s/deserialize_%s/direct" % (im, what), r.op == "call" and B.peel(r.a[1][0]).op == "param", "deserialize_%s is exactly a call to the associated type's deserializer" % what, where=where(df))
            # neither side talks to the format itself: a direct Serializer / Deserializer method (serialize_bytes,
            # serialize_tuple, deserialize_seq ...) on one side is a second wire form the other side does not read
            for side, g, tr in (("serialize", sf, "Serializer"), ("deserialize", df, "Deserializer")):
                raw = sorted({t["callee"].get("name") for bb, t in g.calls() if t.get("callee") and t["callee"].get("trait") == tr and t["callee"].get("name") != "is_human_readable"})
                ctx.ob(rule + ".blsserde", "%s/%s_%s/no-raw-format-calls" % (im, side, what), not raw, "%s_%s drives the format only through the associated type's own %s impl (direct %s calls: %s)" % (side, what, "Serialize" if side == "serialize" else "Deserialize", tr, raw), where=where(g))
        else:
            ctx.ob(rule + ".blsserde", "%s/%s" % (im, what), False, "BlsSerde impl has only one of serialize_%s / deserialize_%s" % (what, what))
    ctx.floor(rule + ".blsserde", "BlsSerde method pairs", len(impls), 10)
    # the `serde(with = ..)` modules are pure delegations: whatever they return is the BlsSerde method of the same name
    # applied to the caller's own (de)serializer (a module that reads or rewrites the input itself - trimming, re-encoding,
    # a format branch of its own - is a second wire form that nothing else in the crate writes)
    nmod = 0
    for k, f in sorted(P.fns.items()):
        m = _re.match(r"^(scalar|signature|public_key|public_key_share|secret_key_share)::(serialize|deserialize)$", k)
        if not m:
            continue
        nmod += 1
        what = {"scalar": "scalar", "signature": "signature", "public_key": "public_key", "public_key_share": "public_key_share", "secret_key_share": "scalar_share"}[m.group(1)]
        want = "BlsSerde::%s_%s" % (m.group(2), what)
        r = strip_sites(evaluate(f).ret)
        alts = list(r.a[0]) if r.op == "phi" else [r]
        ok = bool(alts)
        for a in alts:
            last = B.peel(a.a[1][-1]) if a.op == "call" and a.a[1] else None
            ok = ok and a.op == "call" and B.cname(a) == want and last is not None and last.op == "param"
        ctx.ob(rule + ".with-module", k, ok, "%s returns %s(.., <its own %s>) and nothing else: %s" % (k, want, "serializer" if m.group(2) == "serialize" else "deserializer", [show(a, 3) for a in alts][:3]), where=where(f))
    ctx.floor(rule + ".with-module", "serde(with) module functions", nmod, 8)


def _mod(t):
    c = t.get("callee") or {}
    k = c.get("key") or ""
    m = _re.match(r"^(scalar|signature|public_key|public_key_share|secret_key_share)::(serialize|deserialize)$", k)
    if m:
        return m.group(1)
    if c.get("trait") == "BigArray":
        return "fixed_arr"
    return None


SCALAR_HELPERS = ("helpers::scalar_to_be_bytes", "helpers::scalar_to_le_bytes", "helpers::scalar_from_be_bytes", "helpers::scalar_from_le_bytes")


def check_endianness(ctx, P, rule="E9.endian"):
    """Net byte-order of the four scalar helpers relative to the field's little-endian repr: the number of whole-buffer
    `reverse` steps between the parameter and to_repr / from_repr (following delegation between the helpers) is odd for
    the big-endian helpers and even for the little-endian ones."""
    from ..core.sym import inline

    for fk, want_rev in zip(SCALAR_HELPERS, (True, False, True, False)):
        f = ctx.need_fn(rule, fk, P)
        if f is None:
            continue
        ev = evaluate(f)
        ret = strip_sites(inline(P, ev.ret, 2, only=lambda g: g.key in SCALAR_HELPERS and g.key != fk))
        def nrev(t):
            return sum(1 for x in subterms(t) if x.op == "mutcall" and B.cname(x) in ("slice::<impl [T]>::reverse",)) + sum(1 for x in subterms(t) if x.op == "call" and B.cname(x) in ("Iterator::rev",))
        if "to_" in fk:
            src = [x for x in subterms(ret) if x.op == "call" and B.cname(x) == "PrimeField::to_repr"]
            n = nrev(ret)
            ok = len(src) >= 1 and (n % 2 == 1) == want_rev
        else:
            fr = [x for x in subterms(ret) if x.op == "call" and B.cname(x).split("::")[-1] in ("from_repr", "from_repr_vartime", "scalar_from_bytes_wide", "from_bytes_wide")]
            n = -1
            ok = bool(fr)
            for c in fr:
                arg = c.a[1][0]
                n = nrev(arg)
                has_in = any(x.op == "param" and x.a[1] == "input" for x in subterms(arg))
                ok = ok and has_in and (n % 2 == 1) == want_rev
        ctx.ob(rule, fk, ok, "%s %s the field's little-endian repr (whole-buffer reversals on the path: %d)" % (fk, "reverses" if want_rev else "does not reverse", n), where=where(f))


def check_endian_delegation(ctx, P, rule="E9.endian-delegation"):
    """Byte-order agreement along delegation: a function named *_be_bytes / *_le_bytes that hands its work to a crate
    function named for a byte order hands it to the same order - or to the other order with an odd number of
    whole-buffer reversals in between.  (All 20 such edges of the crate agree; a copy-pasted arm calling the other
    order silently re-interprets the scalar.)"""
    import re as _re

    rx = _re.compile(r"(?:^|_)(be|le)_bytes$")
    n = 0
    for f in sorted(P.fns.values(), key=lambda g: g.key):
        base = f
        k = 0
        while base is not None and base.kind == "Closure" and k < 4:
            base = P.fns.get(base.j.get("parent_key"))
            k += 1
        if base is None:
            continue
        m = rx.search(base.name or "")
        if not m:
            continue
        ev = evaluate(f)
        nrev = sum(1 for s in ev.sites.values() if s.callee[0] in ("slice::<impl [T]>::reverse", "Iterator::rev"))
        for bb, t in f.calls():
            c = t.get("callee") or {}
            m2 = rx.search(c.get("name") or "")
            if not m2 or not c.get("local"):
                continue
            n += 1
            same = m.group(1) == m2.group(1)
            ok = (nrev % 2 == 0) if same else (nrev % 2 == 1)
            ctx.ob(rule, "%s->%s#%d" % (base.key, c.get("key") or c.get("path"), sum(1 for o in ctx.obligations if o["key"].startswith("%s%s/%s->%s#" % (ctx.key_prefix, rule, base.key, c.get("key") or c.get("path"))))), ok, "%s (%s-endian) delegates to %s (%s-endian) with %d whole-buffer reversal(s)" % (base.key, m.group(1), c.get("key") or c.get("path"), m2.group(1), nrev), where=where(f, bb))
    ctx.floor(rule, "byte-order delegation edges", n, 12)


def check_layouts(ctx, P, rule="E9.layout"):
    """Field order + codec module per field and variant order vs the pinned wire table."""
    pinned = spec("pinned.json")
    # field -> module from the serde helpers
    for ty, want in pinned["layouts"].items():
        a = P.adts.get(ty)
        if a is None:
            ctx.ob(rule + ".anchor", ty, False, "serialized type `%s` not found" % ty)
            continue
        got = [f["name"] for f in a["variants"][0]["fields"]]
        ctx.ob(rule, ty + "/fields", got == [w[0] for w in want], "field order of %s = %s (pinned %s)" % (ty, got, [w[0] for w in want]))
    for ty, want in pinned["enum_layouts"].items():
        a = P.adts.get(ty)
        if a is None:
            ctx.ob(rule + ".anchor", ty, False, "serialized enum `%s` not found" % ty)
            continue
        got = [[v["name"], [f["name"] for f in v["fields"]]] for v in a["variants"]]
        ctx.ob(rule, ty + "/variants", got == want, "variant order of %s = %s (pinned %s)" % (ty, got, want))
