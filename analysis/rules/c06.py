"""C06 - aggregate verification."""
from ..core.sym import evaluate, strip_sites
from ..core.terms import show, subterms
from ..core import guards as G
from ..core import bytesnf as B
from .common import where, check_arm_purity
from . import constructions as K
from . import guardrules as R
from . import flow as F
from . import spec as SP
from .c02 import check_pipeline

EXPLANATION = (
    "Decides the list-handling clauses on every path: aggregation refuses fewer than two signatures (length guard dominates "
    "every success exit and the index-0 access) and mixed schemes (same_scheme against element 0 dominates every accumulation), "
    "adds every element of sigs[1..] plus sigs[0] exactly once and returns the variant of sigs[0]; verification dispatches on "
    "the aggregate's own variant; the Basic scheme (and only it) inserts every message into a set/map whose 'already present' "
    "outcome controls an Err exit (a `dedup` without sort or a missing mechanism is a violation), while the augmentation and "
    "proof-of-possession methods have no error exit of their own and hand the caller's list to the core unmodified (augmentation: "
    "1:1 map prefixing each entry's own key); in core_aggregate_verify every iteration pushes (hash_to_point(m,dst), pk) or leaves "
    "through Err, no element-dropping adapter occurs anywhere on the list's way to the pairing, and acceptance is only through "
    "the pairing test. Not decided: agreement with a reference CoreAggregateVerify on perturbed lists (numeric)."
)
RULE = "E4 guard dominance; E4 exit census; E7 adapter deny-list; E5 pipeline/construction terms; E2 arm purity; uniqueness-idiom classification"

SET_INSERTS = ("HashMap::<K, V, S, A>::insert", "HashSet::<T, S, A>::insert", "BTreeMap::<K, V, A>::insert", "BTreeSet::<T, A>::insert", "HashMap::<K, V, S>::insert", "HashSet::<T, S>::insert")


def run(ctx):
    P = ctx.P
    fk = "<AggregateSignature<C> as TryFrom<&[Signature<C>]>>::try_from"
    R.check_min_len(ctx, "E4.len", P, fk, "sigs", 2, extra_blocks=lambda fn, ev: [b for b, d in ev.switch.items() if any(s.op == "index" for s in subterms(d))])
    R.check_same_scheme_guard(ctx, "E4.scheme", P, fk, "sigs")
    from . import spec as SP_

    SP_.check_same_scheme_semantics(ctx, "E2.same-scheme", P)
    f = P.fns.get(fk)
    if f is not None:
        accs = F.accumulators(P, f)
        for a_ in accs:
            ctx.ob("E4.accumulate", fk + "/every-element", a_["every"], "every element is added or the function leaves through Err (%s)" % a_["mode"], where=where(a_["fn"], a_["bb"]))
        if not accs:
            ctx.ob("E4.accumulate", fk + "/every-element", False, "no accumulation found", where=where(f))
        cov = [R.covers_all(a_["source"], "sigs") for a_ in accs if a_["source"] is not None]
        ev = evaluate(f)
        adds0 = [s for b_, s in ev.sites.items() if (s.callee[0] == "Add::add" or (s.callee[0] == "AddAssign::add_assign" and b_ not in {a_["bb"] for a_ in accs if a_["fn"] is f})) and len(s.args) == 2 and any((x.op == "index" and B._const_int(x.a[1]) == 0) or (x.op == "cidx" and x.a[1] == 0) for x in subterms(s.args[1]))]
        okc = cov == ["all"] or (cov == ["tail1"] and len(adds0) >= 1)
        ctx.ob("E4.accumulate", fk + "/covers-all", okc, "loop iterates %s and sigs[0] is added %d time(s) on the exits" % (cov, len(adds0)), where=where(f))
        if len(cov) == 1 and cov[0] in ("all", "tail1"):
            nso = F.check_sum_once(ctx, "E4.sum-once", P, f, "sigs", "AggregateSignature", cov[0])
            ctx.floor("E4.sum-once", "schemes whose aggregate is the once-each sum", nso, 3)
        check_arm_purity(ctx, "E2-A", P, [f])
        SP.check_variant_preserved(ctx, "E2.variant", P, f, "AggregateSignature")
        allow_skip = {(fk, "skip"): "skip(1): element 0 is added separately on the exits"} if (cov == ["tail1"] and len(adds0) >= 1) else {}
        allow_skip[(fk, "windows")] = "windows(2): adjacent pairs compared (scheme consistency; validated by E4.scheme)"
        F.check_no_dropping_adapters(ctx, "E7.adapters", P, [fk], allow=allow_skip)
    # verify wrapper
    v = ctx.need_fn("E2-A", "AggregateSignature<C>::verify")
    if v is not None:
        check_arm_purity(ctx, "E2-A", P, [v])
        n = SP.check_trait_by_scheme(ctx, "E2.dispatch", P, v, ("aggregate_verify",))
        ctx.floor("E2.dispatch", "schemes of AggregateSignature::verify reaching their aggregate_verify", n, 3)
        F.check_no_dropping_adapters(ctx, "E7.adapters", P, ["AggregateSignature<C>::verify"])
        ev = evaluate(v)
        for bb, s in sorted(ev.sites.items()):
            c = s.raw.get("callee") or {}
            if c.get("name") == "aggregate_verify":
                it = strip_sites(s.args[0])
                ok = it.op == "call" and B.cname(it) == "Iterator::map" and R.covers_all(it.a[1][0], "data") == "all"
                sig = F.projection_root(strip_sites(s.args[1]))
                ctx.ob("E5.chain", "AggregateSignature<C>::verify->%s" % s.callee[0], ok and sig is not None and sig[0].a[1] == "self", "passes a 1:1 map over the whole `data` list and its own signature: %s" % show(it, 4), where=where(v, bb))
    # scheme methods: (tag, list) routing + exit census
    K.check_core_table(ctx, P, methods=("aggregate_verify",), siblings=False)
    K.check_core_forwarding(ctx, P, rule="E5.forward", methods=("aggregate_verify",))
    for tr, may_fail in (("BlsSignatureMessageAugmentation", False), ("BlsSignaturePop", False)):
        g = ctx.need_fn("E4.exits", "%s::aggregate_verify" % tr)
        if g is None:
            continue
        errs = R.err_blocks(g)
        ins = [s for s in evaluate(g).sites.values() if s.callee[0] in SET_INSERTS or s.callee[0].endswith("::dedup")]
        ctx.ob("E4.exits", "%s::aggregate_verify" % tr, not errs and not ins, "%s accepts repeated messages: its aggregate_verify must have no error exit or uniqueness set of its own (found %d Err exits, %d set operations)" % (tr, len(errs), len(ins)), where=where(g))
        ctx.ob("E4.exits", "%s::aggregate_verify/loops" % tr, not g.cfg.back_edges(), "no list-rewriting loop in %s::aggregate_verify" % tr, where=where(g))
        F.check_no_dropping_adapters(ctx, "E7.adapters", P, ["%s::aggregate_verify" % tr])
    check_basic_uniqueness(ctx, P)
    # core
    fkc = "BlsSignatureCore::core_aggregate_verify"
    F.check_aggregate_key_guard(ctx, "E4.keyvalidate", P)
    c = ctx.need_fn("E4.loop", fkc)
    if c is not None:
        ents = F.entry_builders(P, c)
        for e in ents:
            ctx.ob("E4.loop", fkc + "/every-entry", e["every"], "every list entry yields its own (hash_to_point(msg,dst), pk) pairing input or an error (%s)" % e["mode"], where=where(e["fn"], e["bb"]))
        if not ents:
            ctx.ob("E4.loop", fkc + "/every-entry", False, "no per-entry construction of pairing inputs found", where=where(c))
        F.check_entry_pair_form(ctx, "E5.equation", P, fkc, ents)
        F.check_no_dropping_adapters(ctx, "E7.adapters", P, [fkc])
        ev = evaluate(c)
        srcs = [e["source"] for e in ents if e["source"] is not None]
        ctx.ob("E4.loop", fkc + "/covers-all", [R.covers_all(s, "pks") for s in srcs] == ["all"], "the per-entry construction iterates the caller's iterator itself: %s" % [show(s, 4) for s in srcs], where=where(c))
        for b in R.ok_blocks(c):
            lits = G.path_literals(ev, b, P, checks_only=True)
            pair = [a for a, p in lits if p and a[1] == "is_identity" and a[2].op == "call" and B.cname(a[2]) == "Pairing::pairing"]
            ctx.ob("E4.pairing", fkc + "/ok", len(pair) == 1, "Ok exit dominated by is_identity(pairing(pairs)) == true", where=where(c, b))
        from ..core import poly as PL
        from . import equations as EQ

        cand = F.closing_pair_candidates(P, ev)
        final = [x for x in cand if PL.named(PL.bilinear([tuple(x.a[1])], EQ.std_atom())) == {("G", "sig"): -1}]
        ctx.ob("E5.equation", fkc + "/final", len(final) == 1 and len(cand) == 1, "exactly one closing pair (sig, -G) (pairs mentioning sig: %d, of the form -(sig (x) G): %d)" % (len(cand), len(final)), where=where(c))
    for fk2 in ("<Bls12381G1Impl as Pairing>::pairing", "<Bls12381G2Impl as Pairing>::pairing"):
        check_pipeline(ctx, P, fk2)
    # positive control for the adapter deny-list
    F.check_len_rejections(ctx, "E4.len-range", P, "<AggregateSignature<C> as TryFrom<&[Signature<C>]>>::try_from", "sigs", lambda L: L >= 2, list(range(0, 301)), "number of signatures")
    # "aggregation of fewer than two signatures ... is refused": refused, not aborted on (both profiles)
    from . import aborts as A_

    roots_ = ["<AggregateSignature<C> as TryFrom<&[Signature<C>]>>::try_from", "AggregateSignature<C>::from_signatures", "AggregateSignature<C>::verify"]
    A_.check_aborts(ctx, "E8", P, roots_, scope="C06")
    A_.check_aborts(ctx, "E8", ctx.prog("blst", "nodebug"), roots_, scope="C06", profile="nodebug")
    from .posctl import run_posctl

    run_posctl(ctx, "E7.adapters", "adapters")
    ctx.assume("HashMap/HashSet/BTree* insert reports prior presence correctly (std contract)")


def check_basic_uniqueness(ctx, P):
    fk = "BlsSignatureBasic::aggregate_verify"
    f = ctx.need_fn("E4.unique", fk)
    if f is None:
        return
    ev = evaluate(f)
    cfg = f.cfg
    ins = [(b, s) for b, s in ev.sites.items() if s.callee[0] in SET_INSERTS]
    dd = [(b, s) for b, s in ev.sites.items() if s.callee[0].endswith("::dedup") or s.callee[0].endswith("::dedup_by_key") or s.callee[0].endswith("::dedup_by")]
    sorts = [(b, s) for b, s in ev.sites.items() if "::sort" in s.callee[0]]
    errs = R.err_blocks(f)
    scan_allow = {}
    if ins:
        b, s = ins[0]
        key = strip_sites(s.args[1])
        key_nf = B.nf(ev, s.args[1])
        from_elem = any(x.op == "call" and B.cname(x) == "Iterator::next" for x in subterms(key))
        const_key = not from_elem
        # the insert is executed for every element: it dominates the loop's back edge
        every = any(cfg.dominates(b, src) for src, h in cfg.back_edges())
        # its outcome controls an Err exit
        controls = False
        for e in errs:
            for atom, pol in G.path_literals(ev, e, P, checks_only=True):
                if any(x.op == "call" and B.cname(x) in SET_INSERTS for x in subterms(atom[2])):
                    controls = True
        if not controls:
            # look-up first, insert afterwards: `if let Some(old) = seen.get(&m) { return Err(..) } seen.insert(m, i);` -
            # a look-up of the same key in the same map dominates the insert and its "present" outcome leaves through Err
            recv = lambda t: B.show_nf(B.nf(ev, t)) if False else show(strip_sites(B.peel(t)), 6)
            for lb, ls in sorted(ev.sites.items()):
                nm = ls.callee[0]
                if nm.split("::")[-1] not in ("get", "contains_key", "contains", "get_key_value") or nm.split("::")[0].split("<")[0] not in ("HashMap", "HashSet", "BTreeMap", "BTreeSet") or len(ls.args) != 2:
                    continue
                if not cfg.dominates(lb, b) or B.show_nf(B.nf(ev, ls.args[1])) != B.show_nf(key_nf):
                    continue
                same_map = strip_sites(B.peel(ls.args[0])) == strip_sites(B.peel(s.args[0])) or recv(ls.args[0]) == recv(s.args[0])
                if not same_map:
                    continue
                lv = strip_sites(ls.value)
                for e in errs:
                    for atom, pol in G.path_literals(ev, e, P, checks_only=True):
                        if not (len(atom) > 2 and hasattr(atom[2], "op") and any(x == lv for x in subterms(strip_sites(atom[2])))):
                            continue
                        present = (atom[1] == "term" and pol) or (atom[1] == "switch" and ((atom[3] == 1 and pol) or (atom[3] == 0 and not pol))) or (atom[1] == "switch_not" and pol and tuple(atom[3]) == (0,)) or (atom[1] == "is_some" and pol)
                        if present:
                            controls = True
        srcs = [R.covers_all(sr, "pks") for _, sr in R.loop_sources(f)]
        ctx.ob("E4.unique", fk + "/insert", from_elem and every and controls and srcs == ["all"], "uniqueness by %s: key from the entry=%s, executed every iteration=%s, outcome controls an Err exit=%s, loop covers %s; key = %s" % (s.callee[0], from_elem, every, controls, srcs, B.show_nf(key_nf)), where=where(f, b), sample={"key": B.show_nf(key_nf)})
        # the key is the message alone (not the public key, not the index)
        msg_only = _key_is_message(key_nf)
        ctx.ob("E4.unique", fk + "/key", msg_only, "set key is exactly the entry's message bytes: %s" % B.show_nf(key_nf), where=where(f, b), weak=not msg_only and B.is_strong(key_nf) is False)
    elif any(s.callee[0].endswith("::entry") and s.callee[0].split("::")[0] in ("HashMap", "BTreeMap") for _, s in ev.sites.items()):
        # Entry API: match map.entry(key) { Occupied(_) => return Err(..), Vacant(v) => { v.insert(..); } }
        b, s = next((b, s) for b, s in sorted(ev.sites.items()) if s.callee[0].endswith("::entry") and s.callee[0].split("::")[0] in ("HashMap", "BTreeMap"))
        key = strip_sites(s.args[1])
        key_nf = B.nf(ev, s.args[1])
        from_elem = any(x.op == "call" and B.cname(x) == "Iterator::next" for x in subterms(key))
        every = any(cfg.dominates(b, src) for src, h in cfg.back_edges())
        def entry_switch(blk):
            return {(a[2], a[3]) for a, pol in G.path_literals(ev, blk, P) if pol and a[1] == "switch" and any(x.op == "call" and B.cname(x) == s.callee[0] for x in subterms(a[2]))}
        vac = [vb for vb, vs in sorted(ev.sites.items()) if vs.callee[0].startswith("VacantEntry") and vs.callee[0].endswith("::insert") and any(x.op == "call" and B.cname(x) == s.callee[0] for x in subterms(strip_sites(vs.args[0])))]
        recorded = bool(vac) and all(any(cfg.dominates(vb, src) for vb in vac) for src, h in cfg.back_edges() if cfg.dominates(b, src))
        vsw = set().union(*[entry_switch(vb) for vb in vac]) if vac else set()
        controls = any(esw and not (esw & vsw) for esw in (entry_switch(e) for e in errs))
        srcs = [R.covers_all(sr, "pks") for _, sr in R.loop_sources(f)]
        ctx.ob("E4.unique", fk + "/insert", from_elem and every and recorded and controls and srcs == ["all"], "uniqueness by the map Entry API: key from the entry=%s, looked up every iteration=%s, vacant slot filled before the next iteration=%s, the other (occupied) arm leaves through Err=%s, loop covers %s; key = %s" % (from_elem, every, recorded, controls, srcs, B.show_nf(key_nf)), where=where(f, b), sample={"key": B.show_nf(key_nf)})
        msg_only = _key_is_message(key_nf)
        ctx.ob("E4.unique", fk + "/key", msg_only, "map key is exactly the entry's message bytes: %s" % B.show_nf(key_nf), where=where(f, b), weak=not msg_only and B.is_strong(key_nf) is False)
    elif dd:
        b, s = dd[0]
        sorted_first = any(cfg.dominates(sb, b) for sb, _ in sorts)
        ctx.ob("E4.unique", fk + "/dedup", sorted_first and bool(errs), "uniqueness by dedup: %s" % ("preceded by a sort" if sorted_first else "`dedup` only removes ADJACENT duplicates and the list is not sorted first"), where=where(f, b))
    elif _pipeline_uniqueness(ctx, P, f, ev, fk):
        pass
    elif _scan_uniqueness(ctx, P, f, ev, fk, errs, scan_allow):
        pass
    else:
        ctx.ob("E4.unique.anchor", fk, False, "no message-uniqueness mechanism (set/map insert, sort+dedup, or an equality scan over the accepted entries) found in the Basic aggregate_verify (missing anchor)", where=where(f))
    F.check_no_dropping_adapters(ctx, "E7.adapters", P, [fk], allow=scan_allow)



def _scan_uniqueness(ctx, P, f, ev, fk, errs, allow):
    """Uniqueness by comparing each new message with the ones already accepted: inside the loop over the entries a search
    (`position` / `any` / `find` / `contains`) runs over the very vector that every accepted entry is pushed to, its closure
    tests equality between the stored message and the current one, a hit leaves through Err, and every other way round the
    loop pushes the current entry."""
    cfg = f.cfg
    for b, s in sorted(ev.sites.items()):
        nm = s.callee[0]
        if nm not in ("Iterator::position", "Iterator::any", "Iterator::find", "slice::<impl [T]>::contains") or len(s.args) != 2:
            continue
        src = B.peel(s.args[0])
        k = 0
        while src.op == "call" and len(src.a[1]) >= 1 and B.cname(src) in ("slice::<impl [T]>::iter", "IntoIterator::into_iter", "Vec::<T, A>::as_slice", "Deref::deref", "AsRef::as_ref", "Iterator::enumerate") and k < 6:
            src = B.peel(src.a[1][0])
            k += 1
        if src.op != "loop":
            continue
        hdr, loc = src.a[0], src.a[1]
        body = set()
        latches = [sb for sb, h in cfg.back_edges() if h == hdr]
        for sb in latches:
            body |= set(cfg.natural_loop(sb, hdr))
        if b not in body:
            continue
        pushes = [pb for pb in sorted(body) if pb in ev.sites and ev.sites[pb].callee[0] == "Vec::<T, A>::push" and any(x.op == "loop" and x.a[0] == hdr and x.a[1] == loc for x in subterms(ev.sites[pb].args[0]))]
        # the search compares the stored message with the current one
        cmp_ok = nm.endswith("contains")
        key_term = s.args[1] if cmp_ok else None
        if not cmp_ok:
            body_t = G.apply_closure(P, s.args[1], [])
            fm = G.formula(body_t, P) if body_t is not None else None
            if fm is not None and fm[0] == "atom" and fm[1] == "eq":
                sides = [fm[2], fm[3]]
                elem = [x for x in sides if any(y.op == "param" and y.a[0] >= 2 for y in subterms(x))]
                cur = [x for x in sides if not any(y.op == "param" and y.a[0] >= 2 for y in subterms(x))]
                if len(elem) == 1 and len(cur) == 1:
                    cmp_ok = True
                    key_term = cur[0]
        if not cmp_ok or not pushes:
            continue
        every = all(any(cfg.dominates(pb, sb) for pb in pushes) for sb in latches)
        sv = strip_sites(s.value)
        controls = any(any((x is sv or x == sv) for x in subterms(strip_sites(atom[2]))) for e in errs for atom, pol in G.path_literals(ev, e, P, checks_only=True) if atom[0] == "atom" and len(atom) > 2 and hasattr(atom[2], "op"))
        srcs = [R.covers_all(sr, "pks") for _, sr in R.loop_sources(f)]
        key_nf = B.nf(ev, key_term) if key_term is not None else []
        from_elem = key_term is not None and any(x.op == "call" and B.cname(x) == "Iterator::next" for x in subterms(strip_sites(key_term))) or (key_term is not None and any(x.op == "field" and x.a[0].op == "downcast" for x in subterms(strip_sites(key_term))))
        ctx.ob("E4.unique", fk + "/insert", bool(from_elem) and every and controls and srcs == ["all"], "uniqueness by scanning the accepted entries with %s: current message from the entry=%s, every accepted entry is pushed to the scanned vector=%s, a hit leaves through Err=%s, loop covers %s; compared value = %s" % (nm, bool(from_elem), every, controls, srcs, B.show_nf(key_nf)), where=where(f, b), sample={"key": B.show_nf(key_nf)})
        msg_only = _key_is_message(key_nf)
        ctx.ob("E4.unique", fk + "/key", msg_only, "the value compared is exactly the entry's message bytes: %s" % B.show_nf(key_nf), where=where(f, b), weak=not msg_only and B.is_strong(key_nf) is False)
        allow[(fk, nm.split("::")[-1])] = "the search over the accepted entries is the uniqueness mechanism (validated by E4.unique)"
        return True
    return False


_BYTES_IDENTITY = ("slice::<impl [T]>::to_vec", "ToOwned::to_owned", "Clone::clone", "AsRef::as_ref", "Deref::deref", "Borrow::borrow", "Into::into", "From::from", "Vec::<T, A>::as_slice", "Cow::<'_, B>::into_owned", "Box::<T>::from", "Iterator::collect", "slice::<impl [T]>::iter", "Iterator::copied", "Iterator::cloned", "IntoIterator::into_iter", "Vec::<T>::from_iter", "FromIterator::from_iter", "slice::<impl [T]>::into_vec")
_INJECTIVE = ("hex::encode", "encode", "Digest::digest", "digest")


def _key_is_message(key_nf):
    """The uniqueness key denotes the message's bytes themselves (copied, borrowed, collected), or an injective /
    collision-resistant image of them (hex, a digest) - not a lossy function of them (`from_utf8_lossy`, a prefix,
    a length, a checksum), which would call two different messages equal."""
    if not (len(key_nf) == 1 and key_nf[0][0] == "v"):
        return False
    t = B.peel(key_nf[0][1])
    for _ in range(12):
        if t.op == "call" and len(t.a[1]) >= 1 and (B.cname(t) in _BYTES_IDENTITY or B.cname(t).split("::")[-1] in _INJECTIVE):
            t = B.peel(t.a[1][0])
            continue
        break
    while t.op in ("field", "downcast", "ref", "deref"):
        t = t.a[0]
    return t.op == "param" or (t.op == "call" and B.cname(t) == "Iterator::next") or t.op == "loop"


def _pipeline_uniqueness(ctx, P, f, ev, fk):
    """The insert lives in the closure of an iterator pipeline: `pks.enumerate().map(|(i, (pk, m))| match seen.insert(m, i)
    { Some(_) => Err(..), None => Ok(..) }).collect::<Result<_, _>>()?` (or try_for_each / try_fold).  Same obligations as
    for the loop: key from the element and the message alone, insert on every way through the closure, a hit leaves the
    closure through Err, the pipeline runs over the whole list and its Err is propagated."""
    for b, s in sorted(ev.sites.items()):
        if s.callee[0] not in ("Iterator::map", "Iterator::try_for_each", "Iterator::try_fold", "Iterator::for_each"):
            continue
        clo = B.peel(s.args[-1])
        if not (clo.op == "agg" and clo.a[0][0] == "closure"):
            continue
        g = P.fns.get(clo.a[0][1])
        if g is None:
            continue
        gev = evaluate(g)
        ins = [(gb, gs) for gb, gs in sorted(gev.sites.items()) if gs.callee[0] in SET_INSERTS]
        if not ins:
            continue
        gb, gs = ins[0]
        key = strip_sites(gs.args[1])
        key_nf = B.nf(gev, gs.args[1])
        from_elem = any(x.op == "param" and x.a[0] >= 2 for x in subterms(key))
        every = bool(gev.ret_at) and all(g.cfg.dominates(gb, rb) for rb in gev.ret_at)
        controls = False
        for e in R.err_blocks(g):
            for atom, pol in G.path_literals(gev, e, P, checks_only=True):
                if any(isinstance(x, type(key)) and any(y.op == "call" and B.cname(y) in SET_INSERTS for y in subterms(x)) for x in atom[2:3]):
                    controls = True
        src = R.covers_all(strip_sites(s.args[0]), "pks")
        # the pipeline's verdict is propagated: its value (or a collect of it) is what a `?` of f branches on
        sv = strip_sites(s.value)
        propagated = s.callee[0] != "Iterator::map" or any(d is not None and strip_sites(d).op == "discr" and any(x == sv for x in subterms(strip_sites(d))) and any(x.op == "call" and B.cname(x) == "Iterator::collect" and str(x.a[0][1][-1] if x.a[0][1] else "").startswith("Result<") for x in subterms(strip_sites(d))) for d in ev.switch.values())
        if s.callee[0] != "Iterator::map":
            propagated = any(d is not None and any(x == sv for x in subterms(strip_sites(d))) for d in ev.switch.values())
        ctx.ob("E4.unique", fk + "/insert", from_elem and every and controls and src == "all" and propagated, "uniqueness by %s inside the closure of %s: key from the entry=%s, on every way through the closure=%s, a hit leaves through Err=%s, pipeline covers %s, its Err is propagated=%s; key = %s" % (gs.callee[0], s.callee[0], from_elem, every, controls, src, propagated, B.show_nf(key_nf)), where=where(g, gb), sample={"key": B.show_nf(key_nf)})
        msg_only = _key_is_message(key_nf)
        ctx.ob("E4.unique", fk + "/key", msg_only, "set key is exactly the entry's message bytes: %s" % B.show_nf(key_nf), where=where(g, gb), weak=not msg_only and B.is_strong(key_nf) is False)
        return True
    return False
