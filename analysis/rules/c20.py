"""C20 - every randomized operation draws fresh randomness."""
from ..core.sym import evaluate, strip_sites, inline
from ..core.terms import show, subterms, T
from ..core import bytesnf as B
from .common import where, call_sites
from . import posctl as PC
from . import constructions as K

EXPLANATION = (
    "Decides where ephemeral values come from: (1) RNG constructor census - the crate contains exactly one generator constructor, "
    "ChaCha20Rng::from_entropy() inside get_crypto_rng, which returns it directly; no from_seed / seed_from_u64 / from_rng / "
    "thread_rng / StepRng call, no `static` or thread_local item and no OnceLock/lazy cell anywhere (so no generator, seed or "
    "scalar can persist between calls) - each zero-count rule has a positive control; (2) origin analysis at every randomized "
    "entry point of the property's list: the ephemeral value (signcryption r, time-lock alpha, commitment secret x, ElGamal blinder "
    "and proof nonce, key, challenge, sharing polynomial) is a term that contains a draw (Rng::gen / Field::random / split_secret) "
    "from a generator that is either the result of a get_crypto_rng() call made in that very invocation or the caller's rng "
    "parameter, has no alternative without such a draw, and is the value the outputs are computed from (U = G*r, u = H*x, c1 = G*b "
    "...); two ephemeral values of one call (ElGamal blinder and nonce) are distinct draws. Not decided: quality/freshness of the OS "
    "entropy source across processes."
)
RULE = "E7 constructor / statics census with positive controls; E6 origin analysis on value-numbered terms"


_HASH_INPUT = ("HashToScalar::hash_to_scalar", "HashToPoint::hash_to_point", "Digest::digest")


def live_subterms(t):
    """Sub-terms that can still influence the value: the input of a hash call is reduced to the atoms of its byte
    normal form, so a buffer region that was written and then overwritten (or never read) does not count."""
    seen = set()
    out = []
    st = [t]
    while st:
        x = st.pop()
        if not isinstance(x, T) or x in seen:
            continue
        seen.add(x)
        out.append(x)
        if x.op == "call" and B.cname(x) in _HASH_INPUT and x.a[1]:
            segs = B.nf(None, x.a[1][0])
            if B.is_strong(segs):
                st.extend(B.seg_atoms(segs))
                st.extend(x.a[1][1:])
                continue
        for k in x.kids() if hasattr(x, "kids") else ():
            st.append(k)
    return out


def draws(t):
    """Draw sub-terms: (kind, generator term)"""
    out = []
    for s in live_subterms(t):
        if s.op == "call":
            n = B.cname(s)
            if n == "Rng::gen" and s.a[1]:
                out.append(("gen", s, B.peel(s.a[1][0])))
            elif n == "Field::random" and s.a[1]:
                out.append(("random", s, B.peel(s.a[1][0])))
            elif n == "vsss_rs::split_secret" and len(s.a[1]) == 4:
                out.append(("split", s, B.peel(s.a[1][3])))
            elif n in ("RngCore::fill_bytes", "RngCore::try_fill_bytes", "RngCore::next_u64", "RngCore::next_u32") and s.a[1]:
                out.append(("fill", s, B.peel(s.a[1][0])))
        if s.op == "mutcall" and B.cname(s) in ("RngCore::fill_bytes", "RngCore::try_fill_bytes", "Rng::fill", "Rng::try_fill"):
            out.append(("fill", s, B.peel(s.a[2][0])))
    return out


_PROG = {}


def expand_closures(P, t, depth=3):
    """Option::unwrap_or_else(opt, closure) -> phi(opt-payload, closure body with captures substituted)."""
    from ..core.terms import subst, mk_phi, mk_ref

    if depth <= 0 or not isinstance(t, T):
        return t
    memo = {}

    def rec(x):
        if not isinstance(x, T):
            return tuple(rec(y) for y in x) if isinstance(x, tuple) else x
        if x in memo:
            return memo[x]
        a = tuple(rec(y) for y in x.a)
        r = T(x.op, *a)
        if r.op == "call" and B.cname(r) in ("Option::<T>::unwrap_or_else", "Option::<T>::map_or_else") and len(r.a[1]) == 2:
            opt, clo = r.a[1]
            c = B.peel(clo)
            if c.op == "agg" and c.a[0][0] == "closure":
                g = P.fns.get(c.a[0][1])
                if g is not None:
                    gev = evaluate(g)
                    env = mk_ref(c) if g.locals[1]["ty"].startswith("&") else c
                    body = subst(gev.ret, {T("param", 1, gev.pname(1)): env})
                    body = expand_closures(P, body, depth - 1)
                    r = mk_phi([T("some-of", opt), body])
        memo[x] = r
        return r

    return rec(t)


def gen_ok(g):
    """Generator is a fresh get_crypto_rng() result of this invocation, or the caller's parameter."""
    while g.op in ("ref", "deref"):
        g = g.a[0]
    if g.op == "call" and B.cname(g) == "helpers::get_crypto_rng":
        return "fresh"
    if g.op == "mutcall":
        # a generator that has already been drawn from in this invocation (state advanced)
        inner = g.a[2][g.a[1]]
        return gen_ok(inner)
    if g.op == "param":
        return "param"
    if g.op == "loop":
        return gen_ok(g.a[2])
    return None


def _resolve_selects(v, depth=0):
    """`conditional_select(a, b, choice)` is a when choice = 0 and b when choice = 1.  When the choice is a zero / identity
    test of a drawn value it is 0 except with negligible probability, so the value IS a (which then has to carry the draw);
    otherwise both alternatives count."""
    from ..core.terms import mk_phi

    if depth > 4:
        return v
    x = B.peel(v)
    if x.op == "phi":
        return mk_phi([_resolve_selects(y, depth + 1) for y in x.a[0]])
    if x.op == "call" and B.cname(x) in ("ConditionallySelectable::conditional_select",) and len(x.a[1]) == 3:
        a, b, c = x.a[1]
        cc = B.peel(c)
        negl = cc.op == "call" and B.cname(cc) in ("Field::is_zero", "Group::is_identity") and bool(draws(cc))
        if negl:
            return _resolve_selects(a, depth + 1)
        return mk_phi([_resolve_selects(a, depth + 1), _resolve_selects(b, depth + 1)])
    return v


def check_origin(ctx, P, fk, what, value_of, need="fresh-or-param", inline_depth=3):
    f = ctx.need_fn("E6.origin", fk, P)
    if f is None:
        return None
    ev = evaluate(f)
    v = value_of(ev)
    if v is None:
        ctx.ob("E6.origin.anchor", _PFX + "%s/%s" % (fk, what), False, "ephemeral value `%s` not found in `%s`" % (what, fk), where=where(f))
        return None
    v = inline(P, v, inline_depth, only=lambda g: g.key not in ("helpers::get_crypto_rng",) and not g.key.endswith("hash_to_scalar"))
    v = expand_closures(P, v)
    v = _resolve_selects(v)
    alts = list(v.a[0]) if v.op == "phi" else [v]
    ok = True
    detail = []
    for a in alts:
        if a.op == "some-of":
            src = B.peel(a.a[0])
            if src.op == "param":
                detail.append("caller-supplied `%s`" % src.a[1])
                continue
        pa = B.peel(strip_sites(a))
        if pa.op == "field" and pa.a[1] == "0" and pa.a[0].op == "downcast" and pa.a[0].a[1] == "Some" and B.peel(pa.a[0].a[0]).op == "param":
            # the Some arm of `match blinder { Some(k) => k, None => <draw> }`
            detail.append("caller-supplied `%s`" % B.peel(pa.a[0].a[0]).a[1])
            continue
        ds = draws(a)
        good = [d for d in ds if gen_ok(d[2])]
        if not good:
            # retry loops: loop(init) where init has the draw
            ok = False
            detail.append("no draw in %s" % show(strip_sites(a), 4))
        else:
            kinds = sorted({gen_ok(d[2]) for d in good})
            detail.append("%s from %s generator" % ("/".join(sorted({d[0] for d in good})), "+".join(kinds)))
            if need == "fresh" and "fresh" not in kinds:
                ok = False
            # entropy of the draw: a `gen` must produce at least 32 random bytes (a single byte repeated is 8 bits)
            import re as _re

            for d in good:
                if d[0] == "gen":
                    ty = (d[1].a[0][1] or ("", ""))[-1] if d[1].a[0][1] else ""
                    m_ = _re.match(r"^\[u8; (\d+)\]$", str(ty))
                    if not (m_ and int(m_.group(1)) >= 32):
                        ok = False
                        detail.append("draw of type `%s` carries fewer than 32 random bytes" % ty)
                if d[0] == "fill":
                    n_ = _fill_len(d[1])
                    if n_ is None or n_ < 32:
                        ok = False
                        detail.append("the buffer the generator fills is %s - fewer than 32 random bytes are guaranteed" % ("%d byte(s) long" % n_ if n_ is not None else "of a length that is not a compile-time constant (it depends on run-time or per-group sizes)"))
    ctx.ob("E6.origin", _PFX + "%s/%s" % (fk, what), ok, "ephemeral `%s`: %s" % (what, "; ".join(detail)), where=where(f), sample={"fn": fk, "value": show(strip_sites(v), 6)[:300]})
    return v


def _fill_len(s):
    """Number of bytes a `fill_bytes` / `try_fill_bytes` / `fill` draw writes, when it is a constant; next_u64 / next_u32: 8 / 4."""
    n = B.cname(s)
    if n.endswith("next_u64"):
        return 8
    if n.endswith("next_u32"):
        return 4
    args = s.a[2] if s.op == "mutcall" else s.a[1]
    if len(args) < 2:
        return None
    d = args[1]
    sf = B.slice_form(d)
    try:
        if sf is not None:
            base, st, en = sf
            l = B._lin(("sub", en, st))
        else:
            l = B._lin(B.int_form(T("len", B.peel(d))))
    except Exception:
        return None
    if l is None:
        return None
    c, terms = l
    if any(v for v in terms.values()):
        return None
    return c


def check_fallible_draws(ctx, P, rule="E6.fallible-draw"):
    """A fallible draw (`try_fill_bytes`, `try_fill`) reports failure through its Result: the buffer is only used as
    random bytes where the Ok edge was taken - the Result is propagated with `?`, unwrapped, or switched on.  A Result that
    is dropped or defaulted (`.ok()`, `.unwrap_or_default()`, `let _ =`) leaves a possibly unfilled buffer in use."""
    n = 0
    for f in P.fns.values():
        if f.from_expansion:
            continue
        if not any((t.get("callee") or {}).get("name") in ("try_fill_bytes", "try_fill") for _, t in f.calls()):
            continue
        ev = evaluate(f)
        for bb, s_ in sorted(ev.sites.items()):
            if s_.callee[0] not in ("RngCore::try_fill_bytes", "Rng::try_fill"):
                continue
            n += 1
            v = s_.value
            checked = False
            for b2, d in ev.switch.items():
                if d is not None and any(x is v or x == v for x in subterms(d)):
                    checked = True
            for b2, s2 in ev.sites.items():
                if b2 != bb and s2.callee[0] in ("Try::branch", "Result::<T, E>::unwrap", "Result::<T, E>::expect") and s2.args and any(x is v or x == v for x in subterms(s2.args[0])):
                    checked = True
            ctx.ob(rule, "%s@bb%d" % (f.key, bb), checked, "the Result of %s is propagated (`?`), unwrapped or branched on before the buffer is used" % s_.callee[0], where=where(f, bb))
    ctx.ob(rule, "census", True, "%d fallible draw(s) in the crate inspected" % n)


def run(ctx):
    P = ctx.P
    check_fallible_draws(ctx, P)
    # 1. constructor census
    cons = PC.rng_constructors(P)
    ent = [c for c in cons if c[3] == "from_entropy"]
    # (a caller into which `get_crypto_rng` was spliced - a call edge the pinned tree does not have - shows the very same
    # constructor call: it is get_crypto_rng's, not a second one)
    ent = [c for c in ent if c[0].key == "helpers::get_crypto_rng" or "helpers::get_crypto_rng" not in (c[0].j.get("inlined") or [])]
    seeded = [c for c in cons if c[3] != "from_entropy"]
    ctx.ob("E7.rng", "from_entropy", len(ent) == 1 and ent[0][0].key == "helpers::get_crypto_rng", "entropy-seeded constructor call sites: %s" % [(c[0].key, c[2]) for c in ent], where=where(ent[0][0], ent[0][1]) if ent else None)
    ctx.ob("E7.rng", "seeded-constructors", not seeded, "seeded / cached / thread-local generator constructors: %s" % [(c[0].key, c[2]) for c in seeded], where=where(seeded[0][0], seeded[0][1]) if seeded else None)
    PC.run_posctl(ctx, "E7.rng", "rng")
    g = ctx.need_fn("E7.rng", "helpers::get_crypto_rng")
    if g is not None:
        ev = evaluate(g)
        r = strip_sites(ev.ret)
        ok = r.op == "call" and B.cname(r) == "SeedableRng::from_entropy" and len(ev.sites) == 1 and not g.cfg.back_edges()
        ctx.ob("E7.rng", "get_crypto_rng", ok, "get_crypto_rng returns ChaCha20Rng::from_entropy() directly (no state, no branch): %s" % show(r, 3), where=where(g))
        gty = [s.callee[1] for s in ev.sites.values()]
        ctx.ob("E7.rng", "get_crypto_rng/type", bool(gty) and gty[0][:1] == ("ChaCha20Rng",), "generator type: %s" % str(gty[0] if gty else None), where=where(g))
    # statics / thread locals / once cells
    # state that survives a call: thread-locals, `static mut`, and statics with interior mutability.  An immutable
    # `Freeze` static is a constant table and cannot carry a generator or a counter.
    stat = [s for s in P.statics if s.get("thread_local") or s.get("mutable") or not s.get("freeze", False)]
    ctx.ob("E7.statics", "statics", not stat, "thread_local / mutable / interior-mutable static items in the crate: %s (%d static item(s) in total)" % ([s["path"] for s in stat][:5], len(P.statics)))
    PC.run_posctl(ctx, "E7.statics", "statics")
    cells = call_sites(P, lambda c, t: any(x in c["path"] for x in ("OnceLock", "OnceCell", "LazyLock", "LazyCell", "lazy_static", "thread::local", "LocalKey", "AtomicU", "AtomicI", "Mutex", "RwLock")))
    ctx.ob("E7.statics", "cells", not cells, "once-cells / thread-local keys / atomics / locks used: %s" % [(f.key, t["callee"]["path"]) for f, bb, t in cells][:4], where=where(cells[0][0], cells[0][1]) if cells else None)
    calls = call_sites(P, lambda c, t: c.get("key") == "helpers::get_crypto_rng")
    ctx.floor("E7.rng", "get_crypto_rng call sites (detector is live; every ephemeral value is traced to one below)", len(calls), 5)
    # 2. origin analysis - in both profiles: a draw that lives inside `debug_assert!` does not exist in a release build
    _origins(ctx, P)
    global _PFX
    _PFX = "nodebug|"
    try:
        _origins(ctx, ctx.prog("blst", "nodebug"))
    finally:
        _PFX = ""
    ctx.assume("ChaCha20Rng::from_entropy obtains 32 fresh bytes from the OS entropy source on every call (rand_core/getrandom contract); entropy quality across processes is an environment assumption")


_PFX = ""


def _origins(ctx, P):
    def ret_comp(i):
        def f(ev):
            r = ev.ret
            for t in subterms(r):
                if t.op == "agg" and t.a[0][0] == "tuple" and len(t.a[1]) > i:
                    return t.a[1][i]
            return None
        return f

    def site_arg(callee, i):
        def f(ev):
            for s in ev.sites.values():
                if s.callee[0] == callee and len(s.args) > i:
                    return s.args[i]
            return None
        return f

    # signcryption: r = scalar in U = G*r
    def scalar_of_mul_generator(ev):
        for t in subterms(ev.ret):
            if t.op == "call" and B.cname(t) == "Mul::mul" and B.peel(t.a[1][0]).op == "call" and B.cname(B.peel(t.a[1][0])) == "Group::generator":
                return t.a[1][1]
        return None

    check_origin(ctx, P, "BlsSignCrypt::seal", "r (U = G*r)", scalar_of_mul_generator, need="fresh")
    # time-lock: alpha feeds V and W; r = H(alpha ‖ H(M))
    def alpha(ev):
        for s in ev.sites.values():
            if s.callee[0] == "BlsTimeCrypt::compute_w":
                return s.args[0]
        return None
    check_origin(ctx, P, "BlsTimeCrypt::seal", "alpha (masks W)", alpha, need="fresh")
    check_origin(ctx, P, "BlsTimeCrypt::seal", "r (U = G*r)", lambda ev: next((t.a[1][1] for b in ev.ret_at for t in subterms(ev.ret_at[b]) if t.op == "call" and B.cname(t) == "Mul::mul" and B.peel(t.a[1][0]).op == "call" and B.cname(B.peel(t.a[1][0])) == "Group::generator"), None), need="fresh")
    # proofs of knowledge: x
    check_origin(ctx, P, "BlsSignatureProof::generate_commitment", "x (u = H(m)*x)", lambda ev: next((t.a[1][1] for t in subterms(ev.ret) if t.op == "call" and B.cname(t) == "Mul::mul" and any(x.op == "call" and B.cname(x) == "HashToPoint::hash_to_point" for x in subterms(t.a[1][0]))), None), need="fresh")
    check_origin(ctx, P, "BlsSignatureProof::generate_timestamp_proof", "x (u = H(m)*x)", lambda ev: next((t.a[1][1] for t in subterms(ev.ret) if t.op == "call" and B.cname(t) == "Mul::mul" and any(x.op == "call" and B.cname(x) == "HashToPoint::hash_to_point" for x in subterms(t.a[1][0]))), None), need="fresh")
    # ElGamal
    def blinder(ev):
        # seal_scalar may build the pair itself or hand (pk, H*m, blinder, rng) to seal_point: look through that one sibling
        rets = [ev.ret_at[b] for b in ev.ret_at]
        rets += [inline(P, r, 1, only=lambda g: g.key in ("BlsElGamal::seal_point", "BlsElGamal::seal_scalar") and g is not ev.fn) for r in list(rets)]
        for r in rets:
            for t in subterms(r):
                if t.op == "call" and B.cname(t) == "Mul::mul" and B.peel(t.a[1][0]).op == "call" and B.cname(B.peel(t.a[1][0])) == "Group::generator":
                    return t.a[1][1]
        return None
    for fk in ("BlsElGamal::seal_scalar", "BlsElGamal::seal_point"):
        v = check_origin(ctx, P, fk, "blinder (c1 = G*b)", blinder)
    f = ctx.need_fn("E6.origin", "BlsElGamal::seal_scalar_with_proof", P)
    if f is not None:
        ev = evaluate(f)
        ss = [s for _, s in sorted(ev.sites.items()) if s.callee[0] == "BlsElGamal::seal_scalar"]
        ok = len(ss) == 2
        if ok:
            b1 = expand_closures(P, ss[0].args[3])
            b2 = expand_closures(P, ss[1].args[3])
            d1, d2 = draws(b1), draws(b2)
            ok = bool(d1) and bool(d2) and all(gen_ok(d[2]) for d in d1 + d2)
            s1 = {d[1] for d in d1}
            s2 = {d[1] for d in d2}
            distinct = not (s1 & s2)
            # raw (site-carrying) terms must differ: two separate Field::random calls
            ctx.ob("E6.origin", _PFX + f.key + "/b-and-r", ok and distinct, "blinder b and proof nonce r are two separate draws from the caller's generator: b=%s r=%s" % (show(b1, 4), show(b2, 4)), where=where(f))
            # message of the second ciphertext is b (proof binds the blinder), nonce is not reused as message
        else:
            ctx.ob("E6.origin.anchor", _PFX + f.key, False, "expected two seal_scalar calls in seal_scalar_with_proof, found %d" % len(ss), where=where(f))
    # wrappers hand a fresh generator
    for fk, callee, idx in (("PublicKey<C>::encrypt_key_el_gamal", "BlsElGamal::seal_scalar", 4), ("PublicKey<C>::encrypt_key_el_gamal_with_proof", "BlsElGamal::seal_scalar_with_proof", 4), ("SecretKey<C>::new", "SecretKey<C>::random", 0), ("SecretKey<C>::split", "SecretKey<C>::split_with_rng", 3), ("ProofCommitmentChallenge<C>::new", "ProofCommitmentChallenge<C>::random", 0), ("BlsSignature<T>::new_secret_key", "SecretKey<C>::random", 0)):
        f = ctx.need_fn("E6.origin", fk, P)
        if f is None:
            continue
        ev = evaluate(f)
        ss = [s for s in ev.sites.values() if s.callee[0] == callee]
        if not ss:
            # the wrapper draws by itself instead of delegating: what it returns must come from a fresh draw
            check_origin(ctx, P, fk, "returned value (drawn in place)", lambda ev_: ev_.ret, need="fresh")
            continue
        ok = bool(ss) and len(ss[0].args) > idx and gen_ok(B.peel(ss[0].args[idx])) == "fresh"
        ctx.ob("E6.origin", _PFX + fk, ok, "%s receives a generator created by get_crypto_rng() in this very call" % callee, where=where(f))
        blanks = [s for s in ev.sites.values() if s.callee[0] == "helpers::get_crypto_rng"]
        ctx.ob("E6.origin", _PFX + fk + "/per-call", len(blanks) == 1, "one get_crypto_rng() call per invocation (found %d)" % len(blanks), where=where(f))
    f = ctx.need_fn("E6.origin", "SecretKey<C>::split_with_rng", P)
    if f is not None:
        check_origin(ctx, P, "SecretKey<C>::split_with_rng", "sharing polynomial", lambda ev: next((s.value for s in ev.sites.values() if s.callee[0] == "vsss_rs::split_secret"), None))
