"""C01 - every honestly produced signature verifies."""
from ..core.sym import evaluate, strip_sites
from ..core.terms import show, subterms
from ..core import guards as G
from ..core import bytesnf as B
from .common import where, check_arm_purity, reachable_fns
from . import constructions as K
from . import guardrules as R
from . import flow as F

EXPLANATION = (
    "Decides the glue that makes honest signatures verify for every key, message and scheme: (1) for each scheme trait the "
    "signing methods and the verifying methods hand the same (domain-separation tag, message framing) to the core primitive "
    "(sibling agreement on value-numbered terms; augmentation unifies own-key with the verifier's key parameter); (2) the public "
    "wrappers dispatch on the scheme variant and use only items of that scheme in each arm and build the same variant they were "
    "given; (3) the only error exit reachable from signing is the zero-key guard (exit census) - no exit depends on the message; "
    "(4) no RNG or clock effect is reachable from the deterministic entry points; (5) the returned signature depends on key, "
    "message and tag; (6) the byte import of secret keys rejects exactly the zero string (zero test folded exhaustively over its "
    "256 accumulator values), so honest keys survive their encodings. Not decided: bilinearity of the pairing, numeric round trip "
    "of the backend's encodings."
)
RULE = "E3 sibling agreement + E5 construction terms; E2 arm purity; E4 exit census; E7 effect reachability; E6 dependence; finite-domain folding of the zero test"

WRAPPERS = ["SecretKey<C>::sign", "SecretKeyShare<C>::sign", "Signature<C>::verify", "PublicKeyShare<C>::verify", "MultiSignature<C>::verify", "AggregateSignature<C>::verify", "Signature<C>::from_shares"]
DETERMINISTIC = [
    "SecretKey<C>::from_hash", "SecretKey<C>::public_key", "SecretKey<C>::sign",
    "SecretKey<C>::to_be_bytes", "SecretKey<C>::to_le_bytes", "SecretKeyShare<C>::sign", "SecretKeyShare<C>::public_key",
    "<PublicKey<C> as From<&SecretKey<C>>>::from", "Signature<C>::verify", "SignatureShare<C>::verify", "PublicKeyShare<C>::verify",
    "AggregateSignature<C>::verify", "MultiSignature<C>::verify", "ProofOfPossession<C>::verify", "Signature<C>::from_shares",
    "PublicKey<C>::from_shares", "SecretKey<C>::combine", "AggregateSignature<C>::from_signatures", "MultiSignature<C>::from_signatures",
    "MultiPublicKey<C>::from_public_keys", "<Vec<u8> as From<&SecretKey<C>>>::from", "<SecretKey<C> as TryFrom<&[u8]>>::try_from",
    "<Vec<u8> as From<&PublicKey<C>>>::from", "<PublicKey<C> as TryFrom<&[u8]>>::try_from", "<Vec<u8> as From<&Signature<C>>>::from",
    "<Signature<C> as TryFrom<&[u8]>>::try_from", "ProofCommitment<C>::finalize", "ProofCommitmentChallenge<C>::from_hash",
    "BlsElGamal::message_generator", "ProofOfKnowledge<C>::verify", "ElGamalProof<C>::verify", "SignCryptCiphertext<C>::decrypt",
    "SignCryptCiphertext<C>::is_valid", "TimeCryptCiphertext<C>::decrypt", "ElGamalCiphertext<C>::decrypt",
]


def run(ctx):
    P = ctx.P
    # 1. sibling agreement + pinned (tag, message) table
    K.check_core_siblings(ctx, P, methods_sign=("sign", "partial_sign"), methods_verify=("verify", "partial_verify", "multi_sig_verify"))
    # 2. wrappers preserve the scheme
    fns = [f for f in (ctx.need_fn("E2-A", k) for k in WRAPPERS) if f is not None]
    from .common import with_mappers, check_dispatching

    check_arm_purity(ctx, "E2-A", P, with_mappers(P, fns))
    check_dispatching(ctx, "E2-A", P, fns)
    from . import spec as SP

    nsp = 0
    for f in fns:
        if f.key != "Signature<C>::from_shares":
            nsp += SP.check_trait_by_scheme(ctx, "E2.dispatch", P, f, ("sign", "verify", "partial_sign", "partial_verify", "aggregate_verify", "multi_sig_verify", "pop_prove", "pop_verify", "core_sign", "core_verify"))
    ctx.floor("E2.dispatch", "(wrapper, scheme) pairs reaching the scheme's own trait method", nsp, 14)
    # 2b. keys carried through the endian-named byte codecs come back as the same scalar
    from . import codecs as C

    C.check_endian_delegation(ctx, P)
    C.check_reader_rejections(ctx, P, only=("SecretKey", "PublicKey", "Signature"), floor=1)
    # ... including the curve-tagged key wrapper: the tag written for a curve is the tag read back as that curve
    from .c18 import _Sub

    C.check_tag_tables(_Sub(ctx, ("E9.tags.u8", "E9.tags.cast", "E9.tags.str")), P)
    # ... and through both serde forms: writer and reader of every `serde(with)` field are the same module pair, the
    # modules are pure delegations to the associated type's own impls
    C.check_serde_with_pairs(ctx, P, rule="E9.serde")
    R.check_scalar_importer_rejects(ctx, "E4.import-total", P)
    # 3. exit census of the signing path
    roots = [P.fns.get(k) for k in ("SecretKey<C>::sign",)]
    reach = reachable_fns(P, [r for r in roots if r])
    nerr = 0
    for f in reach.values():
        if f.from_expansion:
            continue
        ev = evaluate(f)
        for b in R.err_blocks(f):
            nerr += 1
            lits = G.path_literals(ev, b, P, checks_only=True)
            ok = any(p and a[0] == "atom" and a[1] == "is_zero" and R.subject_matches(a[2], ("param", "sk")) for a, p in lits)
            ctx.ob("E4.exits", "%s/err@%s" % (f.key, _err_kind(f, b)), ok, "error exit in the signing path must be the zero-key guard; path condition: %s" % sorted(G.show_f(a, 3) + ("" if p else " [false]") for a, p in lits)[:4], where=where(f, b))
    ctx.floor("E4.exits", "error-constructing exits on the signing path", nerr, 1)
    # core_sign returns hash_to_point(msg,dst) * sk
    f = ctx.need_fn("E6.sign", "BlsSignatureCore::core_sign")
    if f is not None:
        ev = evaluate(f)
        oks = [R.ok_value(ev.fn, ev, b) for b in R.ok_blocks(f)]
        good = False
        for v in oks:
            if v is None:
                continue
            names = {s.a[1] for s in subterms(v) if s.op == "param"}
            h = [s for s in subterms(v) if s.op == "call" and B.cname(s) == "HashToPoint::hash_to_point"]
            mul = [s for s in subterms(v) if s.op == "call" and B.cname(s) == "Mul::mul"]
            if {"sk", "msg", "dst"} <= names and h and mul:
                pr = [B.peel(x) for x in h[0].a[1]]
                good = pr[0].op == "param" and pr[0].a[1] == "msg" and pr[1].op == "param" and pr[1].a[1] == "dst"
        ctx.ob("E6.sign", "core_sign value", good, "core_sign returns hash_to_point(msg, dst) * sk with message and tag forwarded unmodified: %s" % [show(strip_sites(v), 5) for v in oks if v is not None][:1], where=where(f))
    # pairing plumbing: every pair reaches the Miller loop
    from .c02 import check_pipeline

    for fk in ("<Bls12381G1Impl as Pairing>::pairing", "<Bls12381G2Impl as Pairing>::pairing"):
        check_pipeline(ctx, P, fk)
    F.check_message_blind_control(ctx, "E6.msg-blind", P, ["SecretKey<C>::sign", "SecretKeyShare<C>::sign", "Signature<C>::verify"], floor=4)
    # 3b. "signing succeeds" / "verifies": no abort-capable site on the honest path is left undischarged (both profiles)
    from . import aborts as A

    roots = ["SecretKey<C>::sign", "Signature<C>::verify", "SecretKey<C>::public_key", "SecretKey<C>::from_hash", "<SecretKey<C> as TryFrom<&[u8]>>::try_from", "<PublicKey<C> as TryFrom<&[u8]>>::try_from", "<Signature<C> as TryFrom<&[u8]>>::try_from", "<Vec<u8> as From<&SecretKey<C>>>::from", "<Vec<u8> as From<&PublicKey<C>>>::from", "<Vec<u8> as From<&Signature<C>>>::from"]
    A.check_aborts(ctx, "E8", P, roots, scope="C01")
    A.check_aborts(ctx, "E8", ctx.prog("blst", "nodebug"), roots, scope="C01", profile="nodebug")
    # 4. determinism
    F.check_no_effects(ctx, "E7.deterministic", P, DETERMINISTIC, allow_clock=False)
    # 6. secret-key byte import = exact zero rejection
    F.check_iszero(ctx, P, "E8.iszero", check_asserts=False, need=("nonzero",))
    ctx.assume("pairing bilinearity and correctness of hash-to-curve / scalar multiplication in the backend crates")


def _err_kind(f, b):
    for s in f.blocks[b]["stmts"]:
        if s["k"] == "assign" and "agg" in s["rv"] and s["rv"]["agg"].get("adt") == "BlsError":
            return s["rv"]["agg"]["variant"]
    return "Err"
