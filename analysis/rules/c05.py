"""C05 - schemes and purposes are domain-separated."""
from itertools import combinations

from .common import (
    spec,
    collect_constants,
    check_arm_purity,
    check_tag_control_dependence,
    check_inside_scheme_traits,
    TAG_CONSTS,
    check_tag_table,
    where,
)
from . import constructions as K

EXPLANATION = (
    "Decides the routing clauses of domain separation from the type-checked program: (1) every domain-separation "
    "tag and salt constant is const-evaluated and all pairs are compared (exhaustive over the finite set) and the 8 "
    "ciphersuite tags equal the IETF strings; (2) at every switch on a scheme-tagged enum, blocks edge-dominated by "
    "the arm for variant V mention only scheme-V tags/trait methods/variants, and blocks under two different variants "
    "mention none (diagonal rule); (3) outside the scheme traits every scheme tag or scheme-trait call is "
    "control-dependent on a scheme arm; (4) inside a scheme trait only its own tags are used and the POP tag is paired "
    "only with the public-key bytes as message. Not decided: that distinct tags give independent hash-to-curve oracles."
)
RULE = "E1 constant table (exhaustive pairwise distinctness + IETF equality); E2-A arm purity by edge dominance; E2-B tag control dependence; E2-C trait-internal purity; E5 purpose separation on (tag, message) terms"


def run(ctx):
    P = ctx.P
    pinned = spec("pinned.json")
    check_tag_table(ctx, P)
    # a tag separates two uses only if it takes part every time: nothing on the way from the scheme entry points to the
    # hash keeps a result from an earlier call (a memo of hash_to_point keyed on the message alone hands a point computed
    # under another tag to the second scheme)
    from . import flow as F_det

    F_det.check_no_effects(ctx, "E7.deterministic", P, ["SecretKey<C>::sign", "Signature<C>::verify", "ProofOfPossession<C>::verify", "SecretKey<C>::proof_of_possession", "SecretKeyShare<C>::sign", "SignatureShare<C>::verify", "MultiSignature<C>::verify", "AggregateSignature<C>::verify"])
    # 2. arm purity on all dispatch sites
    n_sites, n_arms = check_arm_purity(ctx, "E2-A", P)
    ctx.floor("E2-A", "scheme dispatch switches", n_sites, 40)
    # 3. control dependence
    n = check_tag_control_dependence(ctx, "E2-B", P)
    ctx.floor("E2-B", "scheme items outside the scheme traits", n, 40)
    # 4. inside traits
    n = check_inside_scheme_traits(ctx, "E2-C", P)
    ctx.floor("E2-C", "scheme items inside the scheme traits", n, 12)
    # 5. purpose separation: (tag, message-class) pairs at core_* call sites
    K.check_purpose_separation(ctx, P)
    # 6. the user-facing proof-of-possession entry points stay on the POP-purpose tag (a proof of possession made
    #    through the signing path would verify as an ordinary signature over the key bytes)
    K.check_pop_chain(ctx, P, rule="E5.pop-chain")
    # 7. "proofs of knowledge and ciphertexts bound to one scheme are rejected under another": every entry point that opens
    #    or checks a ciphertext / proof selects its tag by the object's own scheme label, for each of the three schemes
    #    (a path that stops looking at the label accepts a relabelled object) - the rules of C10 / C11 / C12 / C13
    from .c18 import _Sub
    from . import c10, c11, c12, c13

    sub = _Sub(ctx, ("E2.tag-by-scheme", "E2.diagonal", "E2-A.dispatch", "E2.dispatch", "E5.w", "E6.flag", "E4.valid"))
    for m_ in (c10, c11, c12, c13):
        m_.run(sub)
    ctx.assume("hash-to-curve with distinct DSTs behaves as independent random oracles (cryptographic assumption)")
