"""C11 - signcryption round-trips every message and rejects every altered ciphertext."""
from ..core.sym import evaluate, strip_sites
from ..core.terms import show, subterms
from ..core import guards as G
from ..core import bytesnf as B
from .common import where, check_arm_purity, spec
from . import guardrules as R
from . import flow as F
from . import protocols as PR

EXPLANATION = (
    "Decides the gating and framing glue for all inputs: every CtOption::new reachable from decrypt / decrypt_with_shares / "
    "SignCryptDecryptionKey::decrypt carries either a constant-0 flag or exactly the result of valid(u, v, w, dst) on this "
    "ciphertext's own fields, and the unmasking scalar is selected by that same flag; valid = is_identity(pairing[(w,-G), "
    "(H(to_bytes(u)‖v, dst), u)]) & !id(u) & !id(w) (conjunction, depends on u, v, w and dst); the tag is chosen by the ciphertext's "
    "scheme in all four entry points and at sealing; the writer frames zigzag(|M|)‖M‖PadTo(32,0) and the reader is its inverse "
    "by shape (prefix decoded from exactly the peeked bytes, bound L <= |P|-n dominating the slice P[n..n+L], malformed length => "
    "constant-0 flag); keystream = Shake128(to_bytes(point)) of the payload length on both sides; U = G*r, W = H(U‖V)*r with the "
    "same r. Not decided: that every single-bit flip is rejected (needs the pairing), wrong-key behaviour."
)
RULE = "E4/E6 flag provenance by value numbering; Choice algebra; E2 arm purity; E3/E5 framing inverse-by-shape and construction terms"


def run(ctx):
    P = ctx.P
    pinned = spec("pinned.json")
    # scheme -> tag in all entry points
    fks = ["SignCryptCiphertext<C>::decrypt", "SignCryptCiphertext<C>::decrypt_with_shares", "SignCryptCiphertext<C>::is_valid", "SignCryptDecryptionKey<C>::decrypt", "PublicKey<C>::sign_crypt"]
    fns = [f for f in (ctx.need_fn("E2-A", k) for k in fks) if f is not None]
    from .common import with_mappers, check_dispatching

    check_arm_purity(ctx, "E2-A", P, with_mappers(P, fns))
    check_dispatching(ctx, "E2-A", P, fns)
    from .common import scheme_roots

    for f in fns:
        want = {"SignCryptDecryptionKey<C>::decrypt": "ciphertext.scheme", "PublicKey<C>::sign_crypt": "scheme"}.get(f.key, "self.scheme")
        roots = scheme_roots(P, f)
        ctx.ob("E2.own-scheme", f.key, bool(roots) and all(r == want for r in roots), "tag is selected by %s (want `%s`)" % (roots, want), where=where(f))
    # flag provenance
    f = ctx.need_fn("E6.flag", "BlsSignCrypt::decrypt")
    if f is not None:
        sites = R.ctoption_sites(P, f)
        ctx.ob("E6.flag.anchor", "BlsSignCrypt::decrypt", len(sites) >= 2, "%d CtOption::new sites in BlsSignCrypt::decrypt" % len(sites), where=where(f))
        for bb, val, flag in sites:
            fl = strip_sites(B.peel(flag))
            fm = G.formula(flag, P)
            ok = fm == G.FALSE or (fl.op == "param" and fl.a[1] == "valid")
            ctx.ob("E6.flag", "BlsSignCrypt::decrypt@%s" % ("const0" if fm == G.FALSE else show(fl, 2)), ok, "CtOption flag is %s (must be the constant 0 or the `valid` parameter itself)" % show(fl, 4), where=where(f, bb))
    # each caller of decrypt passes valid(u,v,w,dst) of the same ciphertext
    callers = P.callers().get("BlsSignCrypt::decrypt", [])
    ctx.floor("E6.flag", "call sites of BlsSignCrypt::decrypt", len(callers), 1)
    for g, bb, t in callers:
        gev = evaluate(g)
        s = gev.sites[bb]
        ctx.saw(g)
        fl = strip_sites(s.args[2])
        v_arg = strip_sites(B.peel(s.args[0]))
        ok = fl.op == "call" and B.cname(fl) == "BlsSignCrypt::valid" and len(fl.a[1]) == 4
        same_v = ok and strip_sites(B.peel(fl.a[1][1])) == v_arg
        ctx.ob("E6.flag", "%s->decrypt" % g.key, ok and same_v, "flag handed to decrypt is valid(u, v, w, dst) over the same payload that is unmasked: %s" % show(fl, 4), where=where(g, bb))
        # ... and what decrypt returns is what the caller returns: no filtering of the opened message afterwards
        # (an empty message, a message starting with zeros etc. are messages like any other)
        gr = strip_sites(gev.ret)
        alts = list(gr.a[0]) if gr.op == "phi" else [gr]
        dv = strip_sites(s.value)
        bad = []
        for a_ in alts:
            if a_ == dv:
                continue
            if a_.op == "call" and B.cname(a_) == "CtOption::<T>::new" and len(a_.a[1]) == 2 and G.formula(a_.a[1][1], P) == G.FALSE:
                continue
            bad.append(show(a_, 3))
        ctx.ob("E6.pass", "%s/result" % g.key, not bad, "%s returns the result of decrypt itself (or a constant rejection)%s" % (g.key, "" if not bad else "; other results: %s" % bad[:2]), where=where(g, bb))
        if ok:
            u, v, w, dst = [B.peel(x) for x in fl.a[1]]
            if g.key == "BlsSignCrypt::unseal":
                # unmasking scalar selected by the same flag
                ua = strip_sites(s.args[1])
                # conditional_select(ZERO, sk, valid), or `let mut e = ZERO; e.conditional_assign(sk, valid)`
                cs = [x.a[1] for x in subterms(ua) if x.op == "call" and B.cname(x) == "ConditionallySelectable::conditional_select" and len(x.a[1]) == 3]
                cs += [x.a[2] for x in subterms(ua) if x.op == "mutcall" and B.cname(x) == "ConditionallySelectable::conditional_assign" and x.a[1] == 0 and len(x.a[2]) == 3]
                okc = bool(cs) and strip_sites(cs[0][2]) == fl and B.peel(cs[0][1]).op == "param" and B.peel(cs[0][1]).a[1] == "sk" and any(x.op in ("assoc", "named") and x.a[0].endswith("ZERO") for x in subterms(cs[0][0]))
                mul_u = ua.op == "call" and B.cname(ua) == "Mul::mul" and B.peel(ua.a[1][0]) == u
                ctx.ob("E6.flag", "BlsSignCrypt::unseal/select", okc and mul_u, "unmasking point = u * conditional_select(ZERO, sk, valid): the key is used only when the ciphertext is valid", where=where(g, bb))
    # wrappers hand their own fields
    for fk, sink in (("SignCryptCiphertext<C>::decrypt", "BlsSignCrypt::unseal"), ("SignCryptCiphertext<C>::decrypt_with_shares", "BlsSignCrypt::unseal_with_shares"), ("SignCryptCiphertext<C>::is_valid", "BlsSignCrypt::valid"), ("SignCryptDecryptionKey<C>::decrypt", "BlsSignCrypt::valid")):
        f = P.fns.get(fk)
        if f is None:
            continue
        ev = evaluate(f)
        ss = [s for s in ev.sites.values() if s.callee[0] == sink]
        ctx.ob("E6.fields.anchor", fk, len(ss) >= 1, "%d call(s) to %s" % (len(ss), sink), where=where(f))
        for s in ss:
            roots = [F.projection_root(strip_sites(a)) for a in s.args[:3]]
            names = [(r[0].a[1] + r[1]) if r else None for r in roots]
            base = "ciphertext" if fk.startswith("SignCryptDecryptionKey") else "self"
            ctx.ob("E6.fields", "%s->%s" % (fk, sink.split("::")[-1]), names == [base + ".u", base + ".v", base + ".w"], "passes (u, v, w) of the ciphertext itself: %s" % names, where=where(f, s.bb))
    # valid()
    f = ctx.need_fn("E4.valid", "BlsSignCrypt::valid")
    if f is not None:
        ev = evaluate(f)
        fm = G.formula(ev.ret, P)
        conj = G.conjuncts(fm)
        pair = [c for c in conj if c[0] == "atom" and c[1] == "is_identity" and c[2].op == "call" and B.cname(c[2]) == "Pairing::pairing"]
        ok = len(pair) == 1 and len(conj) == 3
        ctx.ob("E4.valid", "valid/conjunction", ok, "valid = %s (want exactly pairing-test & !id(u) & !id(w))" % G.show_f(fm, 4)[:300], where=where(f))
        R.check_flag_conjunct(ctx, "E4.valid", P, "BlsSignCrypt::valid", ev.ret, "is_identity", ("param", "u"), False, "u")
        R.check_flag_conjunct(ctx, "E4.valid", P, "BlsSignCrypt::valid", ev.ret, "is_identity", ("param", "w"), False, "w")
        if pair:
            T_ = pair[0][2]
            comps = [tuple(B.peel(x) for x in s.a[1]) for s in subterms(T_) if s.op == "agg" and s.a[0][0] == "tuple"]
            flat = [c for t in comps for c in t]
            cw = [c for c in flat if c.op == "call" and B.cname(c) == "BlsSignCrypt::compute_w"]
            okw = bool(cw) and [B.peel(x).a[1] if B.peel(x).op == "param" else None for x in cw[0].a[1]] == ["u", "v", "dst"]
            # which operand carries the negation (and the order of the pairs) is decided by E5.equation on the bilinear form
            okp = len(comps) == 2
            ctx.ob("E5.valid", "valid/equation", okw and okp, "pairing input = %s (want {(w, -G), (compute_w(u, v, dst), u)})" % show(strip_sites(T_), 6), where=where(f))
    from . import equations as EQ

    EQ.check_pairing_equation(ctx, "E5.equation", P, "BlsSignCrypt::valid", {("w", "G"): -1, ("cw", "u"): 1}, "e(w, -G) * e(compute_w(u, v, dst), u)")
    # seal, open and the validity report of one scheme agree on the tag: under scheme V every entry point hands V's
    # signature tag to the construction (an honest ciphertext of scheme V must report valid and decrypt)
    from . import spec as SP

    for fk_, sinks_ in (("PublicKey<C>::sign_crypt", ("BlsSignCrypt::seal",)), ("SignCryptCiphertext<C>::is_valid", ("BlsSignCrypt::valid",)), ("SignCryptCiphertext<C>::decrypt", ("BlsSignCrypt::unseal",)), ("SignCryptDecryptionKey<C>::decrypt", ("BlsSignCrypt::valid",))):
        g_ = ctx.need_fn("E2.tag-by-scheme", fk_)
        if g_ is not None:
            k_ = SP.check_tag_by_scheme(ctx, "E2.tag-by-scheme", P, g_, sinks_, -1, purpose="sig")
            ctx.ob("E2.tag-by-scheme", fk_ + "/all-schemes", k_ >= 3, "%s selects the tag for %s by the scheme in %d of 3 schemes" % (fk_, sinks_[0], k_), where=where(g_))
    # abort-freedom of the opening path: an altered ciphertext yields nothing, it does not abort
    from . import aborts as A

    A.check_aborts(ctx, "E8", P, ["SignCryptCiphertext<C>::decrypt", "SignCryptCiphertext<C>::is_valid", "SignCryptDecryptionKey<C>::decrypt"], scope="C11")
    # compute_w: hash_to_point(to_bytes(u) ‖ v, dst)
    f = ctx.need_fn("E5.w", "BlsSignCrypt::compute_w")
    if f is not None:
        ev = evaluate(f)
        hs = [s for s in ev.sites.values() if s.callee[0] == "HashToPoint::hash_to_point"]
        ok = False
        segs = []
        if hs:
            segs = B.nf(ev, hs[0].args[0])
            dstp = B.peel(hs[0].args[1])
            shape = lambda sg: len(sg) == 2 and sg[0][0] == "v" and sg[0][1].op == "call" and B.cname(sg[0][1]) == "GroupEncoding::to_bytes" and B.peel(sg[0][1].a[1][0]).op == "param" and B.peel(sg[0][1].a[1][0]).a[1] == "u" and sg[1][0] == "v" and sg[1][1].op == "param" and sg[1][1].a[1] == "v"
            ok, weak = B.decide(segs, shape)
            ok = ok and dstp.op == "param" and dstp.a[1] == "dst"
        else:
            weak = False
        ctx.ob("E5.w", "compute_w", ok or weak, "W input = %s under the caller's tag (pinned: to_bytes(U) ‖ V)" % B.show_nf(segs), where=where(f), weak=weak, sample={"w_input": B.show_nf(segs)})
    # keystream
    PR.check_xof_mask(ctx, "E5.keystream", P, "BlsSignCrypt::compute_v", "uar", "r", "Shake128", True)
    PR.check_byte_xor(ctx, "E5.keystream", P)
    # framing
    PR.check_frame_writer(ctx, "E5.frame", P, "BlsSignCrypt::seal", "message", lambda s: s.callee[0] == "BlsSignCrypt::compute_v", "compute_v")
    PR.check_frame_reader(ctx, "E3.frame", P, "BlsSignCrypt::decrypt", "plaintext")
    # seal: U = G*r, V = compute_v(pk*r, frame), W = compute_w(U, V, dst)*r, r from hash_to_scalar(rng, salt)
    f = ctx.need_fn("E5.seal", "BlsSignCrypt::seal")
    if f is not None:
        ev = evaluate(f)
        ret = strip_sites(ev.ret)
        ok = ret.op == "agg" and len(ret.a[1]) == 3
        detail = ""
        if ok:
            from ..core import poly as PL
            from . import equations as EQ

            u, v, w = ret.a[1]
            r = None
            pu = PL.poly(u, EQ.std_atom())
            if len(pu) == 1 and list(pu.values()) == [1]:
                mono = list(pu)[0]
                rest = [k for k in mono if k != "G"]
                if len(mono) == 2 and "G" in mono and len(rest) == 1 and not isinstance(rest[0], str):
                    r = rest[0]
            at = EQ.std_atom(lambda t: "r" if (r is not None and t == r) else None)
            okv = v.op == "call" and B.cname(v) == "BlsSignCrypt::compute_v" and PL.named(PL.poly(v.a[1][0], at)) == {("pk", "r"): 1}
            okw = False
            pw = PL.poly(w, at)
            if len(pw) == 1 and list(pw.values()) == [1]:
                mono = list(pw)[0]
                cws = [k for k in mono if not isinstance(k, str)]
                if len(mono) == 2 and "r" in mono and len(cws) == 1 and cws[0].op == "call" and B.cname(cws[0]) == "BlsSignCrypt::compute_w":
                    cw = cws[0]
                    okw = PL.named(PL.poly(cw.a[1][0], at)) == {("G", "r"): 1} and B.peel(cw.a[1][2]).op == "param" and B.peel(cw.a[1][2]).a[1] == "dst" and any(x == v for x in subterms(cw.a[1][1]))
            salt = None
            if r is not None and r.op == "call" and B.cname(r) == "HashToScalar::hash_to_scalar":
                st = B.peel(r.a[1][1])
                if st.op == "named" and st.a[2].op == "const":
                    salt = bytes.fromhex(st.a[2].a[1]).decode("latin-1")
            ok = r is not None and okv and okw and salt == pinned["salts"]["signcrypt"]
            detail = "r=%s salt=%r V-ok=%s W-ok=%s" % (show(r, 3) if r is not None else None, salt, okv, okw)
        ctx.ob("E5.seal", "seal", ok, "seal returns (G*r, compute_v(pk*r, frame), compute_w(U, V, dst)*r) with one r: " + detail, where=where(f))
    ctx.assume("Shake128 / hash_to_point / pairing of the dependencies are deterministic functions of their inputs")
