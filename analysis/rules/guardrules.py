"""E4: guard dominance / Choice-conjunct obligations."""
import re

from ..core.sym import evaluate, strip_sites, inline
from ..core.terms import T, show, subterms
from ..core import guards as G
from ..core import bytesnf as B
from .common import where


def ok_blocks(fn, variant="Ok", adt="Result"):
    """Blocks that build the success value in the return place."""
    out = []
    for b in sorted(fn.cfg.reachable):
        for s in fn.blocks[b]["stmts"]:
            if s["k"] == "assign" and s["place"].get("l") == 0 and "p" not in s["place"]:
                agg = s["rv"].get("agg")
                if agg and agg.get("adt") == adt and agg.get("variant") == variant:
                    out.append(b)
    return out


def err_blocks(fn):
    return ok_blocks(fn, "Err")


def subject_matches(term, subj):
    """subj: ('param', name) | ('re', regex over show(term))"""
    t = term
    while t.op in ("ref", "deref"):
        t = t.a[0]
    if subj[0] == "param":
        return t.op == "param" and t.a[1] == subj[1]
    if subj[0] == "re":
        return re.search(subj[1], show(t, 8)) is not None
    return False


def has_literal(lits, kind, subj, pol):
    for (atom, p) in lits:
        if p == pol and atom[0] == "atom" and atom[1] == kind and subject_matches(atom[2], subj):
            return True
    return False


def check_result_guard(ctx, rule, P, fn_key, kind, subj, desc=None, exits="ok"):
    """Every success exit of fn is dominated by an edge implying ¬kind(subject)."""
    fn = ctx.need_fn(rule, fn_key, P)
    if fn is None:
        return False
    ev = evaluate(fn)
    blocks = ok_blocks(fn) if exits == "ok" else exits(fn, ev)
    name = desc or (subj[1] if subj[0] == "param" else subj[1])
    if not blocks:
        return ctx.ob(rule + ".anchor", "%s/%s(%s)" % (fn_key, kind, name), False, "no success exit found in `%s` (anchor changed shape)" % fn_key, where=where(fn))
    allok = True
    bad = None
    for b in blocks:
        lits = G.path_literals(ev, b, P)
        if not has_literal(lits, kind, subj, False):
            allok = False
            bad = b
    return ctx.ob(
        rule,
        "%s/!%s(%s)" % (fn_key, kind, name),
        allok,
        "every success exit of `%s` must be dominated by the rejecting branch of `%s(%s)`%s" % (fn_key, kind, name, "" if allok else " - exit bb%d is reachable without it" % bad),
        where=where(fn, bad) if bad is not None else where(fn),
        sample={"fn": fn_key, "guard": "!%s(%s)" % (kind, name), "exits": blocks},
    )


def check_block_guard(ctx, rule, P, fn_key, block_pred, kind, subj, desc):
    """Every block satisfying block_pred (e.g. the push inside a loop) is guarded."""
    fn = ctx.need_fn(rule, fn_key, P)
    if fn is None:
        return False
    ev = evaluate(fn)
    blocks = [b for b in sorted(fn.cfg.reachable) if block_pred(fn, ev, b)]
    if not blocks:
        return ctx.ob(rule + ".anchor", "%s/%s" % (fn_key, desc), False, "guarded site `%s` not found in `%s` (missing anchor)" % (desc, fn_key), where=where(fn))
    ok = True
    bad = None
    for b in blocks:
        if not has_literal(G.path_literals(ev, b, P), kind, subj, False):
            ok = False
            bad = b
    return ctx.ob(rule, "%s/%s" % (fn_key, desc), ok, "site `%s` must be dominated by !%s(%s)" % (desc, kind, subj[1]), where=where(fn, bad if bad is not None else blocks[0]))


def ret_formula(P, fn, ev=None):
    ev = ev or evaluate(fn)
    return G.formula(ev.ret, P)


def check_flag_conjunct(ctx, rule, P, fn_key, flag_term, kind, subj, pol, desc):
    """The Choice `flag_term` is a conjunction containing the literal kind(subject)=pol."""
    f = G.formula(flag_term, P)
    lits = G.literals(f, True)
    ok = has_literal(lits, kind, subj, pol)
    fn = P.fns.get(fn_key)
    return ctx.ob(
        rule,
        "%s/%s%s(%s)" % (fn_key, "" if pol else "!", kind, desc),
        ok,
        "returned flag of `%s` must be a conjunction containing %s%s(%s); flag = %s" % (fn_key, "" if pol else "!", kind, desc, G.show_f(f, 4)[:300]),
        where=where(fn) if fn else None,
        sample={"fn": fn_key, "flag": G.show_f(f, 4)[:300]},
    )


def ctoption_sites(P, fn):
    """CtOption::new(value, flag) call sites of a function: [(bb, value, flag)]"""
    ev = evaluate(fn)
    out = []
    for bb, s in sorted(ev.sites.items()):
        if s.callee[0] in ("CtOption::<T>::new",) and len(s.args) == 2:
            out.append((bb, s.args[0], s.args[1]))
    return out


_FLIP = {"Lt": "Gt", "Gt": "Lt", "Le": "Ge", "Ge": "Le", "Eq": "Eq", "Ne": "Ne"}
_NEG = {"Eq": "Ne", "Ne": "Eq", "Lt": "Ge", "Ge": "Lt", "Gt": "Le", "Le": "Gt"}


def _is_len_of(t, pname):
    t = B.peel(t)
    if t.op == "call" and B.cname(t) in ("slice::<impl [T]>::len", "Vec::<T, A>::len") and len(t.a[1]) == 1:
        x = B.peel(t.a[1][0])
        return x.op == "param" and x.a[1] == pname
    if t.op == "len":
        x = B.peel(t.a[0])
        return x.op == "param" and x.a[1] == pname
    return False


def len_at_least(lits, pname, k):
    """Do the literals imply len(param) >= k ?"""
    for atom, pol in lits:
        if atom[0] == "atom" and atom[1] == "term" and not pol and k <= 1:
            t = atom[2]
            if t.op == "call" and B.cname(t) in ("slice::<impl [T]>::is_empty", "Vec::<T, A>::is_empty") and len(t.a[1]) == 1:
                x = B.peel(t.a[1][0])
                if x.op == "param" and x.a[1] == pname:
                    return True
        if atom[0] != "atom" or atom[1] != "cmp":
            continue
        op, a, b = atom[2], atom[3], atom[4]
        if not pol:
            op = _NEG[op]
        if _is_len_of(b, pname):
            a, b = b, a
            op = _FLIP[op]
        if not _is_len_of(a, pname):
            continue
        c = B._const_int(b)
        if c is None:
            continue
        if op == "Ge" and c >= k:
            return True
        if op == "Gt" and c >= k - 1:
            return True
        if op == "Eq" and c >= k:
            return True
    return False


def check_min_len(ctx, rule, P, fn_key, pname, k, extra_blocks=None):
    """Every success exit (and every block in extra_blocks(fn, ev)) is dominated by len(param) >= k."""
    fn = ctx.need_fn(rule, fn_key, P)
    if fn is None:
        return False
    ev = evaluate(fn)
    blocks = ok_blocks(fn) + (extra_blocks(fn, ev) if extra_blocks else [])
    if not blocks:
        return ctx.ob(rule + ".anchor", fn_key, False, "no success exit found in `%s`" % fn_key, where=where(fn))
    bad = [b for b in blocks if not len_at_least(G.path_literals(ev, b, P), pname, k)]
    return ctx.ob(rule, "%s/len(%s)>=%d" % (fn_key, pname, k), not bad, "every success exit of `%s` requires len(%s) >= %d%s" % (fn_key, pname, k, "" if not bad else " - bb%s reachable without the length guard" % bad), where=where(fn, bad[0]) if bad else where(fn))


def check_same_scheme_guard(ctx, rule, P, fn_key, list_param):
    """Accumulation inside the loop is dominated by same_scheme(elem, &list[0]) == true."""
    fn = ctx.need_fn(rule, fn_key, P)
    if fn is None:
        return False
    ev = evaluate(fn)
    acc = [b for b, s in ev.sites.items() if s.callee[0] in ("AddAssign::add_assign",)]
    if not acc:
        return ctx.ob(rule + ".anchor", fn_key + "/accumulate", False, "accumulation (`+=`) not found in `%s`" % fn_key, where=where(fn))
    ok = True
    for b in acc:
        lits = G.path_literals(ev, b, P)
        good = False
        for atom, pol in lits:
            if pol and atom[0] == "atom" and atom[1] == "term":
                t = atom[2]
                if t.op == "call" and B.cname(t).endswith("::same_scheme") and len(t.a[1]) == 2:
                    x, y = [B.peel(z) for z in t.a[1]]
                    def first(z):
                        return z.op == "index" and B.peel(z.a[0]).op == "param" and B.peel(z.a[0]).a[1] == list_param and B._const_int(z.a[1]) == 0
                    def elem(z):
                        return any(s.op == "call" and B.cname(s) == "Iterator::next" for s in subterms(z))
                    if (first(x) and elem(y)) or (first(y) and elem(x)):
                        good = True
        ok = ok and good
    return ctx.ob(rule, fn_key + "/same_scheme", ok, "every accumulated element is first compared with %s[0] by same_scheme (mixed schemes => Err)" % list_param, where=where(fn, acc[0]))


def loop_sources(fn):
    """Terms iterated by `for` loops: argument of IntoIterator::into_iter feeding Iterator::next in a loop."""
    ev = evaluate(fn)
    out = []
    for b, s in ev.sites.items():
        if s.callee[0] == "Iterator::next":
            it = B.peel(s.args[0])
            if it.op == "loop":
                out.append((b, strip_sites(it.a[2])))
    return out


def covers_all(src, list_param):
    """Does iterating `src` together with a separate use of list[0] cover every element?
    Returns 'all' (whole list), 'tail1' (list[1..] / skip(1)), or None."""
    t = src
    while t.op in ("ref", "deref") or (t.op == "call" and B.cname(t) in ("IntoIterator::into_iter", "slice::<impl [T]>::iter", "Iterator::enumerate", "Iterator::copied", "Iterator::cloned", "AsRef::as_ref", "Deref::deref", "Vec::<T, A>::as_slice", "Borrow::borrow")):
        t = t.a[0] if t.op in ("ref", "deref") else t.a[1][0]
    if t.op == "param" and t.a[1] == list_param:
        return "all"
    if t.op == "call" and B.cname(t) == "Index::index":
        base = B.peel(t.a[1][0])
        rng = B.peel(t.a[1][1])
        if base.op == "param" and base.a[1] == list_param and rng.op == "agg" and rng.a[0][1] == "RangeFrom" and B._const_int(rng.a[1][0]) == 1:
            return "tail1"
    if t.op == "call" and B.cname(t) == "Iterator::skip" and B._const_int(t.a[1][1]) == 1:
        inner = covers_all(t.a[1][0], list_param)
        if inner == "all":
            return "tail1"
    return None
