"""E4: guard dominance / Choice-conjunct obligations."""
import re

from ..core.sym import evaluate, strip_sites, inline
from ..core.terms import T, show, subterms
from ..core import guards as G
from ..core import bytesnf as B
from .common import where


def return_aliases(fn):
    """Locals whose whole value is moved into the return place (`_0 = move _x`, transitively): after a helper has
    been spliced in, the helper's own return slot is such a local."""
    al = {0}
    changed = True
    while changed:
        changed = False
        for b in fn.cfg.reachable:
            for s in fn.blocks[b]["stmts"]:
                if s["k"] == "assign" and s["place"].get("l") in al and "p" not in s["place"] and "use" in s["rv"]:
                    op = s["rv"]["use"]
                    pl = op.get("move") or op.get("copy")
                    if pl and "p" not in pl and pl["l"] not in al:
                        al.add(pl["l"])
                        changed = True
    return al


def ok_blocks(fn, variant="Ok", adt="Result"):
    """Blocks that build the success value in the return place (or in a local that is moved into it)."""
    out = []
    al = return_aliases(fn)
    for b in sorted(fn.cfg.reachable):
        for s in fn.blocks[b]["stmts"]:
            if s["k"] == "assign" and s["place"].get("l") in al and "p" not in s["place"]:
                agg = s["rv"].get("agg")
                if agg and agg.get("adt") == adt and agg.get("variant") == variant:
                    out.append(b)
    return out


def ok_value(fn, ev, b, variant="Ok", adt="Result"):
    """The Result value built in block b (see ok_blocks), read from the local it was built in."""
    al = return_aliases(fn)
    for s in fn.blocks[b]["stmts"]:
        if s["k"] == "assign" and s["place"].get("l") in al and "p" not in s["place"]:
            agg = s["rv"].get("agg")
            if agg and agg.get("adt") == adt and agg.get("variant") == variant:
                st = ev.exit_state.get(b) or {}
                return st.get(s["place"]["l"])
    return (ev.exit_state.get(b) or {}).get(0)


_ERR_PRESERVING = ("map", "and_then", "branch", "from_residual", "map_err", "or_else", "inspect", "inspect_err")


def err_aliases(fn):
    """Locals whose Err-ness reaches the return place: moved into it, or handed to a combinator that passes an Err on
    (`x.map(f)`, `x.and_then(f)`, `x?`).  An `Err(..)` built in such a local is an error exit of the function (e.g. in
    the body of a spliced helper whose result is `.map(Self)`ed)."""
    al = set(return_aliases(fn))
    changed = True
    while changed:
        changed = False
        for b in fn.cfg.reachable:
            blk = fn.blocks[b]
            for s in blk["stmts"]:
                if s["k"] == "assign" and s["place"].get("l") in al and "p" not in s["place"] and "use" in s["rv"]:
                    op = s["rv"]["use"]
                    pl = op.get("move") or op.get("copy")
                    if pl and pl["l"] not in al:
                        al.add(pl["l"])
                        changed = True
            t = blk["term"]
            if t["k"] == "call" and (t.get("dest") or {}).get("l") in al and "p" not in (t.get("dest") or {"p": 1}):
                c = t.get("callee") or {}
                if c.get("name") in _ERR_PRESERVING and c.get("path", "").split("::")[0] in ("core", "std", "alloc") and t.get("args"):
                    a0 = t["args"][0]
                    pl = a0.get("move") or a0.get("copy") if isinstance(a0, dict) else None
                    if pl and pl["l"] not in al:
                        al.add(pl["l"])
                        changed = True
    return al


def err_blocks(fn):
    out = []
    al = err_aliases(fn)
    for b in sorted(fn.cfg.reachable):
        for s in fn.blocks[b]["stmts"]:
            if s["k"] == "assign" and s["place"].get("l") in al and "p" not in s["place"]:
                agg = s["rv"].get("agg")
                if agg and agg.get("adt") == "Result" and agg.get("variant") == "Err":
                    out.append(b)
    return out


def subst_literals(lits, mapping, P=None):
    """Literals of a callee (over its parameters) re-read in the caller: parameters replaced by the call's arguments;
    boolean `term` atoms are re-parsed so that `flag` becomes e.g. is_identity(pairing(..))."""
    from ..core.terms import subst

    out = set()
    for atom, pol in lits:
        if atom[0] != "atom":
            continue
        k = atom[1]
        if k == "term":
            f = G.formula(subst(atom[2], mapping), P)
            out |= G.literals(f, pol)
        elif k in ("is_identity", "is_zero", "is_some"):
            out.add((("atom", k, G._unref(strip_sites(subst(atom[2], mapping)))), pol))
        elif k == "eq":
            out.add((("atom", k, G._unref(strip_sites(subst(atom[2], mapping))), G._unref(strip_sites(subst(atom[3], mapping)))), pol))
        elif k == "cmp":
            out.add((("atom", k, atom[2], strip_sites(subst(atom[3], mapping)), strip_sites(subst(atom[4], mapping))), pol))
        elif k in ("switch", "switch_not"):
            out.add((("atom", k, strip_sites(subst(atom[2], mapping)), atom[3]), pol))
    return out


success_alternatives = G.success_alternatives


def ok_exits(P, fn, ev=None, depth=2, inline_bools=True, variant="Ok"):
    """Success exits of fn with the literals that hold on them: [(block, literals)].
    An exit is either a block that builds Ok(..) in the return place, or a tail call `return helper(..)` to a
    crate-local function: then the helper's own success exits are looked up and their conditions translated to
    the caller's terms (so `if c {Ok(())} else {Err(e)}` and `to_result(c)` are the same thing)."""
    from ..core.terms import T

    ev = ev or evaluate(fn)
    Pf = P if inline_bools else None
    out = [(b, G.path_literals(ev, b, Pf, checks_only=True)) for b in ok_blocks(fn, variant)]
    if depth <= 0:
        return out
    al = return_aliases(fn)
    for b in sorted(fn.cfg.reachable):
        t = fn.blocks[b]["term"]
        if t["k"] != "call" or "p" in (t.get("dest") or {"p": 1}) or t["dest"].get("l") not in al:
            continue
        c = t.get("callee") or {}
        g = P.fns.get(c.get("key")) if c.get("key") else None
        if g is None or g is fn:
            # `return external(..)` in a Result-returning function: the callee may return Ok (only the caller's own
            # path conditions are known); `?` lowers to from_residual, which only builds Err
            if variant == "Ok" and g is None and "Result<" in (fn.locals[0].get("ty") or "") and c.get("name") != "from_residual":
                here = G.path_literals(ev, b, Pf, checks_only=True)
                sv = ev.sites.get(b)
                alts = success_alternatives(strip_sites(sv.value), Pf) if sv is not None else [set()]
                for alt in alts:
                    out.append((b, here | alt))
            continue
        s = ev.sites.get(b)
        if s is None:
            continue
        gev = evaluate(g)
        mapping = {}
        for i in range(1, g.arg_count + 1):
            if i - 1 < len(s.args):
                mapping[T("param", i, gev.pname(i))] = s.args[i - 1]
        here = G.path_literals(ev, b, Pf, checks_only=True)
        for gb, glits in ok_exits(P, g, gev, depth - 1, inline_bools, variant):
            out.append((b, here | subst_literals(glits, mapping, Pf)))
    return out


def subject_matches(term, subj):
    """subj: ('param', name) | ('re', regex over show(term))"""
    t = term
    while t.op in ("ref", "deref"):
        t = t.a[0]
    if subj[0] == "param":
        return t.op == "param" and t.a[1] == subj[1]
    if subj[0] == "re":
        return re.search(subj[1], show(t, 8)) is not None
    if subj[0] == "opt-param":
        # the value of an `Option` parameter after defaulting: `p.unwrap_or_else(..)` / `unwrap_or(..)`, or the merge of
        # `match p { Some(x) => x, None => default }`
        def payload_of(x):
            while x.op in ("ref", "deref"):
                x = x.a[0]
            if x.op == "field" and x.a[1] == "0" and x.a[0].op == "downcast" and x.a[0].a[1] == "Some":
                y = x.a[0].a[0]
                while y.op in ("ref", "deref"):
                    y = y.a[0]
                return y.op == "param" and y.a[1] == subj[1]
            return False

        if t.op == "call" and B.cname(t).split("::")[-1] in ("unwrap_or_else", "unwrap_or", "unwrap_or_default") and t.a[1]:
            y = t.a[1][0]
            while y.op in ("ref", "deref"):
                y = y.a[0]
            return y.op == "param" and y.a[1] == subj[1]
        if t.op == "phi":
            return any(payload_of(x) for x in t.a[0])
        return payload_of(t)
    return False


def has_literal(lits, kind, subj, pol):
    for (atom, p) in lits:
        if p == pol and atom[0] == "atom" and atom[1] == kind and subject_matches(atom[2], subj):
            return True
    return False


def check_result_guard(ctx, rule, P, fn_key, kind, subj, desc=None, exits="ok"):
    """Every success exit of fn is dominated by an edge implying ¬kind(subject)."""
    fn = ctx.need_fn(rule, fn_key, P)
    if fn is None:
        return False
    ev = evaluate(fn)
    exs = ok_exits(P, fn, ev) if exits == "ok" else [(b, G.path_literals(ev, b, P, checks_only=True)) for b in exits(fn, ev)]
    blocks = [b for b, _ in exs]
    name = desc or (subj[1] if subj[0] == "param" else subj[1])
    if not blocks:
        return ctx.ob(rule + ".anchor", "%s/%s(%s)" % (fn_key, kind, name), False, "no success exit found in `%s` (anchor changed shape)" % fn_key, where=where(fn))
    allok = True
    bad = None
    for b, lits in exs:
        if not has_literal(lits, kind, subj, False):
            allok = False
            bad = b
    return ctx.ob(
        rule,
        "%s/!%s(%s)" % (fn_key, kind, name),
        allok,
        "every success exit of `%s` must be dominated by the rejecting branch of `%s(%s)`%s" % (fn_key, kind, name, "" if allok else " - exit bb%d is reachable without it" % bad),
        where=where(fn, bad) if bad is not None else where(fn),
        sample={"fn": fn_key, "guard": "!%s(%s)" % (kind, name), "exits": blocks},
    )


def check_block_guard(ctx, rule, P, fn_key, block_pred, kind, subj, desc):
    """Every block satisfying block_pred (e.g. the push inside a loop) is guarded."""
    fn = ctx.need_fn(rule, fn_key, P)
    if fn is None:
        return False
    ev = evaluate(fn)
    blocks = [b for b in sorted(fn.cfg.reachable) if block_pred(fn, ev, b)]
    if not blocks:
        return ctx.ob(rule + ".anchor", "%s/%s" % (fn_key, desc), False, "guarded site `%s` not found in `%s` (missing anchor)" % (desc, fn_key), where=where(fn))
    ok = True
    bad = None
    for b in blocks:
        if not has_literal(G.path_literals(ev, b, P, checks_only=True), kind, subj, False):
            ok = False
            bad = b
    return ctx.ob(rule, "%s/%s" % (fn_key, desc), ok, "site `%s` must be dominated by !%s(%s)" % (desc, kind, subj[1]), where=where(fn, bad if bad is not None else blocks[0]))


def ret_formula(P, fn, ev=None):
    ev = ev or evaluate(fn)
    return G.formula(ev.ret, P)


def check_flag_conjunct(ctx, rule, P, fn_key, flag_term, kind, subj, pol, desc):
    """The Choice `flag_term` is a conjunction containing the literal kind(subject)=pol."""
    f = G.formula(flag_term, P)
    lits = G.literals(f, True)
    ok = has_literal(lits, kind, subj, pol)
    fn = P.fns.get(fn_key)
    return ctx.ob(
        rule,
        "%s/%s%s(%s)" % (fn_key, "" if pol else "!", kind, desc),
        ok,
        "returned flag of `%s` must be a conjunction containing %s%s(%s); flag = %s" % (fn_key, "" if pol else "!", kind, desc, G.show_f(f, 4)[:300]),
        where=where(fn) if fn else None,
        sample={"fn": fn_key, "flag": G.show_f(f, 4)[:300]},
    )


def ctoption_sites(P, fn):
    """CtOption::new(value, flag) call sites of a function: [(bb, value, flag)]"""
    ev = evaluate(fn)
    out = []
    for bb, s in sorted(ev.sites.items()):
        if s.callee[0] in ("CtOption::<T>::new",) and len(s.args) == 2:
            out.append((bb, s.args[0], s.args[1]))
    return out


_FLIP = {"Lt": "Gt", "Gt": "Lt", "Le": "Ge", "Ge": "Le", "Eq": "Eq", "Ne": "Ne"}
_NEG = {"Eq": "Ne", "Ne": "Eq", "Lt": "Ge", "Ge": "Lt", "Gt": "Le", "Le": "Gt"}


def _is_len_of(t, pname):
    t = B.peel(t)
    if t.op == "call" and B.cname(t) in ("slice::<impl [T]>::len", "Vec::<T, A>::len") and len(t.a[1]) == 1:
        x = B.peel(t.a[1][0])
        return x.op == "param" and x.a[1] == pname
    if t.op == "len":
        x = B.peel(t.a[0])
        return x.op == "param" and x.a[1] == pname
    return False


def _len_offset(x, pname):
    """c such that len(x) = len(pname) - c for a slice x of the parameter (the parameter itself: 0), else None."""
    y = B.peel(x)
    if y.op == "param" and y.a[1] == pname:
        return 0
    sf = B.slice_form(x)
    if sf is None:
        return None
    base, st, en = sf
    if not (base.op == "param" and base.a[1] == pname):
        return None
    l = B._lin(("sub", ("sub", ("len", base), en), ("c", 0)))
    l2 = B._lin(st)
    if l is None or l2 is None:
        return None
    # (len(base) - end) + start must be a constant
    tot = B._lin(("add", ("sub", ("len", base), en), st))
    if tot is None or tot[1]:
        return None
    return tot[0] if tot[0] >= 0 else None


_SOME_NEEDS = {"slice::<impl [T]>::split_first": 1, "slice::<impl [T]>::split_last": 1, "slice::<impl [T]>::first": 1, "slice::<impl [T]>::last": 1}


def _len_offset_of_len(t, pname):
    """k such that t = len(x) with len(pname) = len(x) + k (x the parameter or a sub-slice of it), else None."""
    t = B.peel(t)
    if t.op == "call" and B.cname(t) in ("slice::<impl [T]>::len", "Vec::<T, A>::len") and len(t.a[1]) == 1:
        return _len_offset(t.a[1][0], pname)
    if t.op == "len":
        return _len_offset(t.a[0], pname)
    return None


def _literal_len_bound(atom, pol, pname):
    """Lower bound on len(pname) implied by one path literal (0 when it says nothing)."""
    if atom[0] != "atom":
        return 0
    if atom[1] == "term" and not pol:
        t = atom[2]
        if t.op == "call" and B.cname(t) in ("slice::<impl [T]>::is_empty", "Vec::<T, A>::is_empty") and len(t.a[1]) == 1:
            c = _len_offset(t.a[1][0], pname)
            if c is not None:
                return c + 1
    if atom[1] == "cmp" and len(atom) >= 5:
        # `len(p) >= c` and its spellings (a slice pattern `[first, rest @ ..]` compiles to one)
        op, a, b = atom[2], atom[3], atom[4]
        if not pol:
            op = _NEG[op]
        if _len_offset_of_len(b, pname) is not None and _len_offset_of_len(a, pname) is None:
            a, b = b, a
            op = _FLIP[op]
        off = _len_offset_of_len(a, pname)
        c = _cval(b) if off is not None else None
        if c is not None:
            if op in ("Ge", "Eq"):
                return c + off
            if op == "Gt":
                return c + 1 + off
        return 0
    if len(atom) > 3 and atom[1] in ("switch", "switch_not") and hasattr(atom[2], "op") and atom[2].op != "discr":
        # `match xs.len() { 0 | 1 => .., _ => .. }`: a switch on the length itself
        off = _len_offset_of_len(atom[2], pname)
        if off is not None:
            if atom[1] == "switch" and isinstance(atom[3], int):
                if pol:
                    return atom[3] + off
                return 1 + off if atom[3] == 0 else 0
            if atom[1] == "switch_not" and pol:
                ex = set(v for v in atom[3] if isinstance(v, int))
                m = 0
                while m in ex:
                    m += 1
                return m + off
        return 0
    some = None
    if pol and atom[1] == "is_some":
        some = atom[2]
    if len(atom) > 3 and atom[1] in ("switch", "switch_not") and atom[2].op == "discr":
        # Option discriminants: 0 = None, 1 = Some
        is_some = None
        if atom[1] == "switch" and atom[3] in (0, 1):
            is_some = (atom[3] == 1) == bool(pol)
        elif atom[1] == "switch_not" and tuple(atom[3]) in ((0,), (1,)):
            is_some = (tuple(atom[3]) == (0,)) == bool(pol)
        if is_some:
            some = atom[2].a[0]
    if some is not None:
        if True:
            t = B.peel(some)
            if t.op == "call" and len(t.a[1]) >= 1:
                need = _SOME_NEEDS.get(B.cname(t))
                if need is None and B.cname(t) == "slice::<impl [T]>::get" and len(t.a[1]) == 2:
                    i = B._const_int(t.a[1][1])
                    need = i + 1 if i is not None else None
                if need is not None:
                    c = _len_offset(t.a[1][0], pname)
                    if c is not None:
                        return c + need
    return 0


def _cval(t):
    """Value of a constant integer expression (`SECRET_KEY_BYTES + 1` in its checked form included), else None."""
    c = B._const_int(t)
    if c is not None:
        return c
    try:
        from .flow import eval_int

        if any(x.op in ("param", "call", "mutcall", "loop", "phi") for x in subterms(t)):
            return None
        return eval_int(strip_sites(t), {})[0]
    except Exception:
        return None


def len_at_least(lits, pname, k):
    """Do the literals imply len(param) >= k ?"""
    if any(_literal_len_bound(atom, pol, pname) >= k for atom, pol in lits):
        return True
    for atom, pol in lits:
        if atom[0] == "atom" and atom[1] == "term" and not pol and k <= 1:
            t = atom[2]
            if t.op == "call" and B.cname(t) in ("slice::<impl [T]>::is_empty", "Vec::<T, A>::is_empty") and len(t.a[1]) == 1:
                x = B.peel(t.a[1][0])
                if x.op == "param" and x.a[1] == pname:
                    return True
        if atom[0] == "atom" and atom[1] == "term" and not pol:
            # slice pattern `[a, rest @ ..] if !rest.is_empty()`: rest = param[i .. len-j] non-empty => len >= i+j+1
            t = atom[2]
            if t.op == "call" and B.cname(t) in ("slice::<impl [T]>::is_empty",) and len(t.a[1]) == 1:
                x = B.peel(t.a[1][0])
                if x.op == "subslice" and x.a[3] is True and B.peel(x.a[0]).op == "param" and B.peel(x.a[0]).a[1] == pname and isinstance(x.a[1], int) and isinstance(x.a[2], int) and x.a[1] + x.a[2] + 1 >= k:
                    return True
        if atom[0] != "atom" or atom[1] != "cmp":
            continue
        op, a, b = atom[2], atom[3], atom[4]
        if not pol:
            op = _NEG[op]
        if _is_len_of(b, pname):
            a, b = b, a
            op = _FLIP[op]
        if not _is_len_of(a, pname):
            continue
        c = _cval(b)
        if c is None:
            continue
        if op == "Ge" and c >= k:
            return True
        if op == "Gt" and c >= k - 1:
            return True
        if op == "Eq" and c >= k:
            return True
    return False


def check_min_len(ctx, rule, P, fn_key, pname, k, extra_blocks=None):
    """Every success exit (and every block in extra_blocks(fn, ev)) is dominated by len(param) >= k."""
    fn = ctx.need_fn(rule, fn_key, P)
    if fn is None:
        return False
    ev = evaluate(fn)
    exs = ok_exits(P, fn, ev) + [(b, G.path_literals(ev, b, P, checks_only=True)) for b in (extra_blocks(fn, ev) if extra_blocks else [])]
    blocks = [b for b, _ in exs]
    if not blocks:
        return ctx.ob(rule + ".anchor", fn_key, False, "no success exit found in `%s`" % fn_key, where=where(fn))
    bad = [b for b, lits in exs if not len_at_least(lits, pname, k)]
    return ctx.ob(rule, "%s/len(%s)>=%d" % (fn_key, pname, k), not bad, "every success exit of `%s` requires len(%s) >= %d%s" % (fn_key, pname, k, "" if not bad else " - bb%s reachable without the length guard" % bad), where=where(fn, bad[0]) if bad else where(fn))


def closure_true_implies(P, clo):
    """Literals (in the caller's terms) that hold whenever the bool closure `clo` returns true: the intersection, over
    the ways of producing a result that is not the constant false, of the path literals and of what the result itself
    implies.  Short-circuit `a && b` bodies are branches in MIR, so this is read off the closure's control flow."""
    c = clo
    while c.op in ("ref", "deref"):
        c = c.a[0]
    if not (c.op == "agg" and c.a[0][0] == "closure"):
        return set()
    g = P.fns.get(c.a[0][1]) or getattr(P, "helpers", {}).get(c.a[0][1])
    if g is None:
        return set()
    gev = evaluate(g)
    acc = None
    for b in sorted(g.cfg.reachable):
        if not any(st["k"] == "assign" and st["place"].get("l") == 0 and "p" not in st["place"] for st in g.blocks[b]["stmts"]):
            continue
        v = (gev.exit_state.get(b) or {}).get(0)
        if v is None:
            return set()
        vs = strip_sites(v)
        if vs.op == "const" and vs.a[0] == "int" and vs.a[1] == 0:
            continue
        lits = set(G.path_literals(gev, b, P)) | set(G.literals(G.formula(v, P), True))
        acc = lits if acc is None else (acc & lits)
    if not acc:
        return set()
    envp = T("param", 1, gev.pname(1))
    cap = {}
    for i, x in enumerate(c.a[1]):
        for base in (envp, T("deref", envp)):
            cap[T("field", base, str(i))] = strip_sites(x)
    return subst_literals(acc, cap, P)


_SET_LENS = ("HashSet::<T, S, A>::len", "BTreeSet::<T, A>::len", "HashSet::<T, S>::len", "BTreeSet::<T>::len")
_VEC_LENS = ("Vec::<T, A>::len", "slice::<impl [T]>::len")


def variant_census(P, t, list_param):
    """Is `t` the number of distinct enum variants in use over the WHOLE list?  `list.iter().map(mem::discriminant)`
    collected into a set and counted, or collected into a Vec, `dedup`ed and counted (runs of equal neighbours collapse:
    one run is left exactly when all are equal; more than one run means two neighbours differ).  Either way
    "count <= 1" says every element has the variant of the first."""
    t = strip_sites(t)
    if not (t.op == "call" and len(t.a[1]) == 1):
        return False
    n = B.cname(t)
    x = t.a[1][0]
    while x.op in ("ref", "deref"):
        x = x.a[0]
    if n in _VEC_LENS:
        k = 0
        while x.op == "call" and len(x.a[1]) == 1 and B.cname(x) in ("Vec::<T, A>::as_slice", "Deref::deref", "AsRef::as_ref") and k < 4:
            x = x.a[1][0]
            while x.op in ("ref", "deref"):
                x = x.a[0]
            k += 1
        if not (x.op == "mutcall" and B.cname(x) == "Vec::<T, A>::dedup" and x.a[1] == 0 and len(x.a[2]) == 1):
            return False
        x = x.a[2][0]
        while x.op in ("ref", "deref"):
            x = x.a[0]
    elif n not in _SET_LENS:
        return False
    if not (x.op == "call" and B.cname(x) in ("Iterator::collect", "FromIterator::from_iter") and len(x.a[1]) == 1):
        return False
    m = x.a[1][0]
    if not (m.op == "call" and B.cname(m) == "Iterator::map" and len(m.a[1]) == 2):
        return False
    if covers_all(m.a[1][0], list_param) != "all":
        return False
    fnv = B.peel(m.a[1][1])
    if fnv.op == "const" and fnv.a[0] == "fn" and fnv.a[1][0] in ("core::discriminant", "std::mem::discriminant", "core::mem::discriminant", "discriminant"):
        return True
    body = G.apply_closure(P, m.a[1][1], [])
    if body is not None:
        body = B.peel(strip_sites(body))
        if body.op == "call" and B.cname(body).split("::")[-1] == "discriminant" and len(body.a[1]) == 1:
            z = B.peel(body.a[1][0])
            return z.op == "param" and z.a[0] >= 2
    return False


def census_says_uniform(P, lits, list_param):
    """Among the literals: the variant census of the whole list is at most one."""
    for atom, pol in lits:
        if not (atom[0] == "atom" and atom[1] == "cmp"):
            continue
        op, a, b = atom[2], atom[3], atom[4]
        c = B._const_int(b) if hasattr(b, "op") else None
        if c is None or not hasattr(a, "op"):
            continue
        le1 = (op, c, pol) in (("Gt", 1, False), ("Ge", 2, False), ("Le", 1, True), ("Lt", 2, True), ("Eq", 1, True), ("Ne", 1, False), ("Eq", 0, True), ("Lt", 1, True))
        if le1 and variant_census(P, a, list_param):
            return True
    return False


def scheme_validation_loops(P, f, list_param):
    """Loops over list[1..] (or the whole list) whose every iteration tests same_scheme(element, list[0]) and leaves the
    function through Err when it is false: [(coverage, header, body blocks, exhaustion edges)]."""
    ev = evaluate(f)
    cfg = f.cfg
    oks = set(ok_blocks(f))
    errs = set(err_blocks(f))
    out = []
    for src_b, h in cfg.back_edges():
        body = set(cfg.natural_loop(src_b, h))
        srcs = [s_ for bb, s_ in loop_sources(f) if bb in body]
        if len(srcs) != 1 or covers_all(srcs[0], list_param) not in ("all", "tail1"):
            continue
        for b in sorted(body):
            t = f.blocks[b]["term"]
            d = ev.switch.get(b)
            if t["k"] != "switch" or d is None:
                continue
            fm = G.formula(d, P)
            neg = False
            if fm[0] == "not":
                fm, neg = fm[1], True
            if not (fm[0] == "atom" and fm[1] == "term" and fm[2].op == "call" and B.cname(fm[2]).endswith("::same_scheme")):
                continue
            xs = [B.peel(z) for z in fm[2].a[1]]

            def of_list(z):
                return z.op == "index" and B.peel(z.a[0]).op == "param" and B.peel(z.a[0]).a[1] == list_param

            has0 = any(of_list(z) and B._const_int(z.a[1]) == 0 for z in xs)
            rng = B.peel(strip_sites(srcs[0]))
            while rng.op == "call" and B.cname(rng) == "IntoIterator::into_iter" and len(rng.a[1]) == 1:
                rng = B.peel(rng.a[1][0])
            by_index = rng.op == "agg" and rng.a[0][0] == "adt" and rng.a[0][1] == "Range"
            if by_index:
                has_elem = any(of_list(z) and any(y.op == "call" and B.cname(y) == "Iterator::next" for y in subterms(z.a[1])) for z in xs)
            else:
                has_elem = any(any(y.op == "call" and B.cname(y) == "Iterator::next" for y in subterms(z)) and not any(y.op == "index" for y in subterms(z)) for z in xs)
            if not (has0 and has_elem):
                continue
            false_tgt = [tg for v, tg in t["arms"] if v == 0]
            false_tgt = false_tgt[0] if false_tgt else None
            bad_tgt = t["otherwise"] if neg else false_tgt
            if bad_tgt is None:
                continue
            reach = cfg.reach_from(bad_tgt)
            if (reach & errs) and not (reach & oks) and not (reach & {h}) and cfg.dominates(b, src_b):
                # exhaustion edges: the None arm of the switch on the loop's Iterator::next
                exh = set()
                for b2 in body:
                    t2 = f.blocks[b2]["term"]
                    d2 = ev.switch.get(b2)
                    if t2["k"] == "switch" and d2 is not None and d2.op == "discr" and B.peel(d2.a[0]).op == "call" and B.cname(B.peel(d2.a[0])) == "Iterator::next":
                        for v, tg in t2["arms"]:
                            if v == 0 and tg not in body:
                                exh.add((b2, tg))
                        if t2["otherwise"] not in body and all(v != 0 for v, _ in t2["arms"]) and any(v == 1 for v, _ in t2["arms"]):
                            exh.add((b2, t2["otherwise"]))
                out.append((covers_all(srcs[0], list_param), h, body, exh))
    return out


def _only_by_exhaustion(f, body, exh, target):
    """Every edge that leaves the loop body towards `target` is one of the loop's exhaustion edges."""
    cfg = f.cfg
    for u in body:
        for v in cfg.succ[u] if not isinstance(cfg.succ, dict) else cfg.succ.get(u, []):
            v_ = v[0] if isinstance(v, tuple) else v
            if v_ in body:
                continue
            if (target == v_ or target in cfg.reach_from(v_)) and (u, v_) not in exh:
                return False
    return True


def check_same_scheme_guard(ctx, rule, P, fn_key, list_param):
    """Every accumulated element is first compared with the list's first element by same_scheme (mixed => Err):
    where the element is added, `same_scheme(elem, first)` holds - in a loop body or in a fold / try_fold closure."""
    from . import flow as F

    fn = ctx.need_fn(rule, fn_key, P)
    if fn is None:
        return False
    accs = F.accumulators(P, fn)
    if not accs:
        return ctx.ob(rule + ".anchor", fn_key + "/accumulate", False, "accumulation (`+=`, fold, try_fold) not found in `%s`" % fn_key, where=where(fn))

    def first(z):
        z = B.peel(z)
        if z.op == "index" and B.peel(z.a[0]).op == "param" and B.peel(z.a[0]).a[1] == list_param and B._const_int(z.a[1]) == 0:
            return True
        if z.op == "call" and B.cname(z) == "Index::index" and len(z.a[1]) == 2 and B.peel(z.a[1][0]).op == "param" and B.peel(z.a[1][0]).a[1] == list_param and B._const_int(z.a[1][1]) == 0:
            return True
        return False

    ok = True
    for a in accs:
        good = False
        for atom, pol in a["lits"]:
            if pol and atom[0] == "atom" and atom[1] == "term":
                t = atom[2]
                if t.op == "call" and B.cname(t).endswith("::same_scheme") and len(t.a[1]) == 2:
                    x, y = [B.peel(z) for z in t.a[1]]
                    def elem(z):
                        # the loop element (an Iterator::next result) or the closure's item parameter
                        if any(s.op == "index" and B.peel(s.a[0]).op == "param" and B.peel(s.a[0]).a[1] != list_param for s in subterms(z)):
                            return False
                        if any(s.op == "call" and B.cname(s) == "Iterator::next" for s in subterms(z)):
                            return True
                        return a["mode"] != "loop" and any(s.op == "param" and s.a[0] >= 2 for s in subterms(z))
                    if (first(x) and elem(y)) or (first(y) and elem(x)):
                        good = True
        if not good:
            # an up-front pass over the same range: `if tail.iter().any(|s| !s.same_scheme(first)) { return Err }` (or
            # `!all(..)`) dominates the accumulation, and the accumulation runs over exactly that range
            for atom, pol in a["lits"]:
                if not (atom[0] == "atom" and atom[1] == "term" and atom[2].op == "call"):
                    continue
                qn = B.cname(atom[2])
                if not ((qn == "Iterator::all" and pol) or (qn == "Iterator::any" and not pol)) or len(atom[2].a[1]) != 2:
                    continue
                body = G.apply_closure(P, atom[2].a[1][1], [])
                if body is None:
                    continue
                fm = G.formula(body, P)
                if qn == "Iterator::any":
                    fm = G.f_not(fm)
                implied = set(G.literals(fm, True))
                if qn == "Iterator::all":
                    implied |= closure_true_implies(P, atom[2].a[1][1])
                is_item = lambda z: any(s_.op == "param" and s_.a[0] >= 2 for s_ in subterms(z))
                hit = False
                # adjacent pairs: `list.windows(2).all(|w| w[0].same_scheme(&w[1]))` - every element has the scheme of its
                # neighbour, hence (by transitivity of "same variant") of the first
                qsrc = B.peel(strip_sites(atom[2].a[1][0]))
                if qsrc.op == "call" and B.cname(qsrc) == "slice::<impl [T]>::windows" and len(qsrc.a[1]) == 2 and B._const_int(qsrc.a[1][1]) == 2 and covers_all(qsrc.a[1][0], list_param) == "all":
                    for at2, pol2 in implied:
                        if pol2 and at2[0] == "atom" and at2[1] == "term" and at2[2].op == "call" and B.cname(at2[2]).endswith("::same_scheme") and len(at2[2].a[1]) == 2:
                            idx = sorted(B._const_int(z.a[1]) if z.op == "index" else (B._const_int(z.a[1][1]) if z.op == "call" and B.cname(z) == "Index::index" else -1) for z in [B.peel(q) for q in at2[2].a[1]])
                            if idx == [0, 1]:
                                good = True
                    if good:
                        break
                for at2, pol2 in implied:
                    if pol2 and at2[0] == "atom" and at2[1] == "term" and at2[2].op == "call" and B.cname(at2[2]).endswith("::same_scheme") and len(at2[2].a[1]) == 2:
                        x, y = [B.peel(z) for z in at2[2].a[1]]
                        if (first(x) and is_item(y)) or (first(y) and is_item(x)):
                            hit = True
                if not hit:
                    continue
                qcov = covers_all(strip_sites(atom[2].a[1][0]), list_param)
                acov = covers_all(a["source"], list_param) if a.get("source") is not None else None
                if qcov is not None and (qcov == acov or qcov == "all"):
                    good = True
        if not good:
            # a validation pass of its own: an earlier loop over the same range (or the whole list) compares every element
            # with the first and leaves through Err on a mismatch; the accumulation is reached only over its exhaustion edge
            vl = scheme_validation_loops(P, fn, list_param)
            acov = covers_all(a["source"], list_param) if a.get("source") is not None else None
            site_fn, site_bb = (a["fn"], a["bb"]) if a["mode"] == "loop" else (fn, a.get("site_bb"))
            for cov_, h_, body_, exh_ in vl:
                if site_fn is fn and site_bb is not None and site_bb not in body_ and (cov_ == "all" or cov_ == acov) and _only_by_exhaustion(fn, body_, exh_, site_bb):
                    good = True
        if not good and census_says_uniform(P, list(a["lits"]) + list(a.get("outer") or []), list_param):
            # `sigs.iter().map(mem::discriminant)` collected into a set (or a dedup'ed Vec) has at most one entry
            good = True
        ok = ok and good
    return ctx.ob(rule, fn_key + "/same_scheme", ok, "every accumulated element is first compared with %s[0] by same_scheme (mixed schemes => Err) [%s]" % (list_param, ", ".join(a["mode"] for a in accs)), where=where(accs[0]["fn"], accs[0]["bb"]))


def loop_sources(fn):
    """Terms iterated by `for` loops: argument of IntoIterator::into_iter feeding Iterator::next in a loop."""
    ev = evaluate(fn)
    out = []
    for b, s in ev.sites.items():
        if s.callee[0] == "Iterator::next":
            it = B.peel(s.args[0])
            if it.op == "loop":
                out.append((b, strip_sites(it.a[2])))
    return out


def covers_all(src, list_param):
    """Does iterating `src` together with a separate use of list[0] cover every element?
    Returns 'all' (whole list), 'tail1' (list[1..] / skip(1)), or None."""
    t = src
    while t.op in ("ref", "deref") or (t.op == "call" and B.cname(t) in ("IntoIterator::into_iter", "slice::<impl [T]>::iter", "Iterator::enumerate", "Iterator::copied", "Iterator::cloned", "AsRef::as_ref", "Deref::deref", "Vec::<T, A>::as_slice", "Borrow::borrow")):
        t = t.a[0] if t.op in ("ref", "deref") else t.a[1][0]
    if t.op == "param" and t.a[1] == list_param:
        return "all"
    if t.op == "call" and B.cname(t) == "Index::index":
        base = B.peel(t.a[1][0])
        rng = B.peel(t.a[1][1])
        if base.op == "param" and base.a[1] == list_param and rng.op == "agg" and rng.a[0][1] == "RangeFrom" and B._const_int(rng.a[1][0]) == 1:
            return "tail1"
    if t.op == "agg" and t.a[0][0] == "adt" and t.a[0][1] == "Range" and len(t.a[1]) == 2:
        # `for i in 0..list.len()` / `1..list.len()`: the positions of the list (that the element used is list[i] is
        # the accumulator's / the guard's business, see flow.accumulators)
        e = B.peel(t.a[1][1])
        if e.op == "call" and B.cname(e) in ("slice::<impl [T]>::len", "Vec::<T, A>::len") and len(e.a[1]) == 1 and B.peel(e.a[1][0]).op == "param" and B.peel(e.a[1][0]).a[1] == list_param:
            c = B._const_int(t.a[1][0])
            if c == 0:
                return "all"
            if c == 1:
                return "tail1"
    if t.op == "subslice" and t.a[3] is True and t.a[1] == 1 and t.a[2] == 0:
        # `[first, rest @ ..]` slice pattern: rest = list[1..]
        base = B.peel(t.a[0])
        if base.op == "param" and base.a[1] == list_param:
            return "tail1"
    if t.op == "call" and B.cname(t) == "Iterator::skip" and B._const_int(t.a[1][1]) == 1:
        inner = covers_all(t.a[1][0], list_param)
        if inner == "all":
            return "tail1"
    return None


SCALAR_IMPORTERS = ("helpers::scalar_from_be_bytes", "helpers::scalar_from_le_bytes")
REDUCING_DECODERS = ("scalar_from_bytes_wide", "from_bytes_wide", "from_okm", "from_uniform_bytes", "reduce", "from_be_bytes_mod_order", "from_le_bytes_mod_order")


def _flag_rejects_zero(P, ev):
    """Every value the function returns is a CtOption whose is_some flag has the conjunct !is_zero(input)."""
    ret = strip_sites(ev.ret)
    alts = list(ret.a[0]) if ret.op == "phi" else [ret]
    if not alts:
        return False
    for a in alts:
        fm = G.formula(T("call", ("CtOption::<T>::is_some", ()), (a,)), P)
        if fm == G.FALSE:
            continue
        lits = G.literals(fm, True)
        if not has_literal(lits, "is_zero", ("param", "input"), False):
            return False
    return True


def check_scalar_zero_guard(ctx, rule, P):
    """The byte importers of scalars reject the all-zero string: in each helper every from_repr call is dominated by
    !is_zero(input); a helper that has no from_repr of its own must hand its input to the sibling importer (which is checked)."""
    for fk in SCALAR_IMPORTERS:
        fn = ctx.need_fn(rule, fk, P)
        if fn is None:
            continue
        ev = evaluate(fn)
        own = [b for b, s in sorted(ev.sites.items()) if s.callee[0] == "PrimeField::from_repr"]
        deleg = [(b, s) for b, s in sorted(ev.sites.items()) if s.callee[0] in SCALAR_IMPORTERS and s.callee[0] != fk]
        if own and _flag_rejects_zero(P, ev):
            # branch-free form: the option that is returned carries `!is_zero(input)` as a conjunct of its is_some flag
            ctx.ob(rule, "%s/!is_zero(%s)" % (fk, "input"), True, "the returned CtOption is some only if !is_zero(input): the flag is a conjunction containing it (subtle's and_then / new algebra)", where=where(fn))
        elif own:
            check_result_guard(ctx, rule, P, fk, "is_zero", ("param", "input"), exits=lambda f_, e_: own)
        elif deleg:
            for b, s in deleg:
                arg = strip_sites(s.args[0]) if s.args else None
                dep = arg is not None and any(t.op == "param" and t.a[1] == "input" for t in subterms(arg))
                ret_is_call = any(t.op == "call" and B.cname(t) == s.callee[0] for t in subterms(strip_sites(ev.ret))) if ev.ret is not None else False
                ctx.ob(rule, "%s/delegates" % fk, dep and ret_is_call, "%s has no from_repr of its own: it returns %s(<image of input>) (the sibling importer carries the zero test)" % (fk, s.callee[0]), where=where(fn, b))
        red = [(b, s) for b, s in sorted(ev.sites.items()) if s.callee[0].split("::")[-1] in REDUCING_DECODERS]
        for b, s in red:
            ctx.ob(rule + ".canonical", "%s/%s" % (fk, s.callee[0].split("::")[-1]), False, "%s decodes through the reducing `%s`: distinct byte strings (x, x+r, ..) import as the same scalar and r itself imports as zero - the byte importers must use the canonical, range-checking PrimeField::from_repr" % (fk, s.callee[0]), where=where(fn, b))
        if own or deleg or red:
            pass
        else:
            ctx.ob(rule + ".anchor", "%s/is_zero(input)" % fk, False, "neither a from_repr call nor a delegation to the sibling importer found in `%s` (anchor changed shape)" % fk, where=where(fn))


def check_scalar_importer_rejects(ctx, rule, P):
    """Round trip of scalars through the byte importers: an importer may refuse its input only through (a) the
    all-zero test and (b) the field's own canonical decoder (from_repr refuses values >= r).  Every other constant
    "none" result is a rejection of inputs that to_repr can produce."""
    n = 0
    for fk in SCALAR_IMPORTERS:
        fn = ctx.need_fn(rule, fk, P)
        if fn is None:
            continue
        ev = evaluate(fn)
        for bb, val, flag in ctoption_sites(P, fn):
            if G.formula(flag, P) != G.FALSE:
                continue
            n += 1
            lits = G.path_literals(ev, bb, P, checks_only=True)
            ok = has_literal(lits, "is_zero", ("param", "input"), True)
            conds = sorted(G.show_f(a, 3) + ("" if p else " [false]") for a, p in lits)
            ctx.ob(rule, "%s/none@%s" % (fk, "zero" if ok else "other"), ok, "%s returns a constant `none` %s (path condition: %s)" % (fk, "only for the all-zero string" if ok else "under a condition that is not implied by the all-zero test: some non-zero canonical scalars are refused", conds[:3]), where=where(fn, bb))
    return n
