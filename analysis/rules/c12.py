"""C12 - threshold signcryption decryption."""
from ..core.sym import evaluate, strip_sites
from ..core.terms import show, subterms
from ..core import guards as G
from ..core import bytesnf as B
from .common import where, check_arm_purity, check_tag_control_dependence, scheme_context
from . import guardrules as R
from . import flow as F
from . import constructions as K

EXPLANATION = (
    "Decides the share-handling glue: SignDecryptionShare::verify, decrypt_with_shares and SignCryptDecryptionKey::decrypt take the "
    "tag from the ciphertext's own scheme (control dependence on the scheme variant; a proof-of-possession-purpose tag anywhere "
    "outside the prove/verify pair is a violation); verify_share is the conjunction !id(share) & !id(pk) & !id(w) & "
    "is_identity(pairing[(-H(U‖V,dst), share), (W, pk)]) and its wrapper decodes both payloads through the checked conversion and "
    "forwards u, v, w of the given ciphertext; a decryption share is u * as_field_element(secret share) with the share's identifier; "
    "decrypt_with_shares / from_shares forward every share (1:1 map), fewer than two shares yield the constant-0 option, and the "
    "flag of the result is valid(u,v,w,dst). Not decided: Lagrange interpolation, 'fewer than t never decrypt'."
)
RULE = "E2-B tag control dependence; E4 Choice algebra; E6 pass-through / dependence; E7 adapter deny-list"


def run(ctx):
    P = ctx.P
    fks = ["SignDecryptionShare<C>::verify", "SignCryptCiphertext<C>::decrypt_with_shares", "SignCryptDecryptionKey<C>::decrypt", "SignCryptCiphertext<C>::create_decryption_share"]
    fns = [f for f in (ctx.need_fn("E2", k) for k in fks) if f is not None]
    from .common import with_mappers, check_dispatching

    check_arm_purity(ctx, "E2-A", P, with_mappers(P, fns))
    check_dispatching(ctx, "E2-A", P, [f for f in fns if f.key != "SignCryptCiphertext<C>::create_decryption_share"])
    check_tag_control_dependence(ctx, "E2-B", P, only={g.key for g in with_mappers(P, fns)})
    # any t distinct shares open the ciphertext, in any order
    F.check_order_insensitive(ctx, "E4.set-order", P, ("BlsSignCrypt::unseal_with_shares", "SignCryptCiphertext<C>::decrypt_with_shares", "SignCryptDecryptionKey<C>::from_shares", "BlsSignatureCore::core_combine_public_key_shares"))
    from . import aborts as A_

    A_.check_aborts(ctx, "E8", P, ["SignCryptCiphertext<C>::decrypt_with_shares", "SignDecryptionShare<C>::verify", "SignCryptDecryptionKey<C>::from_shares"], scope="C12")
    # threshold decryption is offered for every scheme label (the label only selects the tag)
    from . import spec as SP

    for fk_, root_ in (("SignCryptCiphertext<C>::create_decryption_share", ("self", ".scheme")), ("SignDecryptionShare<C>::verify", ("sig", ".scheme"))):
        g_ = P.fns.get(fk_)
        if g_ is not None:
            SP.check_scheme_total(ctx, "E2.total", P, g_, root_)
    f = P.fns.get("SignDecryptionShare<C>::verify")
    if f is not None:
        ev = evaluate(f)
        vs = [s for s in ev.sites.values() if s.callee[0] == "BlsSignCrypt::verify_share"]
        ctx.ob("E6.share-verify.anchor", f.key, len(vs) == 1, "%d call(s) to verify_share" % len(vs), where=where(f))
        for s in vs:
            a = [strip_sites(x) for x in s.args]
            chk = ["as_group_element" in show(x, 8) for x in a[:2]]
            roots = [F.projection_root(x) for x in a[2:5]]
            names = [(r[0].a[1] + r[1]) if r else None for r in roots]
            dst_ok = any(t.op == "assoc" for t in subterms(a[5]))
            ctx.ob("E6.share-verify", f.key, all(chk) and names == ["sig.u", "sig.v", "sig.w"] and dst_ok, "verify_share(checked(self), checked(pks), sig.u, sig.v, sig.w, tag-by-scheme): checked=%s fields=%s" % (chk, names), where=where(f, s.bb))
        from .common import scheme_roots

        roots = scheme_roots(P, f)
        ctx.ob("E2.own-scheme", f.key, bool(roots) and all(r == "sig.scheme" for r in roots), "share verification selects the tag by %s (want the ciphertext's scheme `sig.scheme`)" % roots, where=where(f))
        oks = R.ok_exits(P, f, ev, inline_bools=False)
        good = bool(oks)
        for b, lits in oks:
            good = good and any(p and a[1] == "term" and a[2].op == "call" and B.cname(a[2]) == "BlsSignCrypt::verify_share" for a, p in lits)
        ctx.ob("E4.share-verify", f.key + "/ok", good, "Ok(()) only on the true edge of verify_share(..)", where=where(f))
        # ... and no refusal of its own: every Err exit is the false edge of verify_share, a decoder's failure (the `?` on
        # as_group_element / from_bytes ..) or the scheme's refusal - a guard on the share's identifier or bytes refuses
        # shares that satisfy the relation
        _VERDICTS = ("verify_share", "as_group_element", "as_field_element", "from_bytes", "from_slice", "try_from", "try_into", "from_repr")
        for b in R.err_blocks(f):
            lits = G.path_literals(ev, b, P, checks_only=True)
            by_verdict = any(hasattr(x, "op") and any(t.op == "call" and B.cname(t).split("::")[-1] in _VERDICTS for t in subterms(strip_sites(x))) for a, p in lits for x in a[2:])
            by_scheme = any(a[1] in ("switch", "switch_not") and hasattr(a[2], "op") and a[2].op == "discr" and any(t.op == "field" and str(t.a[1]) == "scheme" for t in subterms(strip_sites(a[2]))) for a, p in lits)
            # (a disjunctive guard `if a | b { return Err }` leaves no literal on its true edge: an Err exit behind a branch
            # with no verdict literal at all is a refusal of the function's own just as well)
            conditional = any(f.blocks[x]["term"]["k"] == "switch" and len(f.cfg.succ[x]) > 1 and f.cfg.dominates(x, b) for x in f.cfg.reachable if x != b)
            ctx.ob("E4.share-verify", "%s/err@bb%d" % (f.key, b), by_verdict or by_scheme or not conditional, "an Err exit of share verification is the false edge of verify_share, a decoder's failure or the scheme's refusal (verdict literal=%s, scheme literal=%s): %s" % (by_verdict, by_scheme, "; ".join(G.show_lit(a, p) if hasattr(G, "show_lit") else str(a[1]) for a, p in lits)[:200]), where=where(f, b))
    g = ctx.need_fn("E4.verify_share", "BlsSignCrypt::verify_share")
    if g is not None:
        ev = evaluate(g)
        fm = G.formula(ev.ret, P)
        conj = G.conjuncts(fm)
        for nm in ("share", "pk", "w"):
            R.check_flag_conjunct(ctx, "E4.verify_share", P, g.key, ev.ret, "is_identity", ("param", nm), False, nm)
        pair = [c for c in conj if c[0] == "atom" and c[1] == "is_identity" and c[2].op == "call" and B.cname(c[2]) == "Pairing::pairing"]
        ok = len(pair) == 1 and len(conj) == 4
        if ok:
            names = {s.a[1] for s in subterms(pair[0][2]) if s.op == "param"}
            neg = [s for s in subterms(pair[0][2]) if s.op == "call" and B.cname(s) == "Neg::neg"]
            cw = [s for s in subterms(pair[0][2]) if s.op == "call" and B.cname(s) == "BlsSignCrypt::compute_w"]
            ok = {"share", "pk", "u", "v", "w", "dst"} <= names and len(cw) == 1  # sign / operand placement: E5.equation
        ctx.ob("E4.verify_share", g.key + "/equation", ok, "verify_share = %s (want 3 identity guards & pairing[(-compute_w(u,v,dst), share), (w, pk)])" % G.show_f(fm, 3)[:260], where=where(g))
    from . import equations as EQ

    EQ.check_pairing_equation(ctx, "E5.equation", P, "BlsSignCrypt::verify_share", {("cw", "share"): -1, ("w", "pk"): 1}, "e(-compute_w(u, v, dst), share) * e(w, pk)")
    # decryption share value/identifier (shared with C08)
    from .c08 import run as _  # noqa: F401  (module provides the share-construction rule below)
    from . import c08

    f = ctx.need_fn("E6.share", "SignCryptCiphertext<C>::create_decryption_share")
    if f is not None:
        ev = evaluate(f)
        ss = [s for s in ev.sites.values() if s.callee[0] == "BlsSignatureCore::public_key_share_with_generator"]
        ok = bool(ss) and [F.projection_root(strip_sites(a)) and (F.projection_root(strip_sites(a))[0].a[1] + F.projection_root(strip_sites(a))[1]) for a in ss[0].args] == ["sks.0", "self.u"]
        ctx.ob("E6.share", f.key, ok, "decryption share = public_key_share_with_generator(secret share, self.u)", where=where(f))
    h = ctx.need_fn("E6.share", "BlsSignatureCore::public_key_share_with_generator")
    if h is not None:
        ev = evaluate(h)
        vm = [s for s in ev.sites.values() if s.callee[0] == "Share::value_mut"]
        okv = bool(vm) and any(t.op == "call" and B.cname(t) == "Mul::mul" and any(x.op == "param" and x.a[1] == "generator" for x in subterms(t)) and any(x.op == "call" and B.cname(x) == "Share::as_field_element" for x in subterms(t)) for t in subterms(vm[0].args[1]))
        idw = [t for t in subterms(ev.ret) if t.op == "store" and strip_sites(t.a[2]).op == "call" and B.cname(strip_sites(t.a[2])) == "Share::identifier"]
        ctx.ob("E6.share", h.key, okv and bool(idw), "value = to_bytes(generator * as_field_element(share)); identifier copied from the secret share", where=where(h))
    # unseal_with_shares
    u = ctx.need_fn("E4.shares", "BlsSignCrypt::unseal_with_shares")
    if u is not None:
        ev = evaluate(u)
        dec = [s for s in ev.sites.values() if s.callee[0] == "BlsSignCrypt::decrypt"]
        ok = False
        if dec:
            lits = G.path_literals(ev, dec[0].bb, P, checks_only=True)
            ok = R.len_at_least(lits, "shares", 2)
            ua = strip_sites(dec[0].args[1])
            comb = [t for t in subterms(ua) if t.op == "call" and B.cname(t) == "vsss_rs::combine_shares_group"]
            ok = ok and bool(comb) and B.peel(comb[0].a[1][0]).op == "param" and B.peel(comb[0].a[1][0]).a[1] == "shares"
        ctx.ob("E4.shares", u.key, ok, "decryption with shares requires len(shares) >= 2 and combines the whole slice", where=where(u))
        # what decrypt returns is what unseal_with_shares returns (no filtering of the opened message afterwards)
        if dec:
            gr = strip_sites(ev.ret)
            alts = list(gr.a[0]) if gr.op == "phi" else [gr]
            dv = strip_sites(dec[0].value)
            bad = [show(a_, 3) for a_ in alts if a_ != dv and not (a_.op == "call" and B.cname(a_) == "CtOption::<T>::new" and len(a_.a[1]) == 2 and G.formula(a_.a[1][1], P) == G.FALSE)]
            ctx.ob("E6.pass", u.key + "/result", not bad, "unseal_with_shares returns the result of decrypt itself (or a constant rejection)%s" % ("" if not bad else "; other results: %s" % bad[:2]), where=where(u, dec[0].bb))
        cts = [c for c in R.ctoption_sites(P, u)]
        ctx.ob("E4.shares", u.key + "/reject", any(G.formula(c[2], P) == G.FALSE for c in cts), "fewer than two shares yield a constant-0 option", where=where(u))
    from . import protocols as PR_

    PR_.check_decrypt_passthrough(ctx, P)
    F.check_combiner_lengths(ctx, "E4.len-range", P)
    d = ctx.need_fn("E6.combine", "SignCryptCiphertext<C>::decrypt_with_shares")
    if d is not None:
        F.check_no_dropping_adapters(ctx, "E7.adapters", P, [d.key, "SignCryptDecryptionKey<C>::from_shares"])
        ev = evaluate(d)
        ss = [s for s in ev.sites.values() if s.callee[0] == "BlsSignCrypt::unseal_with_shares"]
        ok = False
        if ss:
            t = strip_sites(ss[0].args[3])
            x = t
            while x.op in ("ref", "deref") or (x.op == "call" and B.cname(x) in ("Deref::deref", "Vec::<T, A>::as_slice", "Iterator::collect", "AsRef::as_ref")):
                x = x.a[0] if x.op in ("ref", "deref") else x.a[1][0]
            ok = x.op == "call" and B.cname(x) == "Iterator::map" and R.covers_all(x.a[1][0], "shares") == "all"
            if not ok:
                # the same list built by a loop that pushes once per share (or another 1:1 pipeline)
                src_, steps_ = F.image_source(P, d, ev, ss[0].args[3])
                ok = src_ is not None and B.peel(src_).op == "param" and B.peel(src_).a[1] == "shares"
        ctx.ob("E6.combine", d.key, ok, "every decryption share is forwarded (1:1 map over the whole list)", where=where(d))
    # C11 flag provenance for the share path
    callers = [(g2, bb) for g2, bb, t in P.callers().get("BlsSignCrypt::decrypt", []) if g2.key in ("BlsSignCrypt::unseal_with_shares", "SignCryptDecryptionKey<C>::decrypt")]
    for g2, bb in callers:
        s = evaluate(g2).sites[bb]
        fl = strip_sites(s.args[2])
        ctx.ob("E6.flag", g2.key, fl.op == "call" and B.cname(fl) == "BlsSignCrypt::valid", "result flag is valid(u,v,w,dst): %s" % show(fl, 3), where=where(g2, bb))
    from .posctl import run_posctl

    run_posctl(ctx, "E7.adapters", "adapters")
