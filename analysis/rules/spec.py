"""Scheme-specialised views: evaluate a function under the assumption "this scheme-tagged value is variant V".

Instead of reasoning about which block is dominated by which arm (which breaks when a call is hoisted out of
the `match`, when arms are merged by an or-pattern, or when the choice goes through a small mapper function),
the body is re-evaluated with the contradicting switch edges removed.  In the specialised evaluation the tag
handed to a sink is a single constant and the message construction a single term, whatever the shape of the
dispatch code."""
from itertools import product

from ..core.sym import evaluate, strip_sites, place_root, _rebuild
from ..core.terms import T, show, subterms, subst
from ..core import guards as G
from ..core import bytesnf as B
from .common import SCHEME_VARIANTS, with_mappers, where


def switch_roots(P, f, adts=None, computed=False):
    """[(root(param name, path), adt name)] of switches on scheme-tagged enums in f, plus the roots handed to local
    mapper functions that do the dispatch.  With computed=True switches on computed values (a decoded tag) are
    included as roots ("@", term)."""
    adts = adts or P.scheme_adts()
    ev = evaluate(f)
    out = []
    for b, d in sorted(ev.switch.items()):
        v = G.variant_of_switch(P, f, b, 0)
        if v and v[0] in adts and d is not None and d.op == "discr":
            r = place_root(strip_sites(d).a[0])
            if r is None and computed:
                r = ("@", strip_sites(d).a[0])
            if r and (r, v[0]) not in out:
                out.append((r, v[0]))
    # a scheme value compared with `==` / `!=` (derived, field-less enum) is dispatched on just as well
    for b, s_ in sorted(ev.sites.items()):
        if s_.callee[0] in ("PartialEq::eq", "PartialEq::ne") and s_.callee[1] and str(s_.callee[1][0]).split("<")[0] in adts and len(s_.args) == 2:
            adt = str(s_.callee[1][0]).split("<")[0]
            if any(v.get("fields") for v in P.adts[adt]["variants"]):
                continue
            for a in s_.args:
                r = place_root(strip_sites(a))
                if r and (r, adt) not in out:
                    out.append((r, adt))
    for g in with_mappers(P, [f]):
        if g is f:
            continue
        for (gp, gpath), adt in switch_roots(P, g, adts):
            # parameter index of gp in g
            idx = next((i for i in range(1, g.arg_count + 1) if g.locals[i].get("name") == gp), None)
            if idx is None:
                continue
            for bb, s in sorted(ev.sites.items()):
                if s.callee[0] == g.key and idx - 1 < len(s.args):
                    r = place_root(strip_sites(s.args[idx - 1]))
                    if r:
                        rr = (r[0], r[1] + gpath)
                        if (rr, adt) not in out:
                            out.append((rr, adt))
    return out


def assumptions(P, f, adts=None, computed=False):
    """All assignments of variants to the scheme roots of f: list of dicts root -> variant."""
    roots = switch_roots(P, f, adts, computed)
    if not roots:
        return [{}]
    names = []
    for r, adt in roots:
        names.append([v["name"] for v in P.adts[adt]["variants"]])
    out = []
    for combo in product(*names):
        out.append({r: v for (r, _), v in zip(roots, combo)})
    return out


def spec_inline(P, ev, t, depth=3, stop=None, _memo=None):
    """Inline crate-local calls in t; a callee whose parameter receives an assumed root is evaluated under the
    corresponding assumption."""
    if _memo is None:
        _memo = {}
    if not isinstance(t, T) or depth < 0:
        return t
    if t in _memo:
        return _memo[t]

    def rec(x):
        if isinstance(x, T):
            return spec_inline(P, ev, x, depth, stop, _memo)
        if isinstance(x, tuple):
            return tuple(rec(y) for y in x)
        return x

    r = _rebuild(t.op, tuple(rec(x) for x in t.a))
    if r.op == "call" and depth > 0:
        name = r.a[0][0]
        g = P.fns.get(name)
        if g is not None and not (stop and stop(g)):
            ga = {}
            for i in range(1, g.arg_count + 1):
                if i - 1 < len(r.a[1]):
                    root = place_root(strip_sites(r.a[1][i - 1]))
                    if root is None:
                        continue
                    for (ap, apath), var in ev.assume.items():
                        if root[0] == ap and apath.startswith(root[1]):
                            ga[(g.locals[i].get("name"), apath[len(root[1]) :])] = var
            gev = evaluate(g, ga) if ga else evaluate(g)
            if gev.ret.op != "undef":
                mapping = {}
                for i in range(1, g.arg_count + 1):
                    if i - 1 < len(r.a[1]):
                        mapping[T("param", i, gev.pname(i))] = r.a[1][i - 1]
                body = subst(gev.ret, mapping)
                r = spec_inline(P, gev if ga else ev, body, depth - 1, stop, None)
    _memo[t] = r
    return r


def variant_of(assume, adt_hint=None):
    """The single scheme variant an assumption pins (all assumed roots agree), else None."""
    vs = set(assume.values())
    return next(iter(vs)) if len(vs) == 1 else None


def check_tag_by_scheme(ctx, rule, P, f, sink_names, tag_index, purpose="sig", roots_filter=None):
    """Under the assumption "scheme = V" (for every assignment of the function's scheme roots that pins one
    variant) the tag argument that reaches `sink` is exactly V's tag of the given purpose.  Returns the number
    of (assumption, site) pairs examined."""
    from .common import TAG_CONSTS, where

    n = 0
    for assume in assumptions(P, f):
        if not assume:
            continue
        V = variant_of(assume)
        ev = evaluate(f, assume)
        sites = [s for _, s in sorted(ev.sites.items()) if s.callee[0] in sink_names]
        if V is None:
            # contradictory assignment (e.g. commitment variant != signature variant): handled by diagonal rules
            continue
        for s in sites:
            if tag_index >= len(s.args) or -tag_index > len(s.args):
                continue
            t = B.peel(strip_sites(spec_inline(P, ev, s.args[tag_index], 2)))
            tag = t.a[0] if t.op == "assoc" else None
            sch = TAG_CONSTS.get(tag)
            n += 1
            ctx.ob(
                rule,
                "%s->%s@%s" % (f.key, s.callee[0].split("::")[-1], V),
                sch is not None and sch == (V, purpose),
                "with %s the tag reaching %s is %s (want the %s-purpose tag of scheme %s)" % (", ".join("%s%s=%s" % (a, b, v) for (a, b), v in sorted(assume.items())), s.callee[0], tag if tag else show(t, 4), purpose, V),
                where=where(f, s.bb),
                sample={"fn": f.key, "assume": {"%s%s" % k: v for k, v in assume.items()}, "tag": tag},
            )
    return n


def check_trait_by_scheme(ctx, rule, P, f, method_names):
    """Under the assumption "variant = V" the wrapper calls the scheme trait of V (and no other)."""
    from .common import SCHEME_TRAITS, where

    n = 0
    for assume in assumptions(P, f):
        V = variant_of(assume)
        if not assume or V is None:
            continue
        ev = evaluate(f, assume)
        for _, s in sorted(ev.sites.items()):
            c = s.raw.get("callee") or {}
            if c.get("trait") in SCHEME_TRAITS and c.get("name") in method_names:
                n += 1
                ctx.ob(rule, "%s->%s::%s@%s" % (f.key, c["trait"], c["name"], V), SCHEME_TRAITS[c["trait"]] == V, "with %s the wrapper calls %s::%s (scheme %s)" % (", ".join("%s%s=%s" % (a, b, v) for (a, b), v in sorted(assume.items())), c["trait"], c["name"], SCHEME_TRAITS[c["trait"]]), where=where(f, s.bb))
    return n


def built_variants(r, adt):
    """Variants of `adt` a value is built as: aggregate expressions and constructor functions handed to a combinator
    (`opt.map(Self::V)`)."""
    out = set()
    for t in subterms(r):
        if t.op == "agg" and t.a[0][0] == "adt" and t.a[0][1] == adt:
            out.add(t.a[0][2])
        elif t.op == "const" and t.a[0] == "fn" and len(t.a) > 2 and t.a[2] and t.a[2][0] == "ctor" and t.a[2][1] == adt:
            out.add(t.a[2][2])
    return sorted(out)


def check_variant_preserved(ctx, rule, P, f, out_adt, min_variants=3):
    """Under "input variant = V" every `out_adt` value built into the function's result has variant V (looking through
    local mapper functions), and one is built."""
    from .common import where

    n = 0
    for assume in assumptions(P, f):
        V = variant_of(assume)
        if not assume or V is None:
            continue
        ev = evaluate(f, assume)
        r = strip_sites(spec_inline(P, ev, ev.ret, 2))
        built = built_variants(r, out_adt)
        n += 1 if built == [V] else 0
        ctx.ob(rule, "%s@%s" % (f.key, V), built in ([V], []), "with %s the result is built as %s::%s (want exactly %s)" % (", ".join("%s%s=%s" % (a, b, v) for (a, b), v in sorted(assume.items())), out_adt, "/".join(built) if built else "<none: refused>", V), where=where(f))
    ctx.floor(rule, "input variants of %s that yield a result of their own variant" % f.key, n, min_variants)
    return n



def check_reader_totality(ctx, rule, P, f, self_adt, tag_adts, allow_default=False):
    """A byte reader of a tagged enum accepts every tag its writer can emit: for every variant V of the tag enum the
    reader, assuming the decoded tag is V, has a success path and builds exactly Self::V on it (a reader that refuses or
    re-labels one variant breaks the round trip for that variant only)."""
    from .common import where

    n = 0
    for assume in assumptions(P, f, tag_adts, computed=True):
        V = variant_of(assume)
        if not assume or V is None:
            continue
        ev = evaluate(f, assume)
        r = strip_sites(spec_inline(P, ev, ev.ret, 2))
        built = built_variants(r, self_adt)
        n += 1
        if allow_default and V not in built and any(t.op == "call" and t.a[0][0] == "Default::default" for t in subterms(r)):
            pass
        ctx.ob(rule, "%s@%s" % (f.key, V), built == [V], "assuming the decoded tag is %s the reader builds %s::%s (want exactly %s::%s on its success path)" % (V, self_adt, "/".join(built) if built else "<nothing: this tag is refused>", self_adt, V), where=where(f))
    return n


def check_scheme_total(ctx, rule, P, f, root, adt="SignatureSchemes", variants=None):
    """The operation is offered for every scheme: assuming `root` = V there is a path to a successful result
    (an `Ok(..)` built in the function, or a tail call that may return Ok) for every variant V."""
    from .common import where
    from . import guardrules as R

    n = 0
    names = variants or [v["name"] for v in P.adts[adt]["variants"]]
    for V in names:
        sev = evaluate(f, {root: V})
        oks = [b for b in R.ok_blocks(f) if b in sev.exit_state]
        for b in sorted(f.cfg.reachable):
            t = f.blocks[b]["term"]
            if b in sev.exit_state and t["k"] == "call" and "p" not in (t.get("dest") or {"p": 1}) and t["dest"].get("l") in R.return_aliases(f) and (t.get("callee") or {}).get("name") != "from_residual":
                oks.append(b)
        n += 1 if oks else 0
        ctx.ob(rule, "%s@%s" % (f.key, V), bool(oks), "with %s%s = %s the function %s" % (root[0], root[1], V, "can succeed" if oks else "has no success path: this scheme is refused"), where=where(f))
    return n


def check_same_scheme_semantics(ctx, rule, P, floor=2):
    """`same_scheme(a, b)` is exactly "a and b carry the same variant": evaluated under each of the 9 variant pairs
    the return value folds to the constant `variant(a) == variant(b)`.  Callers may then treat the call as that atom."""
    n = 0
    for k, f in sorted(P.fns.items()):
        if f.name != "same_scheme" or f.arg_count != 2:
            continue
        roots = switch_roots(P, f)
        n += 1
        if len(roots) != 2:
            # `mem::discriminant(self) == mem::discriminant(other)`: "the same variant" by the definition of discriminant
            r0 = B.peel(strip_sites(evaluate(f).ret))
            if r0.op == "call" and B.cname(r0) == "PartialEq::eq" and len(r0.a[1]) == 2:
                ds = [B.peel(z) for z in r0.a[1]]
                if all(d.op == "call" and B.cname(d).split("::")[-1] == "discriminant" and len(d.a[1]) == 1 for d in ds):
                    ps = sorted(B.peel(d.a[1][0]).a[0] if B.peel(d.a[1][0]).op == "param" else -1 for d in ds)
                    if ps == [1, 2]:
                        ctx.ob(rule, k, True, "%s compares mem::discriminant of its two operands: true exactly on equal variants" % k, where=where(f))
                        continue
            ctx.ob(rule, k, False, "%s does not dispatch on both operands' variants (roots: %s)" % (k, roots), where=where(f))
            continue
        bad = []
        for a in assumptions(P, f):
            ev = evaluate(f, a)
            r = strip_sites(ev.ret)
            want = len(set(a.values())) == 1
            got = r.a[1] if r.op == "const" and r.a[0] == "int" else None
            if got is None or bool(got) != want:
                bad.append("%s -> %s" % ("/".join(a[r_] for r_, _ in roots), show(r, 3)))
        ctx.ob(rule, k, not bad, "%s is true exactly on equal variants (9 pairs folded)%s" % (k, "" if not bad else ": " + "; ".join(bad[:3])), where=where(f))
    ctx.floor(rule, "same_scheme functions", n, floor)
