"""C08 - threshold shares recombine to exactly the whole-key results."""
from ..core.sym import evaluate, strip_sites
from ..core.terms import show, subterms
from ..core import guards as G
from ..core import bytesnf as B
from .common import where, check_arm_purity, spec, call_sites
from . import constructions as K
from . import guardrules as R
from . import flow as F
from . import spec as SP

EXPLANATION = (
    "Decides blsful's own glue around the secret-sharing dependency: split_with_rng hands (threshold, limit, the key's scalar, the "
    "caller's rng) unmodified and in that order to vsss-rs (an off-by-one or clamp introduced in blsful is a changed term) and split "
    "adds only a fresh generator; combine / every from_shares forward every share (1:1 map, no element-dropping adapter; the only "
    "accepted `skip(1)` is the scheme comparison against element 0); partial signatures and public-key shares carry the secret "
    "share's identifier and the value core_sign(as_field_element(share), msg, dst) / generator*share; Signature::from_shares is "
    "guarded by the all-same-scheme test on every path to success and returns the variant of shares[0]; share payloads reach group "
    "code only through the checked conversions; container sizes equal 1 + compressed point length (type layout). Not decided: the "
    "Shamir/Lagrange arithmetic of vsss-rs and the 'fewer than t' negative."
)
RULE = "E6 pass-through on value-numbered terms; E4 guard dominance; E7 adapter deny-list; E2 arm purity; E9 layout"


def run(ctx):
    P = ctx.P
    pinned = spec("pinned.json")
    # a. split
    f = ctx.need_fn("E6.split", "SecretKey<C>::split_with_rng")
    if f is not None:
        ev = evaluate(f)
        sites = [s for s in ev.sites.values() if s.callee[0] == "vsss_rs::split_secret"]
        ok = False
        shown = None
        if sites:
            a = [strip_sites(x) for x in sites[0].args]
            shown = [show(x, 4) for x in a]
            roots = [F.projection_root(x, allow_copy=False) for x in a]
            ok = len(a) == 4 and all(roots) and [r[0].a[1] for r in roots] == ["threshold", "limit", "self", "rng"] and roots[0][1] == "" and roots[1][1] == "" and roots[2][1] == ".0"
        ctx.ob("E6.split", "split_with_rng->split_secret", ok, "split_secret receives (threshold, limit, self.0, rng) unmodified: %s" % shown, where=where(f))
        # every produced share is wrapped 1:1
        F.check_no_dropping_adapters(ctx, "E7.adapters", P, ["SecretKey<C>::split_with_rng"])
        ret_ok = False
        for b_ in R.ok_blocks(f):
            v_ = R.ok_value(ev.fn, ev, b_)
            if v_.op == "agg" and v_.a[1]:
                x, steps = F.image_source(P, f, ev, v_.a[1][0])
                # source: the Ok payload of split_secret(..)?
                ret_ok = x is not None and any(s_.op == "call" and B.cname(s_) == "vsss_rs::split_secret" for s_ in subterms(x)) and not any(s_.op == "loop" for s_ in subterms(x))
        ctx.ob("E6.split", "split_with_rng/result", ret_ok, "result is the collected 1:1 image of the shares returned by split_secret", where=where(f))
    # own parameter checks of split never refuse a valid (threshold, count): decided by folding the comparison terms on
    # the whole grid 0..=300 x 0..=300
    grid = [(t_, n_) for t_ in list(range(0, 8)) + [127, 128, 254, 255, 256, 300] for n_ in list(range(0, 8)) + [127, 128, 254, 255, 256, 300]]
    for fk_ in ("SecretKey<C>::split_with_rng", "SecretKey<C>::split"):
        F.check_range_rejections(ctx, "E4.range", P, fk_, ("threshold", "limit"), lambda t_, n_: 2 <= t_ <= n_ <= 255, grid, "(threshold, limit)")
    f = ctx.need_fn("E6.split", "SecretKey<C>::split")
    if f is not None:
        ev = evaluate(f)
        r = strip_sites(ev.ret)
        ok = r.op == "call" and B.cname(r) == "SecretKey<C>::split_with_rng" and [F.projection_root(x) and F.projection_root(x)[0].a[1] for x in r.a[1][:3]] == ["self", "threshold", "limit"] and r.a[1][3].op == "call" and B.cname(r.a[1][3]) == "helpers::get_crypto_rng"
        ctx.ob("E6.split", "split", ok, "split = split_with_rng(self, threshold, limit, get_crypto_rng()): %s" % show(r, 4), where=where(f))
    # combine and from_shares: all shares forwarded
    for fk, sink in (
        ("SecretKey<C>::combine", "vsss_rs::combine_shares"),
        ("Signature<C>::from_shares", "BlsSignatureCore::core_combine_signature_shares"),
        ("PublicKey<C>::from_shares", "BlsSignatureCore::core_combine_public_key_shares"),
        ("SignCryptDecryptionKey<C>::from_shares", "BlsSignatureCore::core_combine_public_key_shares"),
        ("ElGamalDecryptionKey<C>::from_shares", "BlsSignatureCore::core_combine_public_key_shares"),
    ):
        f = ctx.need_fn("E6.combine", fk)
        if f is None:
            continue
        ev = evaluate(f)
        sites = [s for s in ev.sites.values() if s.callee[0] == sink or s.callee[0].endswith("::" + sink)]
        ok = False
        shown = None
        if sites:
            t = strip_sites(sites[0].args[0])
            shown = show(t, 5)
            x, steps = F.image_source(P, f, ev, sites[0].args[0])
            ok = x is not None and x.op == "param" and x.a[1] == "shares"
            if x is None:
                shown = "%s - %s" % (shown, steps)
        ctx.ob("E6.combine", fk, ok, "%s receives a 1:1 image of the whole `shares` list: %s" % (sink, shown), where=where(f))
        allow = {}
        if fk == "Signature<C>::from_shares":
            allow[(fk, "skip")] = "skip(1): elements 1.. are compared with element 0 (scheme consistency; validated by E4.scheme)"
            allow[(fk, "windows")] = "windows(2): adjacent pairs compared (scheme consistency; validated by E4.scheme)"
        F.check_no_dropping_adapters(ctx, "E7.adapters", P, [fk], allow=allow)
    F.check_combiner_lengths(ctx, "E4.len-range", P)
    # "empty, single, duplicated ... share sets and parameters outside the range are reported as errors": reported, not
    # aborted on - the abort census over the share entry points (both profiles)
    from . import aborts as A_

    roots_ = ["SecretKey<C>::split", "SecretKey<C>::split_with_rng", "SecretKey<C>::combine", "Signature<C>::from_shares", "PublicKey<C>::from_shares", "SecretKeyShare<C>::sign", "SecretKeyShare<C>::public_key", "PublicKeyShare<C>::verify", "SignatureShare<C>::verify"]
    A_.check_aborts(ctx, "E8", P, roots_, scope="C08")
    A_.check_aborts(ctx, "E8", ctx.prog("blst", "nodebug"), roots_, scope="C08", profile="nodebug")
    # tables keyed by a share identifier cover the whole identifier range (1..=255)
    from .common import reachable_fns

    roots = [P.fns.get(k) for k in ("SecretKey<C>::combine", "Signature<C>::from_shares", "PublicKey<C>::from_shares", "SignCryptDecryptionKey<C>::from_shares", "ElGamalDecryptionKey<C>::from_shares", "SecretKey<C>::split_with_rng", "SecretKeyShare<C>::sign", "SignatureShare<C>::verify", "BlsSignCrypt::unseal_with_shares")]
    reach = reachable_fns(P, [r for r in roots if r is not None])
    F.check_u8_tables(ctx, "E4.id-table", P, [reach[k] for k in sorted(reach)])
    from .posctl import run_posctl

    run_posctl(ctx, "E4.id-table", "u8-tables")
    F.check_order_insensitive(ctx, "E4.set-order", P, ("SecretKey<C>::combine", "Signature<C>::from_shares", "PublicKey<C>::from_shares", "SignCryptDecryptionKey<C>::from_shares", "ElGamalDecryptionKey<C>::from_shares", "BlsSignatureCore::core_combine_signature_shares", "BlsSignatureCore::core_combine_public_key_shares"))
    F.check_core_combiners(ctx, "E6.combine", P)
    # c. from_shares guard + variant
    fk = "Signature<C>::from_shares"
    f = P.fns.get(fk)
    if f is not None:
        ev = evaluate(f)
        # the rule speaks about a non-empty list (there is no shares[0] otherwise): alternatives of a disjunctive guard
        # that say "the list is empty" are not the ones that have to carry the scheme test
        with G.given(lambda atom, pol: R._literal_len_bound(atom, not pol, "shares") >= 1):
            oks = R.ok_exits(P, f, ev)
        good = True
        detail = ""
        idiom = None
        for b, lits in oks:
            hit = False
            for atom, pol in lits:
                # universally quantified guard: all(src, |x| P(x)) is true, or any(src, |x| !P(x)) is false
                if not (atom[0] == "atom" and atom[1] == "term" and atom[2].op == "call"):
                    continue
                qn = B.cname(atom[2])
                if not ((qn == "Iterator::all" and pol) or (qn == "Iterator::any" and not pol)):
                    continue
                src = atom[2].a[1][0]
                body = G.apply_closure(P, atom[2].a[1][1], [])
                if body is None:
                    continue
                fm = G.formula(body, P)
                if qn == "Iterator::any":
                    fm = G.f_not(fm)
                if not (fm[0] == "atom" and fm[1] == "term" and fm[2].op == "call" and B.cname(fm[2]).endswith("::same_scheme")):
                    continue
                r = fm[2]
                cov = R.covers_all(src, "shares")
                sp = B.peel(src)
                if sp.op == "call" and B.cname(sp) == "slice::<impl [T]>::windows" and B._const_int(sp.a[1][1]) == 2 and R.covers_all(sp.a[1][0], "shares") == "all":
                    idx = sorted(B._const_int(z.a[1]) for z in [B.peel(q) for q in r.a[1]] if z.op == "index" and B.peel(z.a[0]).op == "param")
                    if idx == [0, 1]:
                        hit = True
                        idiom = "windows"
                        detail = "%s(windows(shares, 2), |w| %ssame_scheme(w[0], w[1]))" % (qn.split("::")[-1], "" if qn.endswith("all") else "!")
                if cov in ("all", "tail1"):
                    xs = [B.peel(z) for z in r.a[1]]
                    has0 = any(z.op == "index" and B._const_int(z.a[1]) == 0 for z in xs)
                    has_elem = any(z.op == "param" for z in xs)
                    if has0 and has_elem:
                        hit = True
                        detail = "%s(%s, |s| %s)" % (qn.split("::")[-1], cov, show(r, 4))
            if not hit and R.census_says_uniform(P, lits, "shares"):
                hit = True
                detail = "the variants in use over the whole list (mem::discriminant census) number at most one"
            good = good and hit
        if not (bool(oks) and good):
            # the same validation written as a loop: `for s in &shares[1..] { if !s.same_scheme(&shares[0]) { return Err } }`
            lv = _scheme_validation_loop(P, f, ev)
            if lv:
                good, detail = True, lv
        SP.check_same_scheme_semantics(ctx, "E2.same-scheme", P)
        ctx.ob("E4.scheme", fk, bool(oks) and good, "every success exit requires that each share has the scheme of shares[0]: %s" % detail, where=where(f))
        errs = R.err_blocks(f)
        kinds = []
        for b in errs:
            for s in f.blocks[b]["stmts"]:
                if s["k"] == "assign" and "agg" in s["rv"] and s["rv"]["agg"].get("adt") == "BlsError":
                    kinds.append(s["rv"]["agg"]["variant"])
        ctx.ob("E4.scheme", fk + "/error", "InvalidSignatureScheme" in kinds, "mixed schemes are reported as InvalidSignatureScheme (error kinds built: %s)" % kinds, where=where(f))
        check_arm_purity(ctx, "E2-A", P, [f])
        SP.check_variant_preserved(ctx, "E2.variant", P, f, "Signature")
    # b. identifier and value of produced shares
    for fk, val_pred, desc in (
        ("BlsSignatureCore::core_partial_sign", lambda t: any(s.op == "call" and B.cname(s) == "BlsSignatureCore::core_sign" for s in subterms(t)), "to_bytes(core_sign(as_field_element(sks), msg, dst))"),
        ("BlsSignatureCore::public_key_share_with_generator", lambda t: any(s.op == "call" and B.cname(s) == "Mul::mul" and any(x.op == "param" and x.a[1] == "generator" for x in subterms(s)) for s in subterms(t)), "to_bytes(generator * as_field_element(sks))"),
        ("BlsSignCrypt::create_decryption_share", lambda t: any(s.op == "call" and B.cname(s) == "Mul::mul" and any(x.op == "param" and x.a[1] == "u" for x in subterms(s)) for s in subterms(t)), "to_bytes(u * as_field_element(share))"),
    ):
        f = ctx.need_fn("E6.share", fk)
        if f is None:
            continue
        ev = evaluate(f)
        idw = [t for t in subterms(ev.ret) if t.op == "store"]
        id_ok = False
        for st in idw:
            v = strip_sites(st.a[2])
            tgt = strip_sites(st.a[1])
            if v.op == "call" and B.cname(v) == "Share::identifier" and B.peel(v.a[1][0]).op == "param" and tgt.op == "call" and B.cname(tgt) == "Share::identifier_mut":
                id_ok = True
        vm = [s for s in ev.sites.values() if s.callee[0] == "Share::value_mut"]
        val_ok = bool(vm) and val_pred(strip_sites(vm[0].args[1])) and any(s.op == "call" and B.cname(s) == "GroupEncoding::to_bytes" for s in subterms(vm[0].args[1]))
        if val_ok and fk != "BlsSignatureCore::core_partial_sign":
            # the encoded point is exactly base * scalar-of-the-share (polynomial normal form: no extra term, sign or factor)
            from ..core import poly as PL

            tb = [s for s in subterms(strip_sites(vm[0].args[1])) if s.op == "call" and B.cname(s) == "GroupEncoding::to_bytes"]
            base_name = "generator" if "generator" in fk else "u"

            def _at(t):
                if t.op == "param":
                    return t.a[1]
                y = t
                if y.op == "field" and y.a[1] == "0" and y.a[0].op == "downcast":
                    y = B.peel(y.a[0].a[0])
                if y.op == "call" and B.cname(y) == "Share::as_field_element" and F.projection_root(y.a[1][0]) is not None:
                    return "fe"
                return None

            val_ok = len(tb) == 1 and PL.named(PL.poly(tb[0].a[1][0], _at)) == {tuple(sorted((base_name, "fe"))): 1}
        fe = [s for s in ev.sites.values() if s.callee[0] == "Share::as_field_element"]
        fe_ok = bool(fe) and F.projection_root(strip_sites(fe[0].args[0])) is not None
        ctx.ob("E6.share", fk, id_ok and val_ok and fe_ok, "produced share: identifier := identifier(secret share) [%s]; value := %s [%s]; scalar from the secret share via as_field_element [%s]" % (id_ok, desc, val_ok, fe_ok), where=where(f))
    # partial sign wrappers route (tag, message)
    K.check_core_siblings(ctx, P, traits=("BlsSignatureBasic", "BlsSignaturePop"), methods_sign=("partial_sign", "sign"), methods_verify=("partial_verify", "verify", "multi_sig_verify"))
    f = ctx.need_fn("E2-A", "SecretKeyShare<C>::sign")
    if f is not None:
        check_arm_purity(ctx, "E2-A", P, [f])
        n = SP.check_trait_by_scheme(ctx, "E2.dispatch", P, f, ("partial_sign", "sign", "core_partial_sign"))
        ctx.floor("E2.dispatch", "schemes of SecretKeyShare::sign reaching their signer", n, 2)
    for fk in ("PublicKeyShare<C>::verify", "SignatureShare<C>::verify"):
        f = ctx.need_fn("E2.dispatch", fk)
        if f is not None:
            from ..core.sym import inline as _inl

            n = SP.check_trait_by_scheme(ctx, "E2.dispatch", P, f, ("verify", "partial_verify", "core_verify", "core_signature_share_verify"))
            if fk.startswith("PublicKeyShare"):
                ctx.floor("E2.dispatch", "schemes of PublicKeyShare::verify reaching their verifier", n, 3)
    # core_signature_share_verify: identifiers compared, both payloads checked
    f = ctx.need_fn("E4.sharever", "BlsSignatureCore::core_signature_share_verify")
    if f is not None:
        ev = evaluate(f)
        ag = [s for s in ev.sites.values() if s.callee[0] == "Share::as_group_element"]
        ctx.ob("E4.sharever", "checked-conversions", len(ag) == 2, "both share payloads go through the checked as_group_element (found %d)" % len(ag), where=where(f))
        cv = [s for s in ev.sites.values() if s.callee[0] == "BlsSignatureCore::core_verify"]
        ok = bool(cv) and all("as_group_element" in show(strip_sites(a), 8) for a in cv[0].args[:2]) and [B.peel(a).a[1] if B.peel(a).op == "param" else None for a in cv[0].args[2:]] == ["msg", "dst"]
        ctx.ob("E4.sharever", "core_verify-args", ok, "core_verify receives the two decoded points and (msg, dst) unmodified", where=where(f))
    # layout
    for im in P.impls:
        if im.get("trait") == "Pairing" and im["self"] in pinned["share_sizes"]:
            sizes = {t["name"]: t.get("size") for t in im["types"]}
            for name, want in pinned["share_sizes"][im["self"]].items():
                ctx.ob("E9.layout", "%s::%s" % (im["self"], name), sizes.get(name) == want, "size_of(<%s as Pairing>::%s) = %s (want %d = 1 identifier byte + payload)" % (im["self"], name, sizes.get(name), want))
    from .posctl import run_posctl

    run_posctl(ctx, "E7.adapters", "adapters")
    ctx.assume("vsss-rs split_secret / combine_shares / combine_shares_group implement Shamir sharing and reject <2, zero and duplicate identifiers (dependency contract, vsss-rs 4.3.8)")


def _scheme_validation_loop(P, f, ev):
    """A loop over shares[1..] (or all of shares) whose every iteration tests same_scheme(element, shares[0]) and leaves
    the function through Err when it is false; the success exits come after the loop.  Returns a description or None."""
    cfg = f.cfg
    oks = set(R.ok_blocks(f))
    errs = set(R.err_blocks(f))
    for src_b, h in cfg.back_edges():
        body = set(cfg.natural_loop(src_b, h))
        srcs = [s_ for bb, s_ in R.loop_sources(f) if bb in body]
        if len(srcs) != 1 or R.covers_all(srcs[0], "shares") not in ("all", "tail1"):
            continue
        for b in sorted(body):
            t = f.blocks[b]["term"]
            d = ev.switch.get(b)
            if t["k"] != "switch" or d is None:
                continue
            fm = G.formula(d, P)
            neg = False
            if fm[0] == "not":
                fm, neg = fm[1], True
            if not (fm[0] == "atom" and fm[1] == "term" and fm[2].op == "call" and B.cname(fm[2]).endswith("::same_scheme")):
                continue
            xs = [B.peel(z) for z in fm[2].a[1]]
            has0 = any(z.op == "index" and B._const_int(z.a[1]) == 0 for z in xs)
            has_elem = any(any(y.op == "call" and B.cname(y) == "Iterator::next" for y in subterms(z)) for z in xs)
            if not (has0 and has_elem):
                continue
            # the edge on which same_scheme is false
            false_tgt = [tg for v, tg in t["arms"] if v == 0]
            false_tgt = false_tgt[0] if false_tgt else None
            true_tgt = t["otherwise"]
            bad_tgt = true_tgt if neg else false_tgt
            if bad_tgt is None:
                continue
            reach = cfg.reach_from(bad_tgt)
            if (reach & errs) and not (reach & oks) and not (reach & {h}):
                # ... and every iteration performs the test
                def after_loop(o):
                    # the success exit lies behind the loop's exhaustion edge - on every way that has a non-empty list
                    if cfg.dominates(h, o):
                        return True
                    with G.given(lambda atom, pol: R._literal_len_bound(atom, not pol, "shares") >= 1):
                        lits = G.path_literals(ev, o, P, checks_only=True)
                    src0 = strip_sites(srcs[0])
                    for atom, pol in lits:
                        if pol and atom[0] == "atom" and atom[1] in ("switch", "switch_not") and atom[2].op == "discr" and ((atom[1] == "switch" and atom[3] == 0) or (atom[1] == "switch_not" and tuple(atom[3]) == (1,))):
                            if any(y.op == "call" and B.cname(y) == "Iterator::next" for y in subterms(atom[2])) and any(y == src0 for y in subterms(atom[2])):
                                return True
                    return False

                if cfg.dominates(b, src_b) and all(after_loop(o) for o in oks):
                    return "loop over %s: every element is compared with shares[0] by same_scheme, a mismatch leaves through Err" % R.covers_all(srcs[0], "shares")
    return None
