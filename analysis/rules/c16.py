"""C16 - decoding never yields an invalid point, a zero key or a mis-sized value."""
from ..core.sym import evaluate, strip_sites
from ..core.terms import T, show, subterms
from ..core import guards as G
from ..core import bytesnf as B
from .common import where, call_sites
from . import codecs as C
from . import guardrules as R
from . import flow as F
from . import posctl as PC

EXPLANATION = (
    "Decides which decoder can run on untrusted bytes: (1) no call in blsful resolves to an unchecked point decoder (any dependency "
    "item whose name contains `unchecked`; matched on resolved callee paths, with a positive control that must fire); (2) every "
    "TryFrom<&[u8]> is classified into a known codec kind (an unclassified reader fails closed) and the three raw point readers call "
    "the checked GroupEncoding::from_bytes under the equal-length edge of a comparison between the input length and the "
    "representation length, the three scalar readers require exactly 32 bytes (array conversion Ok-arm) and go through the "
    "zero-rejecting helpers (the zero test is folded exhaustively over its 256 accumulator values), ProofCommitment compares the "
    "length with 1 + compressed length; (3) every BlsSerde::deserialize_* is exactly a call to the associated type's own "
    "Deserialize (no hand-rolled visitor), so the backend's checked deserializer decides; (4) share payloads reach group code only "
    "through Share::as_group_element / combine_shares_group (census of the 11 use sites, no other reader of share bytes). Sufficient "
    "given the dependency contract that GroupEncoding::from_bytes checks curve and subgroup. Not decided: the on-curve/subgroup test "
    "inside the backend."
)
RULE = "E7 who-may-call with positive control; E9 reader classification; E4 exact-length guard dominance; call-site census of checked share conversions"


def run(ctx):
    P = ctx.P
    # 1. unchecked decoders
    bad = PC.unchecked_calls(P)
    ctx.ob("E7.unchecked", "blsful", not bad, "calls to unchecked decoders in blsful: %s" % [(f.key, p) for f, bb, p in bad][:5], where=where(bad[0][0], bad[0][1]) if bad else None)
    PC.run_posctl(ctx, "E7.unchecked", "unchecked")
    # 2. classification + guards
    ws, rs = C.check_byte_codecs(ctx, P, rule="E9.readers")
    check_point_reader_exact_len(ctx, P, rs, ("PublicKey", "MultiPublicKey", "ProofOfPossession"))
    for ty in ("SecretKey", "ProofCommitmentSecret", "ProofCommitmentChallenge"):
        f = rs.get(ty)
        if f is None:
            ctx.ob("E4.len.anchor", ty, False, "scalar reader of `%s` not found" % ty)
            continue
        ev = evaluate(f)
        # `<[u8; 32]>::try_from(value)` or the same conversion written `value.try_into()`
        _conv_names = ("TryFrom::try_from", "TryInto::try_into")
        conv = [s for s in ev.sites.values() if (s.callee[0] == "TryFrom::try_from" and s.callee[1][:1] == ("[u8; 32]",)) or (s.callee[0] == "TryInto::try_into" and tuple(s.callee[1][1:2]) == ("[u8; 32]",))]
        imp = [s for s in ev.sites.values() if s.callee[0] in ("helpers::scalar_from_be_bytes", "SecretKey<C>::from_be_bytes") or (s.callee[0] in P.fns and s.callee[0].endswith("::from_be_bytes"))]
        ok = len(conv) == 1 and len(imp) == 1 and B.peel(conv[0].args[0]).op == "param"
        if ok:
            lits = G.path_literals(ev, imp[0].bb, None, checks_only=True)
            ok = any(a[1] == "switch" and any(t.op == "call" and B.cname(t) in _conv_names for t in subterms(a[2])) for a, p in lits)
            arr = strip_sites(imp[0].args[0])
            ok = ok and any(t.op == "call" and B.cname(t) in _conv_names for t in subterms(arr))
        if not ok and len(imp) == 1:
            # the same thing spelled out: `if value.len() != 32 { return Err }; let mut b = [0u8; 32]; b.copy_from_slice(value)`
            arr = B.peel(strip_sites(imp[0].args[0]))
            cp = [x for x in subterms(arr) if x.op == "mutcall" and B.cname(x) == "slice::<impl [T]>::copy_from_slice"]
            edits = [x for x in subterms(arr) if x.op == "store" or (x.op == "mutcall" and B.cname(x) != "slice::<impl [T]>::copy_from_slice")]
            if len(cp) == 1 and not edits:
                dst, src = cp[0].a[2][0], cp[0].a[2][1]
                dl = B.int_form(T("len", strip_sites(dst)))
                sp_ = B.peel(strip_sites(src))
                exact = False
                for atom, pol in G.path_literals(ev, imp[0].bb, P, checks_only=True):
                    if atom[0] == "atom" and atom[1] == "cmp" and (atom[2] if pol else R._NEG[atom[2]]) == "Eq":
                        fa, fb = B.int_form(strip_sites(atom[3])), B.int_form(strip_sites(atom[4]))
                        if any(R._is_len_of(x, "value") for x in (atom[3], atom[4])) and (B.lin_eq(fa, ("c", 32)) or B.lin_eq(fb, ("c", 32))):
                            exact = True
                ok = sp_.op == "param" and sp_.a[1] == "value" and B.lin_eq(dl, ("c", 32)) and exact
        ctx.ob("E4.len", ty, ok, "%s::try_from: <[u8;32]>::try_from(value) Ok-arm (or len(value) == 32 + copy into a [u8; 32]) dominates the zero-rejecting big-endian import of that array" % ty, where=where(f))
        _imps = {B.cname(strip_sites(s_.value)) for s_ in imp if strip_sites(s_.value).op == "call"} | {s_.callee[0] for s_ in imp}
        check_success_is_decoders(ctx, P, ty, f, ev, lambda t, _n=_imps: t.op == "call" and B.cname(t) in _n, "the zero-rejecting importer")
    # the curve-tagged importers: tag byte + exactly 32 key bytes.  The array handed to the key importer is an exact-length
    # conversion of everything after the tag (`<[u8; 32]>::try_from(&bytes[1..])`, whose Ok arm means len == 33), or it is
    # taken under a guard that pins the length; a prefix-taking accessor (first_chunk, get(..n), chunks) without such a
    # guard lets trailing bytes through
    for fk in ("SecretKeyEnum::from_be_bytes", "SecretKeyEnum::from_le_bytes"):
        f = ctx.need_fn("E4.len", fk)
        if f is None:
            continue
        ev = evaluate(f)
        imp = [s_ for _, s_ in sorted(ev.sites.items()) if s_.callee[0] in ("SecretKey<C>::from_be_bytes", "SecretKey<C>::from_le_bytes")]
        ctx.ob("E4.len.anchor", fk, bool(imp), "%s hands the key bytes to SecretKey::from_*_bytes (%d call(s))" % (fk, len(imp)), where=where(f))
        for s_ in imp:
            arr = B.peel(strip_sites(s_.args[0]))
            ok = False
            how = show(arr, 4)
            # (a) Ok payload of an exact conversion of a suffix of the input
            y = arr
            if y.op == "field" and y.a[1] == "0" and y.a[0].op == "downcast" and y.a[0].a[1] == "Ok":
                c_ = B.peel(y.a[0].a[0])
                if c_.op == "call" and B.cname(c_) in ("TryFrom::try_from", "TryInto::try_into") and len(c_.a[1]) == 1:
                    src = c_.a[1][0]
                    sf = B.slice_form(src)
                    whole = B.peel(src)
                    if whole.op == "param" and whole.a[1] == "bytes":
                        ok = True
                    elif sf is not None and sf[0].op == "param" and sf[0].a[1] == "bytes" and B.lin_eq(sf[2], ("len", sf[0])) and B._lin(sf[1]) is not None and not any(B._lin(sf[1])[1].values()):
                        ok = True
            # (b) any way of taking the bytes under a guard that pins len(bytes) to a constant
            if not ok:
                for atom, pol in G.path_literals(ev, s_.bb, P, checks_only=True):
                    if atom[0] == "atom" and atom[1] == "cmp" and (atom[2] if pol else R._NEG[atom[2]]) == "Eq" and any(R._is_len_of(x, "bytes") for x in (atom[3], atom[4])) and any(R._cval(x) is not None for x in (atom[3], atom[4])):
                        ok = True
            ctx.ob("E4.len", "%s@bb%d" % (fk, s_.bb), ok, "the 32 key bytes are an exact-length conversion of the input after the tag (or taken under len(bytes) == const): %s" % how, where=where(f, s_.bb))
    f = rs.get("ProofCommitment")
    if f is not None:
        ev = evaluate(f)
        fs = [s for s in ev.sites.values() if s.callee[0] == "serde_bare::from_slice"]
        ok = len(fs) == 1
        if ok:
            lits = G.path_literals(ev, fs[0].bb, P, checks_only=True)
            ok = any(atom[0] == "atom" and atom[1] == "cmp" and (atom[2] if pol else R._NEG[atom[2]]) == "Eq" and any(R._is_len_of(x, "value") for x in (atom[3], atom[4])) for atom, pol in lits)
        ctx.ob("E4.len", "ProofCommitment", ok, "ProofCommitment::try_from decodes only under the exact-length edge", where=where(f))
    # scalar helpers reject zero; zero test exact
    for fk in ("helpers::scalar_from_be_bytes", "helpers::scalar_from_le_bytes"):
        g = P.fns.get(fk)
        if g is None:
            continue
        pass
    R.check_scalar_zero_guard(ctx, "E4.zero", P)
    F.check_iszero(ctx, P, "E8.iszero", check_asserts=False, need=("zero",))
    imps = call_sites(P, lambda c, t: c.get("name") == "from_repr" and c.get("trait") == "PrimeField")
    for fn, bb, t in imps:
        ctx.ob("E7.from_repr", fn.key, fn.key in ("helpers::scalar_from_be_bytes", "helpers::scalar_from_le_bytes"), "PrimeField::from_repr may only be called by the zero-checking helpers", where=where(fn, bb))
    # from_bytes call sites: exactly the length-guarded readers
    fbs = call_sites(P, lambda c, t: c.get("name") == "from_bytes" and c.get("trait") == "GroupEncoding")
    for fn, bb, t in fbs:
        ctx.ob("E7.from_bytes", fn.key, fn.key in [r.key for r in rs.values()], "GroupEncoding::from_bytes is called from a classified byte reader", where=where(fn, bb))
    ctx.floor("E7.from_bytes", "checked from_bytes call sites", len(fbs), 1)
    # 3. serde
    C.check_serde_with_pairs(ctx, P, rule="E9.serde")
    from .c15 import check_fixed_hex_reader

    check_fixed_hex_reader(ctx, P)
    # 4. shares validated at use
    ag = call_sites(P, lambda c, t: c.get("name") == "as_group_element" and c.get("trait") == "Share")
    cg = call_sites(P, lambda c, t: c.get("name") == "combine_shares_group")
    ctx.floor("E7.shares", "Share::as_group_element call sites (detector is live)", len(ag), 3)
    ctx.floor("E7.shares", "combine_shares_group call sites", len(cg), 1)
    allowed_raw = lambda fn: (fn.impl_trait in ("Share", "ConditionallySelectable", "Default", "TryFrom", "From", "LowerHex", "UpperHex", "Display", "Debug", "Clone", "PartialEq", "Hash", "Ord", "PartialOrd", "Zeroize", "Serialize", "Deserialize", "Eq") and (fn.impl_self_adt or "").startswith("InnerPointShare")) or (fn.impl_trait == "From" and "InnerPointShare" in (fn.impl_trait_ref or "")) or fn.from_expansion
    raw = []
    for fn in P.fns.values():
        for bb, t in fn.calls():
            c = t.get("callee") or {}
            if c.get("trait") == "Share" and c.get("name") in ("value", "value_vec"):
                if not allowed_raw(fn):
                    raw.append((fn, bb, c["name"]))
    ctx.ob("E7.shares", "raw-payload-readers", not raw, "share payload bytes are read raw (Share::value / value_vec) only inside the container's own impls: %s" % [(f.key, n) for f, b, n in raw][:4], where=where(raw[0][0], raw[0][1]) if raw else None)
    # direct field access to the byte array of a share container outside its own impls
    direct = []
    for fn in P.fns.values():
        if allowed_raw(fn) or fn.from_expansion:
            continue
        ev = evaluate(fn)
        for bb, s in ev.sites.items():
            for a in s.args:
                for t in subterms(a):
                    if t.op == "field" and t.a[1] == "0":
                        base = t.a[0]
                        while base.op in ("ref", "deref"):
                            base = base.a[0]
                        if base.op == "param" and (fn.locals[base.a[0]].get("adt") or "").startswith("InnerPointShare"):
                            direct.append((fn, bb))
    ctx.ob("E7.shares", "direct-array-access", not direct, "no function outside the container's impls reads the raw byte array of a point share: %s" % [f.key for f, b in direct][:4], where=where(*direct[0]) if direct else None)
    check_no_swallowed_decoder_errors(ctx, P)
    # ... and every payload does reach the validating combiner: none is filtered out or skipped on the way
    F.check_combiner_images(ctx, "E6.combine", P)
    F.check_core_combiners(ctx, "E6.combine", P)
    ctx.assume("GroupEncoding::from_bytes of both backends rejects points off the curve or outside the prime-order subgroup; vsss-rs Share::as_group_element / combine_shares_group end in GroupEncoding::from_bytes (dependency contracts, blstrs_plus 0.8.18 / bls12_381_plus 0.8.18 / vsss-rs 4.3.8)")


def check_success_is_decoders(ctx, P, ty, f, ev, is_dec, what):
    """No success of the reader's own: every value returned as Ok is built from the checked decoder's result or is
    returned where the decoder's verdict has been branched on."""
    for rb in sorted(ev.ret_at):
        rv = strip_sites(ev.ret_at[rb])
        alts = list(rv.a[0]) if rv.op == "phi" else [rv]
        for a_ in alts:
            if a_.op == "agg" and a_.a[0][0] == "adt" and len(a_.a[0]) > 2 and a_.a[0][2] == "Err":
                continue
            if a_.op == "call" and B.cname(a_) == "FromResidual::from_residual":
                continue  # the `?` operator's early return: an Err (the residual of a Result carries no success)
            via_value = any(is_dec(t) for t in subterms(a_))
            via_path = any(hasattr(x, "op") and any(is_dec(t) for t in subterms(strip_sites(x))) for atom, pol in G.path_literals(ev, rb, P, checks_only=True) for x in atom[2:])
            ctx.ob("E4.decode-verdict", "%s@bb%d" % (ty, rb), via_value or via_path, "%s::try_from hands out as success only what the checked decoder accepted (value built from %s=%s, exit behind its verdict=%s): %s" % (ty, what, via_value, via_path, show(a_, 3)), where=where(f, rb))


def check_point_reader_exact_len(ctx, P, rs, types):
    """Raw point readers decode under len(input) == len(representation), on the input bytes themselves (a reader that
    takes a prefix accepts over-long input: trailing bytes, two values glued together)."""
    for ty in types:
        f = rs.get(ty)
        if f is None:
            ctx.ob("E4.len.anchor", ty, False, "raw point reader of `%s` not found" % ty)
            continue
        ev = evaluate(f)
        fb = [s for s in ev.sites.values() if s.callee[0] == "GroupEncoding::from_bytes"]
        ok = len(fb) == 1
        if ok:
            lits = G.path_literals(ev, fb[0].bb, P, checks_only=True)
            eq = False
            for atom, pol in lits:
                if atom[0] == "atom" and atom[1] == "cmp":
                    op = atom[2] if pol else R._NEG[atom[2]]
                    sides = (atom[3], atom[4])
                    has_in = any(R._is_len_of(x, "value") for x in sides)
                    has_repr = any(any(t.op == "call" and B.cname(t) == "GroupEncoding::to_bytes" for t in subterms(x)) for x in sides)
                    if op == "Eq" and has_in and has_repr:
                        eq = True
            # the decoded buffer is the input copied into the representation
            arg = strip_sites(fb[0].args[0])
            copied = any(t.op == "mutcall" and B.cname(t) == "slice::<impl [T]>::copy_from_slice" and any(x.op == "param" and x.a[1] == "value" for x in subterms(t)) for t in subterms(arg))
            # ... and nothing else: no byte of the buffer is rewritten between the copy and the decoder (a flag bit forced
            # on, a byte masked: two different inputs then decode to the same value)
            edits = [x for x in subterms(arg) if x.op == "store" or (x.op == "mutcall" and B.cname(x) != "slice::<impl [T]>::copy_from_slice")]
            copied = copied and not edits
            ok = eq and copied
        ctx.ob("E4.len", ty, ok, "%s::try_from: checked from_bytes under len(value) == len(representation), on the input bytes themselves, unedited" % ty, where=where(f))
        # ... and no success of its own: whatever the reader returns as Ok is the checked decoder's payload, or is
        # returned where the decoder's verdict has been branched on (a shortcut that recognises "the identity" by a flag
        # byte, a cached value, accepts encodings the decoder would refuse)
        check_success_is_decoders(ctx, P, ty, f, ev, lambda t: t.op == "call" and B.cname(t) == "GroupEncoding::from_bytes", "from_bytes")


_SWALLOW = ("unwrap_or", "unwrap_or_default", "unwrap_or_else")
# (serde's `next_element` / `next_value` among them: an element the document does not have is a truncated document, not a
# default value)
_FALLIBLE = ("combine_shares_group", "combine_shares", "core_combine_signature_shares", "core_combine_public_key_shares", "as_group_element", "as_field_element", "from_bytes", "from_repr", "from_slice", "next_element", "next_element_seed", "next_value", "next_value_seed", "next_entry")


def check_no_swallowed_decoder_errors(ctx, P, rule="E4.no-swallow"):
    """"...reports an error if any payload is not a valid subgroup point": in a function that returns a Result, the verdict
    of a checked decoder / share combiner is never replaced by a default value (`.ok().unwrap_or_default()`,
    `unwrap_or(..)`): the returned value contains no such combinator over a fallible decoding call.  Helpers that the
    pinned tree does not have are looked through (spliced), so moving the combinator into a helper changes nothing."""
    n = 0
    for k, f in sorted(P.fns.items()):
        if f.from_expansion or not str(f.locals[0].get("ty") or "").startswith("Result<"):
            continue
        n += 1
        r = strip_sites(evaluate(f).ret)
        bad = []
        for x in subterms(r):
            if x.op == "call" and B.cname(x).split("::")[-1] in _SWALLOW and x.a[1]:
                inner = [B.cname(y) for y in subterms(x.a[1][0]) if y.op == "call" and B.cname(y).split("::")[-1] in _FALLIBLE]
                if inner:
                    bad.append("%s over %s" % (B.cname(x), inner[0]))
        if bad:
            ctx.ob(rule, k, False, "%s returns a Result but replaces a decoder's / combiner's error by a default value: %s" % (k, "; ".join(bad[:2])), where=where(f))
    ctx.ob(rule, "census", True, "%d Result-returning functions inspected" % n)
    ctx.floor(rule, "Result-returning functions", n, 60)
