"""C10 - signature proofs of knowledge: complete, challenge-bound, time-bound."""
from ..core.sym import evaluate, strip_sites
from ..core.terms import show, subterms
from ..core import guards as G
from ..core import bytesnf as B
from .common import where, check_arm_purity
from . import guardrules as R
from . import flow as F
from . import protocols as PR
from . import aborts as A

EXPLANATION = (
    "Decides the protocol glue for all inputs: generate/finalize/verify (plain and timestamp variants) select the tag by the "
    "scheme variant, and finalize accepts only matching (commitment, signature) variants (diagonal rule); the challenge input is "
    "to_bytes(u) ‖ to_le_bytes(t) under the pinned salt, the generator returns (compute_y(u,t), t) with t in milliseconds since "
    "the epoch and the verifier recomputes y from the received timestamp and forwards commitment, proof, key, message and tag "
    "unmodified into the pairing check (accept only through is_identity(pairing) with guards on commitment, proof, key and y); "
    "on the Some(timeout) arm an Err exit is taken when elapsed exceeds the timeout, with elapsed computed as as_millis of "
    "(now - (UNIX_EPOCH + from_millis(t))) (direction and unit rule), and on the None arm no clock is consulted; every "
    "abort-capable instruction reachable from ProofOfKnowledgeTimestamp::verify in blsful's own frames is discharged (no abort for "
    "any timestamp). Not decided: soundness / zero-knowledge of the Σ-protocol."
)
RULE = "E2 arm purity + diagonal; E5 construction terms; E4 guard dominance + comparison direction/unit rule; E6 pass-through; E8 abort census restricted to the timestamp verifier"

FNS = ["ProofCommitment<C>::generate", "ProofCommitment<C>::finalize", "ProofOfKnowledge<C>::verify", "ProofOfKnowledgeTimestamp<C>::generate", "ProofOfKnowledgeTimestamp<C>::verify"]


def run(ctx):
    P = ctx.P
    fns = [f for f in (ctx.need_fn("E2-A", k) for k in FNS) if f is not None]
    from .common import with_mappers, check_dispatching

    check_arm_purity(ctx, "E2-A", P, with_mappers(P, fns))
    check_dispatching(ctx, "E2-A", P, fns)
    # completeness: "the holder of a valid signature can always complete the protocol" for EVERY message - commitment,
    # proof and verification decide through the hash of the message only; no branch on the way reads the message itself
    # (its length, its bytes), so no message is refused for what it looks like
    from . import flow as F_mb

    F_mb.check_message_blind_control(ctx, "E6.msg-blind", P, ["ProofCommitment<C>::generate", "ProofOfKnowledge<C>::verify", "ProofOfKnowledgeTimestamp<C>::generate", "ProofOfKnowledgeTimestamp<C>::verify"], floor=4)
    from . import spec as SP
    from . import constructions as K_

    # "... for no other challenge": a hash-derived challenge depends on every byte of what was hashed
    K_.check_hash_derivations(ctx, P, fns=("ProofCommitmentChallenge<C>::from_hash",))

    # finalize: only diagonal pairs reach generate_proof (decided per (commitment variant, signature variant) pair)
    f = P.fns.get("ProofCommitment<C>::finalize")
    if f is not None:
        npairs = 0
        for assume in SP.assumptions(P, f):
            if len(assume) < 2:
                continue
            sev = evaluate(f, assume)
            V = SP.variant_of(assume)
            label = "/".join(v for _, v in sorted(assume.items()))
            calls = [x for _, x in sorted(sev.sites.items()) if x.callee[0] == "BlsSignatureProof::generate_proof"]
            npairs += 1
            if V is None:
                ctx.ob("E2.diagonal", "finalize@%s" % label, not calls, "commitment and signature of different variants (%s) never reach generate_proof (%d call(s))" % (label, len(calls)), where=where(f))
                continue
            ctx.ob("E2.diagonal", "finalize@%s" % label, len(calls) == 1, "matching variants reach generate_proof exactly once (%d)" % len(calls), where=where(f))
            for c in calls:
                a = [strip_sites(x) for x in c.args]
                roots = [F.projection_root(x) for x in a]
                ctx.ob("E6.pass", "finalize->generate_proof@%s" % V, all(roots) and [r[0].a[1] for r in roots] == ["self", "x", "y", "sig"], "generate_proof receives (commitment, x, y, signature) as pure projections: %s" % [show(x, 3) for x in a], where=where(f, c.bb))
        ctx.floor("E2.diagonal", "(commitment variant, signature variant) pairs", npairs, 9)
    # wrappers forward their inputs (per scheme assumption)
    for fk, sink, want in (
        ("ProofOfKnowledge<C>::verify", "BlsSignatureProof::verify", ["self", "self", "pk", "y", None, None]),
        ("ProofOfKnowledgeTimestamp<C>::verify", "BlsSignatureProof::verify_timestamp_proof", ["self", "self", "pk", "self", "timeout_ms", None, None]),
        ("ProofOfKnowledgeTimestamp<C>::generate", "BlsSignatureProof::generate_timestamp_proof", [None, None, "signature"]),
        ("ProofCommitment<C>::generate", "BlsSignatureProof::generate_commitment", [None, None]),
    ):
        f = P.fns.get(fk)
        if f is None:
            continue
        n = 0
        for assume in SP.assumptions(P, f):
            V = SP.variant_of(assume)
            if not assume or V is None:
                continue
            sev = evaluate(f, assume)
            calls = [x for _, x in sorted(sev.sites.items()) if x.callee[0] == sink]
            ctx.ob("E6.pass.anchor", "%s@%s" % (fk, V), len(calls) == 1, "scheme %s reaches %s exactly once (%d)" % (V, sink, len(calls)), where=where(f))
            for c in calls:
                n += 1
                got = []
                for x in c.args:
                    r = F.projection_root(strip_sites(x))
                    got.append(r[0].a[1] if r else None)
                ok = all(w is None or w == g for w, g in zip(want, got)) and len(got) == len(want)
                ctx.ob("E6.pass", "%s->%s@%s" % (fk, sink.split("::")[-1], V), ok, "arguments are projections of %s (found %s)" % (want, got), where=where(f, c.bb))
        ctx.floor("E6.pass", "schemes of %s reaching %s" % (fk, sink.split("::")[-1]), n, 3)
    # timestamp field is the one returned by the generator
    f = P.fns.get("ProofOfKnowledgeTimestamp<C>::generate")
    if f is not None:
        ev = evaluate(f)
        oks = [R.ok_value(ev.fn, ev, b) for b in R.ok_blocks(f)]
        good = bool(oks)
        for v in oks:
            inner = [t for t in subterms(v) if t.op == "agg" and t.a[0][1:2] == ("ProofOfKnowledgeTimestamp",)]
            if not inner:
                good = False
                continue
            ts = strip_sites(inner[0].a[1][1])
            good = good and ts.op == "field" and ts.a[1] == "2" and any(s.op == "call" and B.cname(s) == "BlsSignatureProof::generate_timestamp_proof" for s in subterms(ts))
        ctx.ob("E6.pass", "ProofOfKnowledgeTimestamp<C>::generate/timestamp", good, "stored timestamp is the third component returned by generate_timestamp_proof", where=where(f))
    check_pok_signer_agreement(ctx, P)
    # construction
    PR.check_compute_y(ctx, "E5.challenge", P)
    PR.check_timestamp_sides(ctx, "E3.challenge", P)
    f = P.fns.get("BlsSignatureProof::generate_timestamp_proof")
    if f is not None:
        ev = evaluate(f)
        s = [x for x in ev.sites.values() if x.callee[0] == "BlsSignatureProof::generate_timestamp_based_y"]
        ok = bool(s) and any(t.op == "call" and B.cname(t) == "Mul::mul" for t in subterms(s[0].args[0]))
        ctx.ob("E3.challenge", "generate_timestamp_proof/u", ok, "y is derived from the commitment u = hash_to_point(msg,dst)*x actually returned", where=where(f))
    PR.check_timeout(ctx, "E4.timeout", P)
    # the freshness test only ever rejects: whatever verify_timestamp_proof returns as success is the verdict of the pairing
    # check `verify(commitment, proof, pk, compute_y(commitment, t), msg, dst)` - never a success of its own
    fv = P.fns.get("BlsSignatureProof::verify_timestamp_proof")
    if fv is not None:
        evv = evaluate(fv)
        rv = strip_sites(evv.ret)
        alts = list(rv.a[0]) if rv.op == "phi" else [rv]
        own_ok = [a_ for a_ in alts if a_.op == "agg" and a_.a[0][0] == "adt" and a_.a[0][1] == "Result" and a_.a[0][2] == "Ok"]
        ver = [a_ for a_ in alts if a_.op == "call" and B.cname(a_) == "BlsSignatureProof::verify"]
        args_ok = bool(ver)
        for a_ in ver:
            names = [(F.projection_root(x) or [None])[0] for x in a_.a[1]]
            nm = [n_.a[1] if n_ is not None and n_.op == "param" else None for n_ in names]
            ycall = B.peel(a_.a[1][3]) if len(a_.a[1]) > 3 else None
            args_ok = args_ok and len(a_.a[1]) == 6 and nm[:3] == ["commitment", "proof", "pk"] and nm[4:] == ["msg", "dst"] and ycall is not None and ycall.op == "call" and B.cname(ycall) == "BlsSignatureProof::compute_y"
        ctx.ob("E4.pairing", "BlsSignatureProof::verify_timestamp_proof/ok", not own_ok and args_ok, "success of verify_timestamp_proof is the verdict of verify(commitment, proof, pk, compute_y(..), msg, dst) itself (alternatives returned: %s)" % [show(a_, 2) for a_ in alts][:5], where=where(fv))
    # guards (C04 subset) + accept through pairing
    for fk, kind, subj in (
        ("BlsSignatureProof::verify", "is_identity", ("param", "commitment")),
        ("BlsSignatureProof::verify", "is_identity", ("param", "proof")),
        ("BlsSignatureProof::verify", "is_identity", ("param", "pk")),
        ("BlsSignatureProof::verify", "is_zero", ("param", "y")),
        ("BlsSignatureProof::generate_proof", "is_identity", ("param", "commitment")),
        ("BlsSignatureProof::generate_proof", "is_identity", ("param", "sig")),
        ("BlsSignatureProof::generate_proof", "is_zero", ("param", "x")),
        ("BlsSignatureProof::generate_proof", "is_zero", ("param", "y")),
    ):
        R.check_result_guard(ctx, "E4.result", P, fk, kind, subj)
    f = P.fns.get("BlsSignatureProof::verify")
    if f is not None:
        ev = evaluate(f)
        for b, lits in R.ok_exits(P, f, ev):
            pair = [a for a, p in lits if p and a[1] == "is_identity" and a[2].op == "call" and B.cname(a[2]) == "Pairing::pairing"]
            ok = len(pair) == 1
            if ok:
                names = {s.a[1] for s in subterms(pair[0][2]) if s.op == "param"}
                ok = {"commitment", "proof", "pk", "y", "msg", "dst"} <= names
            ctx.ob("E4.pairing", "BlsSignatureProof::verify/ok", ok, "accept only through is_identity(pairing(..)) whose input depends on commitment, proof, pk, y, msg and dst", where=where(f, b))
    from . import equations as EQ

    EQ.check_pok_equations(ctx, "E5.equation", P)
    # E8: no abort for any timestamp
    A.check_aborts(ctx, "E8", P, ["ProofOfKnowledgeTimestamp<C>::verify"], scope="C10")
    ctx.assume("SystemTime arithmetic: UNIX_EPOCH + Duration::from_millis(u64) cannot overflow the platform's SystemTime range on 64-bit Linux (std contract: u64 ms < 2^63 s)")


def check_pok_signer_agreement(ctx, P):
    """Sibling agreement signer <-> proof of knowledge: for every scheme arm the point the commitment and the
    verifier hash (tag, framing of the message) is the point that scheme's signer hashed, and the three
    stages (generate / timestamp-generate / verify / timestamp-verify) of one scheme use the same tag."""
    from . import constructions as K
    from .common import SCHEME_TRAITS, scheme_context, TAG_CONSTS
    from .c13 import _canon

    rows = K.core_call_table(ctx, P)
    signer = {}
    for r in rows:
        if r["sink"].endswith("core_sign") and r["fn"].name == "sign":
            signer[SCHEME_TRAITS[r["fn"].trait_default_of]] = (r["tag"], _canon(K._canon_nf(r)))
    from . import spec as SP

    sinks = {"BlsSignatureProof::generate_commitment": (0, 1), "BlsSignatureProof::generate_timestamp_proof": (0, 1), "BlsSignatureProof::verify": (4, 5), "BlsSignatureProof::verify_timestamp_proof": (5, 6)}
    n = 0
    for fk in FNS:
        f = P.fns.get(fk)
        if f is None:
            continue
        for assume in SP.assumptions(P, f):
            sch = SP.variant_of(assume)
            if not assume or sch is None:
                continue
            ev = evaluate(f, assume)
            for bb, s in sorted(ev.sites.items()):
                if s.callee[0] not in sinks:
                    continue
                mi, ti = sinks[s.callee[0]]
                tagt = B.peel(strip_sites(SP.spec_inline(P, ev, s.args[ti], 2)))
                tag = tagt.a[0] if tagt.op == "assoc" else None
                msgt = SP.spec_inline(P, ev, s.args[mi], 2, stop=lambda g: not K.local_inliner(P)(g))
                msg = _canon(B.show_nf(B.nf(ev, msgt)))
                want = signer.get(sch)
                n += 1
                ok_tag = want is not None and tag == want[0]
                ctx.ob("E3.signer.tag", "%s/%s" % (fk, sch), ok_tag, "scheme %s: %s hashes under %s; the signer hashes under %s" % (sch, s.callee[0].split("::")[-1], tag if tag else show(tagt, 3), want[0] if want else None), where=where(f, bb))
                ok_msg = want is not None and msg == want[1]
                ctx.ob("E3.signer.msg", "%s/%s" % (fk, sch), ok_msg, "scheme %s: %s hashes `%s`; the signer hashes `%s` (for the proof to verify both must be the same point)" % (sch, s.callee[0].split("::")[-1], msg, want[1] if want else None), where=where(f, bb), sample={"scheme": sch, "pok": msg, "signer": want[1] if want else None})
    ctx.floor("E3.signer", "scheme arms of the proof-of-knowledge wrappers", n, 12)
