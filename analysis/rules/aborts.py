"""E8: abort-site census over the untrusted-input call graph with re-checked justifications."""
import json
import os
import re

from ..core.sym import evaluate, strip_sites
from ..core.terms import T, show, subterms
from ..core import guards as G
from ..core import bytesnf as B
from .common import where, reachable_fns, SPEC_DIR
from . import guardrules as R
from . import flow as F

PANICKING = {
    # callee display name -> kind
    "Result::<T, E>::unwrap": "unwrap",
    "Result::<T, E>::expect": "expect",
    "Result::<T, E>::unwrap_err": "unwrap",
    "Option::<T>::unwrap": "unwrap",
    "Option::<T>::expect": "expect",
    "CtOption::<T>::unwrap": "ct-unwrap",
    "CtOption::<T>::expect": "ct-unwrap",
    "Index::index": "index",
    "IndexMut::index_mut": "index",
    "slice::<impl [T]>::copy_from_slice": "copy_from_slice",
    "slice::<impl [T]>::clone_from_slice": "copy_from_slice",
    "slice::<impl [T]>::split_at": "split_at",
    "slice::<impl [T]>::split_at_mut": "split_at",
    "slice::<impl [T]>::chunks": "chunks",
    "slice::<impl [T]>::chunks_exact": "chunks",
    "slice::<impl [T]>::windows": "chunks",
    "Vec::<T, A>::insert": "vec-insert",
    "Vec::<T, A>::remove": "vec-remove",
    "Vec::<T, A>::swap_remove": "vec-remove",
    "Vec::<T, A>::drain": "vec-remove",
    "Vec::<T, A>::split_off": "vec-remove",
    "Iterator::step_by": "step_by",
    # documented "Panics" sections of std APIs on strings, slices and vectors
    "str::<impl str>::split_at": "std-panics",
    "str::<impl str>::split_at_mut": "std-panics",
    "String::insert": "std-panics",
    "String::insert_str": "std-panics",
    "String::remove": "std-panics",
    "String::truncate": "std-panics",
    "String::drain": "std-panics",
    "String::split_off": "std-panics",
    "String::replace_range": "std-panics",
    "slice::<impl [T]>::swap": "std-panics",
    "slice::<impl [T]>::rotate_left": "std-panics",
    "slice::<impl [T]>::rotate_right": "std-panics",
    "slice::<impl [T]>::copy_within": "std-panics",
    "slice::<impl [T]>::swap_with_slice": "std-panics",
    "slice::<impl [T]>::rchunks": "chunks",
    "slice::<impl [T]>::rchunks_exact": "chunks",
    "slice::<impl [T]>::chunks_mut": "chunks",
    "slice::<impl [T]>::chunks_exact_mut": "chunks",
    "slice::<impl [T]>::select_nth_unstable": "std-panics",
    "slice::<impl [T]>::as_chunks": "std-panics",
    "slice::<impl [T]>::as_rchunks": "std-panics",
    "slice::<impl [T]>::repeat": "std-panics",
    "Vec::<T, A>::extend_from_within": "std-panics",
    "Vec::<T, A>::splice": "std-panics",
    "VecDeque::<T, A>::swap": "std-panics",
    "VecDeque::<T, A>::insert": "std-panics",
    "char::from_digit": "std-panics",
    "char::methods::<impl char>::to_digit": "std-panics",
    "Duration::from_secs_f64": "std-panics",
    "Duration::from_secs_f32": "std-panics",
    "Duration::mul_f64": "std-panics",
    "Duration::new": "std-panics",
    "RefCell::<T>::borrow_mut": "refcell",
    "RefCell::<T>::borrow": "refcell",
}
# #[track_caller] functions of std that cannot panic for any argument (the attribute is there for a callee's sake or
# for allocation failure, which is out of scope): triaged one by one
TRACKED_TOTAL = {
    "FromResidual::from_residual": "`?` - forwards the error value through From::from, which the crate's impls define as plain constructors",
    "Into::into": "blanket impl over From::from",
    "From::from": "conversion impls of std are total",
    "Try::branch": "discriminant test",
    # combinators that only forward to the closure / value they are given (the attribute is there for the closure's sake;
    # the closure's own body is part of the census)
    "Option::<T>::unwrap_or_else": "calls the closure on None",
    "Option::<T>::map_or_else": "calls one of the closures",
    "Option::<T>::map_or": "calls the closure on Some",
    "Option::<T>::map": "calls the closure on Some",
    "Option::<T>::and_then": "calls the closure on Some",
    "Option::<T>::or_else": "calls the closure on None",
    "Option::<T>::ok_or_else": "calls the closure on None",
    "Option::<T>::filter": "calls the closure on Some",
    "Option::<T>::unwrap_or": "returns the default",
    "Option::<T>::unwrap_or_default": "returns Default::default()",
    "Option::<T>::get_or_insert_with": "calls the closure on None",
    "Option::<T>::is_some_and": "calls the closure on Some",
    "Option::<T>::is_none_or": "calls the closure on Some",
    "Result::<T, E>::unwrap_or_else": "calls the closure on Err",
    "Result::<T, E>::map_or_else": "calls one of the closures",
    "Result::<T, E>::map_or": "calls the closure on Ok",
    "Result::<T, E>::map": "calls the closure on Ok",
    "Result::<T, E>::map_err": "calls the closure on Err",
    "Result::<T, E>::and_then": "calls the closure on Ok",
    "Result::<T, E>::or_else": "calls the closure on Err",
    "Result::<T, E>::unwrap_or": "returns the default",
    "Result::<T, E>::unwrap_or_default": "returns Default::default()",
    "bool::then": "calls the closure on true",
    "bool::then_some": "wraps the value",
    "FnOnce::call_once": "the callee's body is part of the census",
    "FnMut::call_mut": "the callee's body is part of the census",
    "Fn::call": "the callee's body is part of the census",
    "BitXor::bitxor": "bit operations on primitive integers (by value or by reference) cannot overflow",
    "BitAnd::bitand": "bit operation",
    "BitOr::bitor": "bit operation",
    "Not::not": "bit operation",
    "BitXorAssign::bitxor_assign": "bit operation",
    "BitAndAssign::bitand_assign": "bit operation",
    "BitOrAssign::bitor_assign": "bit operation",
    "Clone::clone": "allocation only",
    "ToOwned::to_owned": "allocation only",
    "ToString::to_string": "allocation only (Display impls of the crate are checked separately)",
    "slice::<impl [T]>::to_vec": "allocation only",
    "Vec::<T, A>::push": "allocation only",
    "Vec::<T, A>::reserve": "allocation only",
    "Vec::<T, A>::extend_from_slice": "allocation only",
    "Vec::<T>::with_capacity": "allocation only",
    "String::push_str": "allocation only",
    "String::push": "allocation only",
    "Iterator::collect": "allocation only",
    "FromIterator::from_iter": "allocation only",
    "Extend::extend": "allocation only",
    "alloc::from_elem": "allocation only",
    "Vec::<T, A>::resize": "allocation only",
    "Vec::<T, A>::append": "allocation only",
    "Box::<T>::new": "allocation only",
    "alloc::format": "allocation only",
}
PANIC_PATH = re.compile(r"(^|::)(panicking::|rt::begin_panic|panic_fmt|panic_display|assert_failed|unreachable_display|panic_any|process::abort|process::exit|handle_alloc_error|unwrap_failed|expect_failed|option::expect_failed|slice_index_fail|len_mismatch_fail)")


def site_kind(t):
    """Classify a call terminator as an abort-capable call, or None."""
    c = t.get("callee")
    if not c:
        return None
    from ..core.sym import callee_id

    name = callee_id(c)[0]
    if name in PANICKING and PANICKING[name]:
        return PANICKING[name]
    p = c["path"]
    if PANIC_PATH.search(p):
        return "panic"
    if (c.get("track_caller") or (c.get("resolved") or {}).get("track_caller")) and c.get("crate") in ("core", "std", "alloc") and name not in TRACKED_TOTAL:
        # std marks with #[track_caller] the functions that panic on behalf of their caller: one that is neither in the
        # table above nor triaged as total below is an abort-capable call (str::split_at, slice::swap, Vec::remove ...)
        return "track-caller"
    if c.get("trait") in ("Add", "Sub", "AddAssign", "SubAssign") and c.get("self_ty") in ("SystemTime", "Instant", "Duration"):
        return "time-arith"
    if c.get("trait") in ("Div", "Rem") and c.get("self_ty") in ("Duration",):
        return "time-arith"
    return None


def census(P, fns):
    """All abort-capable sites in the given functions: list of dicts."""
    out = []
    for f in fns:
        ev = None
        for b in sorted(f.cfg.reachable):
            blk = f.blocks[b]
            t = blk["term"]
            if t["k"] == "assert":
                out.append({"fn": f, "bb": b, "kind": "assert:" + t["kind"], "term": t})
            elif t["k"] in ("call", "tailcall"):
                k = site_kind(t)
                if k:
                    out.append({"fn": f, "bb": b, "kind": "call:" + k, "term": t})
        # loops without an iterator/induction exit are listed separately
    return out


def site_key(s):
    """Line-free key: fn / kind / what it is applied to."""
    f = s["fn"]
    t = s["term"]
    ev = evaluate(f)
    if t["k"] == "assert":
        cond, ops = ev.asserts.get(s["bb"], (None, ()))
        what = show(strip_sites(ops[-1]) if ops else (strip_sites(cond) if cond is not None else None), 3) if (ops or cond is not None) else ""
        if t["kind"] == "BoundsCheck" and len(ops) == 2:
            what = "[%s] of len %s" % (show(strip_sites(ops[1]), 3), show(strip_sites(ops[0]), 3))
        return "%s/%s/%s" % (f.key, s["kind"], what)
    site = ev.sites.get(s["bb"])
    mac = t.get("mac") or []
    what = ""
    if site is not None and site.args:
        what = show(strip_sites(site.args[0]), 3)
    if s["kind"] == "call:panic":
        what = (mac[-1] if mac else "") + ":" + (site.callee[0] if site else "")
        # include the assertion subject for debug_assert!s
        if site is not None and len(site.args) >= 2:
            what += "(" + show(strip_sites(site.args[1]), 3) + ")"
    return "%s/%s/%s" % (f.key, s["kind"], what)


# ---------------------------------------------------------------------------
# discharge rules (each re-checked on every run)


def _const_true(cond, expected):
    from ..core.program import const_bool

    try:
        r = F.eval_int(cond, {})
        return bool(r[0]) == expected
    except Exception:
        return False


def _ub(t, depth=0):
    """Upper bound of a usize term built from constants and elements of constant ranges (`for i in 0..N`), else None."""
    if depth > 6:
        return None
    t = B.peel(t)
    c = B._const_int(t)
    if c is not None:
        return c
    if t.op == "field" and t.a[1] == "0" and t.a[0].op == "downcast" and t.a[0].a[1] == "Some":
        nx = B.peel(t.a[0].a[0])
        if nx.op == "call" and B.cname(nx) == "Iterator::next" and nx.a[1]:
            src = B.peel(nx.a[1][0])
            if src.op == "loop":
                src = B.peel(src.a[2])
            while src.op == "call" and B.cname(src) in ("IntoIterator::into_iter",) and len(src.a[1]) == 1:
                src = B.peel(src.a[1][0])
            if src.op == "agg" and src.a[0][0] == "adt" and src.a[0][1] in ("Range", "RangeInclusive") and len(src.a[1]) == 2:
                lo_, hi_ = R._cval(src.a[1][0]), R._cval(src.a[1][1])
                if lo_ is not None and hi_ is not None and 0 <= lo_:
                    return max(lo_, hi_ - 1)
        return None
    if t.op == "field" and t.a[1] == "0" and t.a[0].op == "bin" and t.a[0].a[0] == "AddWithOverflow":
        a, b = _ub(t.a[0].a[1], depth + 1), _ub(t.a[0].a[2], depth + 1)
        return a + b if a is not None and b is not None else None
    if t.op == "bin" and t.a[0] in ("Add", "AddUnchecked"):
        a, b = _ub(t.a[1], depth + 1), _ub(t.a[2], depth + 1)
        return a + b if a is not None and b is not None else None
    return None


def _inside_iteration_over(lits, base):
    """A literal on the path says `iter.next()` returned Some for an iterator over `base` itself (`for x in base`,
    `base.iter()`, with enumerate / copied / cloned on top): base is non-empty there."""
    for atom, pol in lits:
        if not (atom[0] == "atom" and atom[1] == "switch" and len(atom) > 3 and pol and atom[3] == 1 and atom[2].op == "discr"):
            continue
        nx = B.peel(atom[2].a[0])
        if not (nx.op == "call" and B.cname(nx) == "Iterator::next" and nx.a[1]):
            continue
        src = B.peel(nx.a[1][0])
        if src.op == "loop":
            src = B.peel(src.a[2])
        k = 0
        # (an element of `base.iter().skip(n)` / `.take(n)` / `.rev()` / `&base[n..]` is an element of base just as well)
        while k < 8:
            if src.op == "call" and len(src.a[1]) >= 1 and B.cname(src) in ("IntoIterator::into_iter", "slice::<impl [T]>::iter", "Iterator::enumerate", "Iterator::copied", "Iterator::cloned", "Iterator::skip", "Iterator::take", "Iterator::rev", "Iterator::peekable", "Iterator::by_ref", "Iterator::step_by"):
                src = B.peel(src.a[1][0])
            elif src.op == "call" and B.cname(src) == "Index::index" and len(src.a[1]) == 2 and B.peel(src.a[1][1]).op == "agg" and B.peel(src.a[1][1]).a[0][0] == "adt" and str(B.peel(src.a[1][1]).a[0][1]).startswith("Range"):
                src = B.peel(src.a[1][0])
            else:
                break
            k += 1
        if strip_sites(src) == strip_sites(base):
            return True
    return False


def _at_most_len(hi, lnform, depth=0):
    """`hi` is the length `lnform` itself or a minimum one of whose operands is (`min(a.len(), b.len())` <= either)."""
    hi = B.peel(hi)
    if lnform is not None and B._len_term(hi) == lnform:
        return True
    if depth < 3 and hi.op == "call" and B.cname(hi) in ("core::min", "cmp::min", "Ord::min") and len(hi.a[1]) == 2:
        return any(_at_most_len(z, lnform, depth + 1) for z in hi.a[1])
    return False


def _element_index_in_bounds(ix, lnform, lits):
    """`ix` is a position below the length `lnform` (a `B._len_term` form): an element of `0..len`, or a value a guard on
    the path compares as `ix < len`."""
    ixp = B.peel(ix)
    if ixp.op == "field" and ixp.a[1] == "0" and ixp.a[0].op == "downcast" and ixp.a[0].a[1] == "Some":
        nx = B.peel(ixp.a[0].a[0])
        if nx.op == "call" and B.cname(nx) == "Iterator::next" and nx.a[1]:
            src = B.peel(nx.a[1][0])
            if src.op == "loop":
                src = B.peel(src.a[2])
            while src.op == "call" and B.cname(src) in ("IntoIterator::into_iter",) and len(src.a[1]) == 1:
                src = B.peel(src.a[1][0])
            if src.op == "agg" and src.a[0][0] == "adt" and src.a[0][1] == "Range" and len(src.a[1]) == 2:
                lo_, hi_ = src.a[1]
                if B._const_int(lo_) is not None and B._const_int(lo_) >= 0 and _at_most_len(strip_sites(hi_), lnform):
                    return ("range-index", "index ranges over %s..n with n <= len of the indexed sequence" % B._const_int(lo_))
    for atom, pol in lits:
        if atom[0] == "atom" and atom[1] == "cmp":
            op, x, y = atom[2], atom[3], atom[4]
            if not pol:
                op = R._NEG[op]
            if op == "Lt" and strip_sites(B.peel(x)) == strip_sites(ixp) and B._len_term(strip_sites(y)) == lnform:
                return ("len-guard", "dominated by index < len of the indexed sequence")
            if op == "Gt" and strip_sites(B.peel(y)) == strip_sites(ixp) and B._len_term(strip_sites(x)) == lnform:
                return ("len-guard", "dominated by len of the indexed sequence > index")
    return None


def discharge(P, s):
    """Return (rule, explanation) if the site provably cannot abort, else None."""
    f = s["fn"]
    t = s["term"]
    ev = evaluate(f)
    b = s["bb"]
    lits = G.path_literals(ev, b, P)
    _CUR["P"] = P
    _CUR["fn"] = f
    if t["k"] == "assert":
        cond, ops = ev.asserts.get(b, (None, ()))
        if cond is not None and _const_true(strip_sites(cond), t["expected"]):
            return ("const", "condition folds to %s" % t["expected"])
        kind = t["kind"]
        if kind == "BoundsCheck" and len(ops) == 2:
            ln, ix = strip_sites(ops[0]), strip_sites(ops[1])
            # `for i in 0..N { arr[i] }` over an array of length N: the index is an element of the range 0..len
            ixp = B.peel(ix)
            if ixp.op == "field" and ixp.a[1] == "0" and ixp.a[0].op == "downcast" and ixp.a[0].a[1] == "Some":
                nx = B.peel(ixp.a[0].a[0])
                if nx.op == "call" and B.cname(nx) == "Iterator::next" and nx.a[1]:
                    src = B.peel(nx.a[1][0])
                    if src.op == "loop":
                        src = B.peel(src.a[2])
                    while src.op == "call" and B.cname(src) in ("IntoIterator::into_iter",) and len(src.a[1]) == 1:
                        src = B.peel(src.a[1][0])
                    if src.op == "agg" and src.a[0][0] == "adt" and src.a[0][1] == "Range" and len(src.a[1]) == 2:
                        lo_, hi_ = src.a[1]
                        if B._const_int(lo_) is not None and B._const_int(lo_) >= 0 and (strip_sites(hi_) == ln or B._len_term(strip_sites(hi_)) == B._len_term(ln) or (B._const_int(hi_) is not None and B._const_int(ln) is not None and B._const_int(hi_) <= B._const_int(ln))):
                            return ("range-index", "index ranges over %s..len of the indexed array" % B._const_int(lo_))
            r_ = _element_index_in_bounds(ix, B._len_term(ln), lits)
            if r_:
                return r_
            ci = B._const_int(ix)
            if ci is None:
                # bounded index (`bytes[i + 1]` for i in 0..N) under a guard that pins / bounds the length from below
                ub_ = _ub(ix)
                if ub_ is not None and ln.op in ("len", "call"):
                    base_ = B.peel(ln.a[0] if ln.op == "len" else (ln.a[1][0] if ln.a[1] else ln))
                    if base_.op == "param" and R.len_at_least(lits, base_.a[1], ub_ + 1):
                        return ("len-guard", "index <= %d and dominated by len(%s) >= %d" % (ub_, base_.a[1], ub_ + 1))
                    cl_ = B._const_int(ln)
                    if cl_ is not None and ub_ < cl_:
                        return ("const", "index <= %d < fixed length %d" % (ub_, cl_))
            # constant index into a fixed-size array
            cl = B._const_int(ln)
            if ci is not None and cl is not None and ci < cl:
                return ("const", "index %d < fixed length %d" % (ci, cl))
            # index = discriminant of a field-less enum (`TABLE[self as usize]`): all declared discriminants are below the length
            if cl is not None:
                x = ix
                for _ in range(6):
                    if x.op == "cast":
                        x = x.a[1]
                    elif x.op in ("ref", "deref"):
                        x = x.a[0]
                    elif x.op == "call" and B.cname(x) in ("From::from", "Into::into") and len(x.a[1]) == 1:
                        ga = x.a[0][1]
                        key = "<%s as From<%s>>::from" % ((ga[0], ga[1]) if B.cname(x) == "From::from" else (ga[1], ga[0])) if len(ga) >= 2 else None
                        g_ = P.fns.get(key) if key else None
                        if g_ is not None:
                            # the crate's own `u8::from(enum)`: it must be the plain discriminant cast
                            r_ = strip_sites(evaluate(g_).ret)
                            while r_.op == "cast":
                                r_ = r_.a[1]
                            if not (r_.op == "discr" and B.peel(r_.a[0]).op == "param"):
                                break
                            x = T("discr", x.a[1][0])
                        else:
                            x = x.a[1][0]  # integer widening of std
                    else:
                        break
                if x.op == "discr":
                    adts = [a for a in P.adts.values() if a.get("kind") == "enum" and not any(v.get("fields") for v in a["variants"])]
                    # the enum is read from the type of the switched place: every field-less crate enum whose type matches
                    tyname = None
                    inner = x.a[0]
                    while inner.op in ("ref", "deref"):
                        inner = inner.a[0]
                    if inner.op == "param":
                        tyname = str(f.locals[inner.a[0]].get("ty") or "").replace("&", "").strip()
                    for a in adts:
                        if tyname is not None and tyname.split("<")[0].split("::")[-1] == a["name"]:
                            mx = max(v.get("discr", v["index"]) for v in a["variants"])
                            if 0 <= mx < cl:
                                return ("enum-index", "index is the discriminant of %s (at most %d) into a table of length %d" % (a["name"], mx, cl))
            # index = closure parameter fed by `TABLE1.iter().position(..)` (`.map(|i| TABLE2[i])`): i < len(TABLE1) <= len(TABLE2)
            if cl is not None and f.kind == "Closure" and ix.op == "param":
                parent = P.fns.get(f.j.get("parent_key") or "") or next((g for g in P.fns.values() if g.kind != "Closure" and f.key.startswith(g.key + "::")), None)
                if parent is not None:
                    from . import flow as F_

                    pev = evaluate(parent)
                    for _, ps in sorted(pev.sites.items()):
                        if ps.callee[0].split("::")[-1] not in ("map", "map_or", "map_or_else", "and_then") or not ps.args:
                            continue
                        clo = B.peel(ps.args[-1])
                        if not (clo.op == "agg" and clo.a[0][0] == "closure" and clo.a[0][1] == f.key):
                            continue
                        recv = B.peel(strip_sites(ps.args[0]))
                        if recv.op == "call" and B.cname(recv) in ("Iterator::position", "Iterator::rposition"):
                            n1 = F_.table_len(recv.a[1][0])
                            if n1 is not None and n1 <= cl:
                                return ("position-index", "index comes from position() over a table of length %d <= %d" % (n1, cl))
            # index i from `for (i, _) in arr.iter_mut().enumerate()` over the same length: i < N
            if cl is not None and any(x.op == "call" and B.cname(x) == "Iterator::next" for x in subterms(ix)) and any(x.op == "call" and B.cname(x) == "Iterator::enumerate" for x in subterms(ix)):
                src_len = _enumerate_len(ix)
                if src_len == cl:
                    return ("enumerate", "index is the enumerate counter of an iterator over an array of the same length %d" % cl)
            # len guard: slice index c with len(param) >= c+1 on the path
            if ci is not None and ln.op in ("len", "call"):
                base = ln.a[0] if ln.op == "len" else (ln.a[1][0] if ln.a[1] else None)
                if base is not None:
                    base = B.peel(base)
                    if base.op == "param" and R.len_at_least(lits, base.a[1], ci + 1):
                        return ("len-guard", "dominated by len(%s) >= %d" % (base.a[1], ci + 1))
                    if f.kind == "Closure" and base.op == "param" and _closure_param_chunk_len(P, f, base) is not None and ci < _closure_param_chunk_len(P, f, base):
                        return ("chunk-len", "closure parameter is a chunk/window of fixed length %d, index %d is in bounds" % (_closure_param_chunk_len(P, f, base), ci))
                    if ci == 0 and f.kind == "Closure" and _closure_runs_on_element_of(P, f, base):
                        return ("iter-nonempty", "the closure only runs for an element of the same slice, so the slice is non-empty and index 0 exists")
                    if ci == 0 and base.op == "param" and _inside_iteration_over(lits, base):
                        return ("iter-nonempty", "reached only on the Some edge of next() over the same slice, so the slice is non-empty and index 0 exists")
                    if base.op == "param":
                        # combine_shares / core_combine Ok-arm implies len >= 2
                        for atom, pol in lits:
                            if atom[0] == "atom" and atom[1] == "switch" and atom[3] == 0 and any(x.op == "call" and B.cname(x) in ("BlsSignatureCore::core_combine_signature_shares", "BlsSignatureCore::core_combine_public_key_shares", "vsss_rs::combine_shares_group", "vsss_rs::combine_shares") for x in subterms(atom[2])):
                                return ("ok-arm", "dominated by the Ok arm of share combination, which rejects fewer than 2 shares (vsss-rs contract), so index %d < len" % ci)
        if kind.startswith("Overflow"):
            # interval reasoning for the few arithmetic sites
            r = _interval_ok(P, f, ev, b, t, ops, lits)
            if r:
                return r
            r = _fold_i8(ev, cond, t)
            if r:
                return r
        return None
    # calls
    site = ev.sites.get(b)
    k = s["kind"]
    name = site.callee[0] if site else ""
    a0 = strip_sites(site.args[0]) if site and site.args else None
    if k == "call:ct-unwrap" and a0 is not None:
        # dominated by is_some(ct) == true
        for atom, pol in lits:
            if pol and atom[0] == "atom" and atom[1] == "is_some" and strip_sites(B.peel(atom[2])) == strip_sites(B.peel(a0)):
                return ("is-some-guard", "dominated by the true edge of is_some() on the same CtOption")
    if k in ("call:unwrap", "call:expect") and a0 is not None:
        inner = B.peel(a0)
        n = B.cname(inner) if inner.op == "call" else None
        if n == "serde_bare::to_vec":
            return ("contract", "serde_bare::to_vec into a Vec cannot fail for these types (no unsized sequences/maps; io::Write for Vec is infallible)")
        if n is not None and n.endswith("::expand") and "Hkdf" in n:
            return ("contract", "HKDF-Expand with L = 48 <= 255*32 cannot fail")
        if n == "TryFrom::try_from":
            # <[u8; N]>::try_from(slice) where the slice provably has length N
            g = inner.a[0][1]
            src = B.peel(inner.a[1][0])
            if any(x.startswith("[u8; ") for x in g):
                if any(x.op == "call" and B.cname(x) in ("PrimeField::to_repr",) for x in subterms(src)):
                    return ("const-generic", "slice is the field's 32-byte repr and every instantiation uses N = 32 (SECRET_KEY_BYTES)")
                if any(x.op == "call" and B.cname(x) == "helpers::byte_xor" for x in subterms(src)):
                    return ("contract", "byte_xor of a 32-byte digest and a &[u8;32]/32-byte repr has length 32")
            if any("Uint" in x for x in g):
                # Uint::try_from(&buf[..n]) dominated by peek(buf) == Some(n)
                for atom, pol in lits:
                    if atom[0] == "atom" and atom[1] in ("switch", "switch_not") and any(x.op == "call" and (B.cname(x) == "Uint::peek") for x in subterms(atom[2])):
                        return ("ok-arm", "dominated by Uint::peek == Some(n): the n-byte prefix is a complete varint, so try_from succeeds (uint-zigzag 0.2 lib.rs peek vs try_from)")
        if n == "SystemTime::duration_since":
            args = inner.a[1]
            if len(args) == 2 and any(x.op == "named" and x.a[0] == "UNIX_EPOCH" for x in subterms(args[1])) and not any(x.op == "param" for x in subterms(args[1])):
                return ("contract", "now().duration_since(UNIX_EPOCH) fails only if the system clock is before 1970 (environment assumption, not input dependent)")
    if k == "call:index" and site is not None and len(site.args) == 2:
        rg = B.peel(strip_sites(site.args[1]))
        buf = B.peel(strip_sites(site.args[0]))
        if rg.op == "agg" and rg.a[0][0] == "adt":
            rn = rg.a[0][1]
            ops = rg.a[1]
            if rn == "RangeFrom":
                c = B._const_int(ops[0])
                if c is not None and buf.op == "param" and R.len_at_least(lits, buf.a[1], c):
                    return ("len-guard", "dominated by len(%s) >= %d" % (buf.a[1], c))
                # buf[n..] with n = len(x) and buf allocated with len n + k
                if _alloc_covers(ev, buf, ops[0]):
                    return ("alloc", "buffer was allocated with length >= range start")
            if rn == "RangeTo":
                if _alloc_covers(ev, buf, ops[0]):
                    return ("alloc", "buffer was allocated with length >= range end")
                # plaintext[..overhead] dominated by peek == Some(overhead)
                if any(x.op == "call" and (B.cname(x) == "Uint::peek") for x in subterms(ops[0])):
                    for atom, pol in lits:
                        if atom[0] == "atom" and atom[1] in ("switch", "switch_not") and any(x.op == "call" and (B.cname(x) == "Uint::peek") for x in subterms(atom[2])):
                            return ("ok-arm", "Uint::peek(buf) == Some(n) implies n <= buf.len() (uint-zigzag contract)")
            if rn == "Range":
                # buf[n .. n+L] dominated by L <= len(buf) - n
                st, en = ops
                ab = _binop(en, ("AddWithOverflow", "Add", "AddUnchecked"))
                if ab and st in ab:
                    other = ab[1] if ab[0] == st else ab[0]
                    if _clamped_to_len_minus(other, buf, st):
                        return ("clamp", "slice buf[n..n+min(L, len(buf)-n)] is in bounds by construction")
                for atom, pol in lits:
                    if atom[0] == "atom" and atom[1] == "cmp":
                        op, x, y = atom[2], atom[3], atom[4]
                        if not pol:
                            op = R._NEG[op]
                        if op == "Le" and _is_len_minus(y, buf, st) and _is_sum_of(en, st, x):
                            return ("len-guard", "dominated by L <= len(buf) - n for the slice buf[n..n+L]")
    if k == "call:index" and site is not None and len(site.args) == 2:
        # constant range into a buffer of known constant length (`let mut b = [0u8; 64]; b[..32]`, `b[32..]`)
        rgc = B.peel(strip_sites(site.args[1]))
        if rgc.op == "agg" and rgc.a[0][0] == "adt" and rgc.a[0][1] in ("RangeTo", "RangeFrom", "Range", "RangeFull") and all(B._const_int(o) is not None for o in rgc.a[1]):
            try:
                tl_ = B._total_len(B.nf(ev, site.args[0]))
                lf_ = B._lin(tl_) if tl_ is not None else None
            except Exception:
                lf_ = None
            if lf_ is not None and not any(lf_[1].values()):
                L_ = lf_[0]
                cs_ = [B._const_int(o) for o in rgc.a[1]]
                if all(0 <= c_ <= L_ for c_ in cs_) and cs_ == sorted(cs_):
                    return ("const", "constant range %s of a buffer of known length %d" % (cs_, L_))
    if k == "call:index" and site is not None and len(site.args) == 2:
        # `buf[..min(n, buf.len())]` / `buf[a..min(b, buf.len())]`: the end is clamped to the length
        rg_ = B.peel(strip_sites(site.args[1]))
        if rg_.op == "agg" and rg_.a[0][0] == "adt" and rg_.a[0][1] == "RangeTo" and len(rg_.a[1]) == 1:
            e_ = B.peel(rg_.a[1][0])
            if e_.op == "call" and B.cname(e_) in ("Ord::min", "core::min", "core::cmp::min", "cmp::min", "std::cmp::min") and len(e_.a[1]) == 2:
                bl_ = B._len_term(T("len", strip_sites(B.peel(site.args[0]))))
                if any(B._len_term(strip_sites(z)) == bl_ for z in e_.a[1]):
                    return ("clamp", "the end of the range is min(.., len of the indexed buffer)")
    if k == "call:index" and site is not None and len(site.args) == 2:
        # `v[i]` on a Vec / slice value with an element position
        buf_ = strip_sites(B.peel(site.args[0]))
        r = _element_index_in_bounds(strip_sites(site.args[1]), ("len", buf_), lits)
        if r:
            return r
        ci_ = B._const_int(site.args[1])
        if ci_ is not None:
            # constant position in a buffer whose length is a known constant (`vec![0u8; N]`, arrays, written prefixes)
            try:
                tl_ = B._total_len(B.nf(ev, site.args[0]))
                lf_ = B._lin(tl_) if tl_ is not None else None
            except Exception:
                lf_ = None
            if lf_ is not None and not any(lf_[1].values()) and 0 <= ci_ < lf_[0]:
                return ("const", "index %d < known buffer length %d" % (ci_, lf_[0]))
    if k in ("call:index", "call:split_at") and site is not None and len(site.args) == 2:
        r = _slice_in_bounds(ev, site, lits)
        if r:
            return r
    if k == "call:copy_from_slice" and site is not None and len(site.args) == 2:
        dst = strip_sites(site.args[0])
        src = strip_sites(site.args[1])
        r = _copy_len_ok(ev, f, b, dst, src, lits)
        if r:
            return r
    if k in ("call:chunks", "call:step_by") and site is not None and len(site.args) == 2:
        c = B._const_int(site.args[1])
        if c is not None and c >= 1:
            return ("const", "chunk/step size is the non-zero constant %d" % c)
    if k == "call:vec-insert" and site is not None and len(site.args) == 3:
        if B._const_int(site.args[1]) == 0:
            return ("const", "insert at index 0 is always in bounds")
    if k == "call:time-arith" and site is not None and len(site.args) == 2:
        a, d = [strip_sites(x) for x in site.args]
        if a.op == "named" and a.a[0] == "UNIX_EPOCH" and d.op == "call" and B.cname(d) in ("Duration::from_millis", "Duration::from_micros", "Duration::from_nanos"):
            return ("range", "UNIX_EPOCH + Duration::%s(u64) is at most 1.9e16 s after the epoch, inside SystemTime's i64-second range on this platform" % B.cname(d).split("::")[1])
    if k == "call:panic":
        mac = t.get("mac") or []
        if any(m.startswith("debug_assert") for m in mac):
            r = _debug_assert_ok(P, f, ev, b, site, lits)
            if r:
                return r
            if f.key == "helpers::byte_xor":
                return _byte_xor_callers(P, f)
            # product of a non-identity point and a non-zero scalar
            for a in site.args:
                for x in subterms(strip_sites(a)):
                    if x.op == "call" and B.cname(x) == "Group::is_identity":
                        subj = B.peel(x.a[1][0])
                        if subj.op == "call" and B.cname(subj) == "Mul::mul":
                            pt, sc = [B.peel(z) for z in subj.a[1]]
                            okp = any(p is False and at[1] == "is_identity" and B.peel(at[2]) == pt for at, p in [(q, pol) for q, pol in lits] if at[0] == "atom")
                            okz = any(p is False and at[1] == "is_zero" and B.peel(at[2]) == sc for at, p in [(q, pol) for q, pol in lits] if at[0] == "atom")
                            if okp and okz:
                                return ("group-order", "debug assertion that point*scalar is not the identity, dominated by !is_identity(point) and !is_zero(scalar) (prime-order group)")
    return None


def _byte_xor_callers(P, f):
    """debug_assert_eq!(a.len(), b.len()) in byte_xor: every caller passes equal lengths."""
    sites = P.callers().get(f.key, [])
    if not sites:
        return None
    for g, bb, t in sites:
        gev = evaluate(g)
        st = gev.sites.get(bb)
        a0, a1 = [strip_sites(x) for x in st.args]
        l0 = B._total_len(B.nf(gev, st.args[0]))
        ok = False
        # (a) second argument is a keystream buffer allocated with the first argument's length
        for x in subterms(a1):
            if x.op == "call" and B.cname(x) == "alloc::from_elem" and B._len_term(x.a[1][1]) == l0:
                ok = True
        # (b) 32-byte digest against a parameter that every caller fills with 32 bytes
        if not ok and any(x.op == "call" and (B.cname(x).endswith("finalize_fixed") or (B.cname(x) in ("Digest::digest", "Digest::finalize") and B._digest_len(x) == 32)) for x in subterms(a1)):
            p0 = B.peel(a0)
            if p0.op == "param":
                ok = True
                for h, hb, ht in P.callers().get(g.key, []):
                    hev = evaluate(h)
                    hs = hev.sites.get(hb)
                    arg = strip_sites(hs.args[p0.a[0] - 1])
                    ap = B.peel(arg)
                    ty = None
                    if ap.op == "param":
                        ty = h.locals[ap.a[0]]["ty"]
                    is32 = (ty == "&[u8; 32]") or any(y.op == "call" and B.cname(y) == "PrimeField::to_repr" for y in subterms(arg))
                    ok = ok and is32
        if not ok:
            return None
    return ("callers", "every crate-local caller passes two byte strings of equal length (keystream buffer allocated with the payload's length; 32-byte digest against a 32-byte repr/array)")


def _closure_param_chunk_len(P, clo, base):
    """If the closure is applied to the items of slice.chunks_exact(k) / windows(k) / array_chunks, return k."""
    parent = P.fns.get(clo.j.get("parent_key"))
    if parent is None or base.a[0] != 2:
        return None
    pev = evaluate(parent)
    for bb, st in pev.sites.items():
        if len(st.args) == 2:
            c = B.peel(st.args[1])
            if c.op == "agg" and c.a[0][0] == "closure" and c.a[0][1] == clo.key:
                for x in subterms(strip_sites(st.args[0])):
                    if x.op == "call" and B.cname(x) in ("slice::<impl [T]>::chunks_exact", "slice::<impl [T]>::windows", "slice::<impl [T]>::rchunks_exact") and len(x.a[1]) == 2:
                        k = B._const_int(x.a[1][1])
                        if k:
                            return k
    return None


def _closure_runs_on_element_of(P, clo, base):
    """clo is passed to an iterator adapter over the very slice it captured (and indexes)."""
    parent = P.fns.get(clo.j.get("parent_key"))
    if parent is None:
        return False
    pev = evaluate(parent)
    for bb, st in pev.sites.items():
        if st.callee[0] in ("Iterator::all", "Iterator::any", "Iterator::map", "Iterator::for_each", "Iterator::try_for_each", "Iterator::fold", "Iterator::try_fold", "Iterator::filter", "Iterator::position", "Iterator::find", "Iterator::filter_map", "Iterator::flat_map", "Iterator::map_while", "Iterator::take_while", "Iterator::skip_while", "Iterator::inspect") and len(st.args) in (2, 3):
            # (the closure only runs when the iterator yields an element: fold / try_fold take it as their third argument)
            c = B.peel(st.args[-1])
            if c.op == "agg" and c.a[0][0] == "closure" and c.a[0][1] == clo.key and c.a[1]:
                cap = B.peel(strip_sites(c.a[1][0]))
                src = strip_sites(st.args[0])
                roots = {x for x in subterms(src) if x.op == "param"}
                if cap.op == "param" and cap in roots:
                    return True
    return False


def _enumerate_len(ix):
    for x in subterms(ix):
        if x.op == "call" and B.cname(x) == "Iterator::enumerate":
            for y in subterms(x):
                if y.op == "repeat":
                    return y.a[1]
    return None


def _binop(t, names):
    """(a, b) of a checked (`XWithOverflow(..).0`) or plain binary op."""
    if t.op == "field" and t.a[1] == "0" and t.a[0].op == "bin" and t.a[0].a[0] in names:
        return t.a[0].a[1], t.a[0].a[2]
    if t.op == "bin" and t.a[0] in names:
        return t.a[1], t.a[2]
    return None


def _is_len_minus(t, buf, n):
    ab = _binop(t, ("SubWithOverflow", "Sub", "SubUnchecked"))
    if ab:
        l = B.peel(ab[0])
        return l.op == "call" and B.cname(l) in ("Vec::<T, A>::len", "slice::<impl [T]>::len") and B.peel(l.a[1][0]) == buf and ab[1] == n
    return False


def _clamped_to_len_minus(t, buf, n):
    t = B.peel(t)
    if t.op == "call" and B.cname(t) in ("core::min", "Ord::min", "core::cmp::min") and len(t.a[1]) == 2:
        return any(_is_len_minus(B.peel(x), buf, n) for x in t.a[1])
    return False


def _is_sum_of(en, st, L):
    ab = _binop(en, ("AddWithOverflow", "Add", "AddUnchecked"))
    return bool(ab) and {ab[0], ab[1]} == {st, L}


def _alloc_covers(ev, buf, bound):
    """buf is (a copy-into of) from_elem(0, a + b) and bound is a or b."""
    bn = B._len_term(bound)
    for x in subterms(buf):
        if x.op == "call" and B.cname(x) == "alloc::from_elem":
            n = B._len_term(x.a[1][1])
            parts = B._split_add(n)
            if parts and bn in parts:
                return True
            if n == bn:
                return True
    return False


def _unref(t):
    while t.op in ("ref", "deref"):
        t = t.a[0]
    return t


def _typed_len(P, t):
    """N when `t` is (a reference to) the `[u8; N]` returned by a crate function - on every alternative of a merge."""
    import re as _re

    if P is None:
        return None
    t = B.peel(t)
    if t.op == "phi":
        ns = {_typed_len(P, x) for x in t.a[0]}
        return ns.pop() if len(ns) == 1 else None
    if t.op == "call" and B.cname(t) in P.fns:
        m = _re.match(r"^\[u8; (\d+)\]$", str(P.fns[B.cname(t)].locals[0].get("ty")))
        return int(m.group(1)) if m else None
    return None


def _copy_len_ok(ev, f, b, dst, src, lits):
    d = _unref(dst)
    # dst = repr.as_mut() (32 bytes), src = &[u8; N] with N = 32
    if d.op == "call" and B.cname(d) == "AsMut::as_mut":
        inner = _unref(d.a[1][0])
        sp = B.peel(src)
        # `&value[..min(n, value.len())]` under the guard n == value.len() is the whole of `value`
        if sp.op == "call" and B.cname(sp) == "Index::index" and len(sp.a[1]) == 2 and B.peel(sp.a[1][0]).op == "param":
            rg_ = B.peel(sp.a[1][1])
            if rg_.op == "agg" and rg_.a[0][0] == "adt" and rg_.a[0][1] == "RangeTo":
                e_ = B.peel(rg_.a[1][0])
                if e_.op == "call" and B.cname(e_).split("::")[-1] == "min" and len(e_.a[1]) == 2:
                    x_, y_ = (strip_sites(z) for z in e_.a[1])
                    for atom, pol in lits:
                        if atom[0] == "atom" and atom[1] == "cmp" and (atom[2] if pol else R._NEG[atom[2]]) == "Eq":
                            u_, v_ = strip_sites(atom[3]), strip_sites(atom[4])
                            if {B._len_term(u_), B._len_term(v_)} == {B._len_term(x_), B._len_term(y_)} and ("len", strip_sites(B.peel(sp.a[1][0]))) in (B._len_term(x_), B._len_term(y_)):
                                sp = B.peel(sp.a[1][0])
        if inner.op == "call" and B.cname(inner) == "Default::default" and sp.op == "param":
            ty = f.locals[sp.a[0]]["ty"]
            if ty == "&[u8; N]":
                return ("const-generic", "destination is the 32-byte field repr and every instantiation passes &[u8; 32]")
        if inner.op == "call" and B.cname(inner) == "GroupEncoding::to_bytes" and sp.op == "param":
            # guarded by len == value.len()
            for atom, pol in lits:
                if atom[0] == "atom" and atom[1] == "cmp":
                    op = atom[2] if pol else R._NEG[atom[2]]
                    if op == "Eq" and any(x.op == "param" and x.a[1] == sp.a[1] for x in subterms(atom[3]) | subterms(atom[4])):
                        return ("len-guard", "dominated by the exact-length comparison between the representation and the input")
    # the mirror image of the const-generic conversion above: `let mut out = [0u8; N]; out.copy_from_slice(repr.as_ref())`
    # in a function whose array length is the const generic N - the repr is the field's 32 bytes and every instantiation
    # uses N = 32 (the same contract the pinned `<[u8; N]>::try_from(repr).unwrap()` rests on)
    if d.op == "repeat" and not isinstance(d.a[1], int):
        sp = B.peel(src)
        k_ = 0
        while sp.op == "call" and len(sp.a[1]) == 1 and B.cname(sp) in ("AsRef::as_ref", "AsMut::as_mut", "Deref::deref", "Borrow::borrow") and k_ < 4:
            sp = B.peel(sp.a[1][0])
            k_ += 1
        if sp.op == "call" and B.cname(sp) == "PrimeField::to_repr" and "N" in str(f.locals[0].get("ty") or ""):
            return ("const-generic", "destination is [u8; N], the source is the field's 32-byte repr and every instantiation uses N = 32 (SECRET_KEY_BYTES)")
    # general: |dst| is a known linear form (a fixed array, vec![0; n], ..) and a dominating comparison pins |src| to it
    try:
        dl = B.int_form(T("len", dst))
        sl = B.int_form(T("len", src))
        if B.lin_eq(dl, sl):
            return ("length-eq", "destination and source have the same length form (%s)" % B._show_len(dl))
        for atom, pol in lits:
            if atom[0] == "atom" and atom[1] == "cmp":
                op = atom[2] if pol else R._NEG[atom[2]]
                if op != "Eq":
                    continue
                fa, fb = B.int_form(strip_sites(atom[3])), B.int_form(strip_sites(atom[4]))
                if (B.lin_eq(fa, sl) and B.lin_eq(fb, dl)) or (B.lin_eq(fb, sl) and B.lin_eq(fa, dl)):
                    return ("len-guard", "dominated by the comparison |source| == %s = |destination|" % B._show_len(dl))
    except Exception:
        pass
    # |src| from the declared return type `[u8; N]` of the crate function(s) that produced it, |dst| a constant linear form
    try:
        sn = _typed_len(_CUR.get("P"), src)
        dlf = B._lin(B.int_form(T("len", dst)))
        if sn is not None and dlf is not None and not any(dlf[1].values()) and dlf[0] == sn:
            return ("length-eq", "source is a [u8; %d] by the declared return type of its producer and the destination is %d bytes long" % (sn, sn))
    except Exception:
        pass
    # tiling writes of compute_y
    if d.op == "call" and B.cname(d) in ("IndexMut::index_mut",):
        segs = B.nf(ev, T("mutcall", ("slice::<impl [T]>::copy_from_slice", ()), 0, (dst, src)))
        if B.is_strong(segs):
            return ("tiling", "destination range and source have equal length by construction (buffer = zeros(a+b), ranges [..a] / [a..])")
    return None


def _interval_ok(P, f, ev, b, t, ops, lits):
    kind = t["kind"]
    o = [strip_sites(x) for x in ops]
    if kind == "Overflow(Add)" and len(o) == 2:
        ubs = [_ub(x) for x in o]
        if all(u is not None for u in ubs) and sum(ubs) < 2 ** 32:
            return ("interval", "both operands are bounded by constants (%d + %d)" % tuple(ubs))
        # 8 + len(x): len <= isize::MAX so no overflow; n + L with L <= len - n
        for x in o:
            ci = B._const_int(x)
            other = o[1] if x is o[0] else o[0]
            if ci is not None and 0 <= ci <= 4096 and _is_len_like(other):
                return ("interval", "constant %d + a length (<= isize::MAX) cannot overflow usize" % ci)
        for atom, pol in lits:
            if atom[0] == "atom" and atom[1] == "cmp":
                op = atom[2] if pol else R._NEG[atom[2]]
                if op == "Le" and atom[3] in o and atom[4].op == "field" and atom[4].a[0].op == "bin" and atom[4].a[0].a[0] == "SubWithOverflow" and atom[4].a[0].a[2] in o:
                    return ("interval", "n + L with L <= len - n cannot overflow")
        # n + L under a guard L <= X - n (any spelling of the difference): then n + L <= X, a length
        try:
            lo_ = [_lin_of(x) for x in o]
            if all(l is not None for l in lo_):
                for atom, pol in lits:
                    if atom[0] == "atom" and atom[1] == "cmp":
                        op = atom[2] if pol else R._NEG[atom[2]]
                        a3, a4 = atom[3], atom[4]
                        if op in ("Ge", "Gt"):
                            a3, a4, op = a4, a3, {"Ge": "Le", "Gt": "Lt"}[op]
                        if op not in ("Le", "Lt"):
                            continue
                        l3, l4 = _lin_of(a3), _lin_of(a4)
                        if l3 is None or l4 is None:
                            continue
                        # D = o0 + o1 - a3 + a4
                        D = B._lin(("add", ("sub", ("add", B._unlin(lo_[0]), B._unlin(lo_[1])), B._unlin(l3)), B._unlin(l4)))
                        if D is not None:
                            vs = {k_: v_ for k_, v_ in D[1].items() if v_}
                            if 0 <= D[0] <= 4096 and len(vs) == 1 and all(k_[0] == "len" and v_ == 1 for k_, v_ in vs.items()):
                                return ("interval", "the sum is bounded by a length: a guard on the path gives n + L <= len(..)")
        except Exception:
            pass
        for x in o:
            other = o[1] if x is o[0] else o[0]
            om = B.peel(other)
            if om.op == "call" and B.cname(om) in ("core::min", "Ord::min") and any(_binop(B.peel(y), ("SubWithOverflow", "Sub")) and _binop(B.peel(y), ("SubWithOverflow", "Sub"))[1] == x for y in om.a[1]):
                return ("interval", "n + min(L, len - n) <= len cannot overflow")
        if all(_is_len_like(x) for x in o):
            return ("interval", "sum of two lengths of live allocations (< isize::MAX each) cannot overflow usize")
        # counter + small constant: an enumerate index, a loop counter stepped by small constants, or such a value captured
        # by / handed to a closure - it counts iterations over elements that exist in memory, far below usize::MAX
        for xi, x in enumerate(o):
            ci = B._const_int(x)
            other = ops[1 - xi] if len(ops) == 2 else (o[1] if x is o[0] else o[0])  # raw term: loop variables keep their identity
            if ci is not None and 0 <= ci <= 4096 and _counter_like(P, f, other, 0):
                return ("interval", "iteration counter + %d: bounded by the number of elements that were iterated (<= isize::MAX)" % ci)
        # i + 1 for an enumerate index
        for x in o:
            if B._const_int(x) == 1 and any(y.op == "call" and B.cname(y) == "Iterator::enumerate" for y in subterms(o[0] if x is o[1] else o[1])):
                return ("interval", "enumerate index + 1 <= len <= isize::MAX")
        # the same inside the closure of `iter.enumerate().map(|(i, x)| ..)`: i is the first component of the item
        if f.kind == "Closure" and any(B._const_int(x) == 1 for x in o):
            other = [x for x in o if B._const_int(x) != 1]
            par = P.fns.get(f.j.get("parent_key"))
            if other and par is not None:
                ot = B.peel(other[0])
                is_item0 = ot.op == "field" and ot.a[1] == "0" and B.peel(ot.a[0]).op == "param" and B.peel(ot.a[0]).a[0] == 2
                if is_item0:
                    pev = evaluate(par)
                    for _, ps in sorted(pev.sites.items()):
                        if ps.callee[0] == "Iterator::map" and len(ps.args) == 2:
                            pc = B.peel(ps.args[1])
                            src = B.peel(ps.args[0])
                            if pc.op == "agg" and pc.a[0][0] == "closure" and pc.a[0][1] == f.key and src.op == "call" and B.cname(src) == "Iterator::enumerate":
                                return ("interval", "enumerate index (first component of the mapped item) + 1 <= len <= isize::MAX")
    if kind == "Overflow(Sub)" and len(o) == 2:
        # len(buf) - n dominated by peek == Some(n) (n <= len)
        if _is_len_like(o[0]) and any(y.op == "call" and (B.cname(y) == "Uint::peek") for y in subterms(o[1])):
            return ("ok-arm", "Uint::peek(buf) == Some(n) implies n <= buf.len()")
    return None


def _counter_like(P, f, t, depth):
    """Is the usize term an iteration counter: an enumerate index, a loop variable that starts at a small constant and is
    only ever stepped by small constants, or one of those seen through a closure capture / closure parameter?"""
    if depth > 3:
        return False
    raw = B.peel(t)
    while raw.op in ("ref", "deref"):
        raw = raw.a[0]
    t = B.peel(strip_sites(t))
    if raw.op == "loop":
        t = raw
    if any(y.op == "call" and B.cname(y) == "Iterator::enumerate" for y in subterms(t)) and not any(y.op == "bin" and y.a[0] in ("Mul", "MulWithOverflow", "Shl") for y in subterms(t)):
        return True
    if t.op == "field" and t.a[1] == "0" and t.a[0].op == "bin" and t.a[0].a[0] == "AddWithOverflow":
        # counter + c (checked): still a counter
        a, b_ = t.a[0].a[1], t.a[0].a[2]
        ca, cb = B._const_int(a), B._const_int(b_)
        if cb is not None and 0 <= cb <= 4096:
            return _counter_like(P, f, a, depth)
        if ca is not None and 0 <= ca <= 4096:
            return _counter_like(P, f, b_, depth)
    if t.op == "loop":
        init = B._const_int(t.a[2])
        var = t.a[1]
        if init is None or not (0 <= init <= 4096) or not isinstance(var, int):
            return False
        # every assignment to the variable inside the function is `var (+) small constant` (or the initialisation)
        for b in f.cfg.reachable:
            for st in f.blocks[b]["stmts"]:
                if st["k"] != "assign" or st["place"].get("l") != var or "p" in st["place"]:
                    continue
                rv = st["rv"]
                if "use" in rv:
                    u = rv["use"]
                    if isinstance(u, dict) and "const" in u:
                        continue
                    pl = (u.get("move") or u.get("copy")) if isinstance(u, dict) else None
                    if pl and pl.get("p") == [{"f": 0, "n": "0"}] or (pl and isinstance(pl.get("p"), list) and len(pl["p"]) == 1 and isinstance(pl["p"][0], dict) and pl["p"][0].get("f") == 0):
                        # var = move (_tmp.0) where _tmp = AddWithOverflow(var, c): checked below through _tmp
                        tmp = pl["l"]
                        okk = False
                        for b2 in f.cfg.reachable:
                            for st2 in f.blocks[b2]["stmts"]:
                                if st2["k"] == "assign" and st2["place"].get("l") == tmp and "p" not in st2["place"] and st2["rv"].get("bin") in ("AddWithOverflow", "Add"):
                                    ops_ = [st2["rv"].get("a"), st2["rv"].get("b")]
                                    cs = [x_["const"].get("int") for x_ in ops_ if isinstance(x_, dict) and isinstance(x_.get("const"), dict) and "int" in x_["const"]]
                                    if cs and all(0 <= c_ <= 4096 for c_ in cs):
                                        okk = True
                        if okk:
                            continue
                    return False
                if rv.get("bin") in ("Add", "AddWithOverflow", "AddUnchecked"):
                    ops_ = [rv.get("a"), rv.get("b")]
                    cs = [x_["const"].get("int") for x_ in ops_ if isinstance(x_, dict) and isinstance(x_.get("const"), dict) and "int" in x_["const"]]
                    if cs and all(0 <= c_ <= 4096 for c_ in cs):
                        continue
                return False
        return True
    if f.kind == "Closure":
        pk_ = f.j.get("parent_key") or ""
        # where the closure value is built: its parent, or the function the parent's body was spliced into
        cands = [P.fns.get(pk_)] + [g for g in P.fns.values() if pk_ in (g.j.get("desugared") or []) or pk_ in (g.j.get("inlined") or [])]
        cands = [g for g in cands if g is not None]
        for par in cands:
            if _counter_in_parent(P, f, par, t, depth):
                return True
        return False
    return False


def _counter_in_parent(P, f, par, t, depth):
    if True:
        pev = evaluate(par)
        # a capture: field i of the environment
        base = t
        idx = None
        if base.op == "field":
            inner = base.a[0]
            while inner.op in ("ref", "deref"):
                inner = inner.a[0]
            if inner.op == "param" and inner.a[0] == 1 and str(base.a[1]).isdigit():
                idx = int(base.a[1])
        for _, ps in sorted(pev.sites.items()):
            for a in ps.args:
                pc = B.peel(a)
                if pc.op == "agg" and pc.a[0][0] == "closure" and pc.a[0][1] == f.key:
                    if idx is not None and idx < len(pc.a[1]):
                        return _counter_like(P, par, pc.a[1][idx], depth + 1)
                    # a parameter component: the closure is mapped over an enumerate
                    if t.op == "field" and t.a[1] == "0" and B.peel(t.a[0]).op == "param" and B.peel(t.a[0]).a[0] == 2 and ps.args and any(y.op == "call" and B.cname(y) == "Iterator::enumerate" for y in subterms(strip_sites(ps.args[0]))):
                        return True
    return False


_CUR = {}


def _is_len_like(t):
    t = B.peel(t)
    if (t.op == "call" and B.cname(t) in ("slice::<impl [T]>::len", "Vec::<T, A>::len")) or t.op == "len":
        return True
    if t.op == "param" and _CUR.get("P") is not None and _CUR.get("fn") is not None:
        return _param_is_len(_CUR["P"], _CUR["fn"], t.a[0])
    return False


def _param_is_len(P, fn, idx):
    """Every crate-local caller passes a length for this parameter (inlining bound 1)."""
    sites = P.callers().get(fn.key, [])
    if not sites:
        return False
    for g, bb, t in sites:
        gev = evaluate(g)
        st = gev.sites.get(bb)
        if st is None or idx - 1 >= len(st.args):
            return False
        a = B.peel(strip_sites(st.args[idx - 1]))
        if not ((a.op == "call" and B.cname(a) in ("slice::<impl [T]>::len", "Vec::<T, A>::len")) or a.op == "len"):
            return False
    return True


def _lin_add(a, b):
    d = dict(a[1])
    for k, v in b[1].items():
        d[k] = d.get(k, 0) + v
        if d[k] == 0:
            del d[k]
    return (a[0] + b[0], d)


def prove_le0(goal, facts, depth=3):
    """goal, facts: linear forms (const, {atom: coef}); facts are known to be <= 0.  Is goal <= 0 a consequence
    (a sum of at most `depth` facts, each atom being a non-negative quantity)?"""
    if goal is None:
        return False
    atoms = set(goal[1])
    for f in facts:
        atoms |= set(f[1])
    base = list(facts) + [(0, {a: -1}) for a in atoms]

    def covers(total):
        # goal <= total when the atom parts agree and goal's constant is not larger
        return total[1] == goal[1] and goal[0] <= total[0]

    if not goal[1] and goal[0] <= 0:
        return True
    frontier = [(0, {})]
    for _ in range(depth):
        nxt = []
        for cur in frontier:
            for f in base:
                t = _lin_add(cur, f)
                if covers(t):
                    return True
                nxt.append(t)
        frontier = nxt[:400]
    return False


def _slice_in_bounds(ev, site, lits):
    """`buf[a..b]`, `buf[..b]`, `buf[a..]`, `buf.split_at(n)` (possibly on a slice of a slice) stay inside the buffer:
    0 <= start <= end <= len(base), proved from the dominating comparisons and the contract of Uint::peek
    (`peek(b) == Some(n)` implies n <= len(b)).  Plain `+`/`-` (wrapping when overflow checks are off) count as exact
    only once x + y <= len(..) resp. y <= x has been proved from the other facts."""
    name = site.callee[0]
    IF = lambda t: B.int_form(t, wrap=True)
    if name.endswith("split_at") or name.endswith("split_at_mut"):
        whole = B.slice_form(site.args[0], True)
        bt = strip_sites(B.peel(site.args[0]))
        base, s0, e0 = whole if whole is not None else (bt, ("c", 0), B.int_form(T("len", B.peel(site.args[0])), True))
        st, en = s0, ("add", s0, IF(site.args[1]))
        top = e0
    else:
        sf = B.slice_form(site.value, True)
        if sf is None:
            return None
        base, st, en = sf
        inner = B.slice_form(site.args[0], True)
        top = inner[2] if inner is not None else ("len", base)
    raw = []  # (form <= 0) facts, possibly containing wrapping nodes
    for atom, pol in lits:
        if atom[0] == "atom" and atom[1] == "cmp":
            op, a, b = atom[2], atom[3], atom[4]
            if not pol:
                op = R._NEG[op]
            fa, fb = IF(a), IF(b)
            if op == "Le":
                raw.append((("sub", fa, fb), 0))
            elif op == "Lt":
                raw.append((("sub", fa, fb), 1))
            elif op == "Ge":
                raw.append((("sub", fb, fa), 0))
            elif op == "Gt":
                raw.append((("sub", fb, fa), 1))
            elif op == "Eq":
                raw.append((("sub", fa, fb), 0))
                raw.append((("sub", fb, fa), 0))
    nodes = []
    for form in [st, en, top] + [r[0] for r in raw]:
        B.wrapping_nodes(form, nodes)
    exact = set()

    def facts_now():
        out = []
        for form, slack in raw:
            l = B._lin(B.resolve_wrapping(form, exact))
            if l is not None:
                out.append((l[0] + slack, l[1]))
        # peek contract: n = (peek(x) as Some).0  =>  n <= len(x)
        for form in (st, en, top):
            l = B._lin(B.resolve_wrapping(form, exact))
            if l is None:
                continue
            for (kind, t_) in l[1]:
                if kind == "t" and t_.op == "field" and t_.a[0].op == "downcast" and t_.a[0].a[1] == "Some":
                    pk = t_.a[0].a[0]
                    if pk.op == "call" and B.cname(pk) == "Uint::peek" and pk.a[1]:
                        x = strip_sites(B.peel(pk.a[1][0]))
                        out.append(B._lin(("sub", ("t", t_), ("len", x))))
        return out

    for _ in range(3):
        facts = facts_now()
        grew = False
        for nd in nodes:
            if nd[3] in exact:
                continue
            a, b = B.resolve_wrapping(nd[1], exact), B.resolve_wrapping(nd[2], exact)
            if nd[0] == "wsub":
                ok = prove_le0(B._lin(("sub", b, a)), facts)  # b <= a: no borrow
            else:
                # the sum of two lengths of live allocations (each <= isize::MAX) cannot wrap in usize
                la, lb = B._lin(a), B._lin(b)
                both_len = all(l is not None and l[0] >= 0 and l[0] <= 4096 and sum(1 for _, c_ in l[1].items() if c_) <= 1 and all(k_[0] == "len" and c_ == 1 for k_, c_ in l[1].items() if c_) for l in (la, lb))
                # a + b <= some length (lengths are < 2^63): no carry
                ok = both_len or any(prove_le0(B._lin(("sub", ("add", a, b), ("len", x[1]))), [f for f in facts]) for f in facts for x in f[1] if x[0] == "len")
            if ok:
                exact.add(nd[3])
                grew = True
        if not grew:
            break
    facts = facts_now()
    g1 = B._lin(("sub", B.resolve_wrapping(st, exact), B.resolve_wrapping(en, exact)))
    g2 = B._lin(("sub", B.resolve_wrapping(en, exact), B.resolve_wrapping(top, exact)))
    if prove_le0(g1, facts) and prove_le0(g2, facts):
        return ("slice-bounds", "0 <= start <= end <= len proved in the slice algebra from %d dominating comparison(s) and the Uint::peek contract" % len(facts))
    return None


def small_int_vars(ev, cond):
    """Free variables of 8-bit type in a term: i8 loop accumulators, i8/u8 parameters, folds with an i8/u8 seed."""
    out = []
    for s in subterms(cond):
        if s.op == "loop" and s.a[2].op == "const" and len(s.a[2].a) > 2 and s.a[2].a[2] in ("i8", "u8"):
            out.append((s, s.a[2].a[2]))
        elif s.op == "param" and isinstance(s.a[0], int) and s.a[0] < len(ev.fn.locals) and ev.fn.locals[s.a[0]].get("ty") in ("i8", "u8"):
            out.append((s, ev.fn.locals[s.a[0]]["ty"]))
        elif s.op == "call" and B.cname(s) == "Iterator::fold" and len(s.a[1]) == 3 and s.a[1][1].op == "const" and len(s.a[1][1].a) > 2 and s.a[1][1].a[2] in ("i8", "u8"):
            out.append((s, s.a[1][1].a[2]))
    return out


def _fold_i8(ev, cond, t):
    """Single 8-bit variable (loop accumulator, fold result or parameter): fold the assert condition for all 256 values."""
    if cond is None:
        return None
    accs = small_int_vars(ev, cond)
    if len(accs) != 1:
        return None
    acc, ty = accs[0]
    rng = range(-128, 128) if ty == "i8" else range(0, 256)
    for v in rng:
        try:
            r = F.eval_int(cond, {acc: (v, 8, ty == "i8")})
        except Exception:
            return None
        if bool(r[0]) != t["expected"]:
            return None
    return ("fold256", "condition holds for all 256 values of the %s %s (exhaustive folding)" % (ty, {"loop": "accumulator", "param": "parameter", "call": "fold result"}[acc.op]))


NEGLIGIBLE_SUBJECTS = ("HashToPoint::hash_to_point", "HashToScalar::hash_to_scalar", "BlsSignatureProof::compute_y", "BlsSignCrypt::compute_w", "BlsElGamal::message_generator")


def _lin_of(t):
    try:
        return B._lin(B.int_form(strip_sites(t)))
    except Exception:
        return None


def _infeasible(lits, P=None):
    """The literals that hold at a block contradict each other, so the block is never reached.  Decided on comparisons of
    integer terms whose difference is the same linear combination (x < 32 false together with x >= 32 false; len <= n - k
    together with k + len > n), on `is_empty(x)` as `len(x) == 0`, on `capacity(x) >= len(x)`, on the contract of
    `Uint::peek` (n <= len), and on a flag test against the same flag read back through `unwrap_u8`."""
    cons = {}  # variable part (frozenset of (atom, coef)) -> [lo, hi] for the value of the variable part

    def add(lin, op):
        # lin = (c, {atom: coef}) ; constraint  c + V  op  0
        if lin is None:
            return
        c, vs = lin
        vs = {k: v for k, v in vs.items() if v}
        if not vs:
            val = {"Lt": c < 0, "Le": c <= 0, "Gt": c > 0, "Ge": c >= 0, "Eq": c == 0, "Ne": c != 0}[op]
            if not val:
                cons["__false__"] = True
            return
        key = frozenset(vs.items())
        neg = frozenset((k, -v) for k, v in vs.items())
        if neg in cons and key not in cons:
            key, c, op = neg, -c, {"Lt": "Gt", "Le": "Ge", "Gt": "Lt", "Ge": "Le", "Eq": "Eq", "Ne": "Ne"}[op]
        lo, hi, ne = cons.setdefault(key, [None, None, set()])
        # V op -c
        b_ = -c
        if op == "Lt":
            hi = b_ - 1 if hi is None else min(hi, b_ - 1)
        elif op == "Le":
            hi = b_ if hi is None else min(hi, b_)
        elif op == "Gt":
            lo = b_ + 1 if lo is None else max(lo, b_ + 1)
        elif op == "Ge":
            lo = b_ if lo is None else max(lo, b_)
        elif op == "Eq":
            lo = b_ if lo is None else max(lo, b_)
            hi = b_ if hi is None else min(hi, b_)
        elif op == "Ne":
            ne.add(b_)
        cons[key] = [lo, hi, ne]

    flags = {}
    implicit = set()
    for atom, pol in lits:
        if atom[0] != "atom":
            continue
        if atom[1] == "cmp" and len(atom) >= 5:
            op = atom[2] if pol else R._NEG[atom[2]]
            x, y = atom[3], atom[4]
            # flag read back as a byte: unwrap_u8(c) == 0  <=>  not c
            for u, v in ((x, y), (y, x)):
                up = B.peel(strip_sites(u))
                if up.op == "call" and B.cname(up) == "Choice::unwrap_u8" and B._const_int(v) in (0, 1) and op in ("Eq", "Ne"):
                    fm = G.formula(up.a[1][0], P)
                    truth = (B._const_int(v) == 1) == (op == "Eq")
                    for la, lp in G.literals(fm if truth else G.f_not(fm), True):
                        flags.setdefault(la, set()).add(lp)
            lx, ly = _lin_of(x), _lin_of(y)
            if lx is not None and ly is not None:
                d = B._lin(("sub", B._unlin(lx), B._unlin(ly)))
                add(d, op)
                for t_ in list(subterms(strip_sites(x))) + list(subterms(strip_sites(y))):
                    implicit.add(t_)
        elif atom[1] == "term" and atom[2].op == "call" and B.cname(atom[2]) in ("slice::<impl [T]>::is_empty", "Vec::<T, A>::is_empty") and len(atom[2].a[1]) == 1:
            l = _lin_of(T("len", B.peel(strip_sites(atom[2].a[1][0]))))
            add(l, "Eq" if pol else "Ne")
        elif atom[1] in ("is_zero", "is_identity", "is_some", "eq") :
            flags.setdefault(atom, set()).add(pol)
    # facts that always hold
    for t_ in implicit:
        if t_.op == "call" and B.cname(t_) == "Vec::<T, A>::capacity" and len(t_.a[1]) == 1:
            d = B._lin(("sub", ("t", t_), B.int_form(T("len", B.peel(t_.a[1][0])))))
            add(d, "Ge")
        if t_.op == "field" and t_.a[1] == "0" and t_.a[0].op == "downcast" and t_.a[0].a[1] == "Some":
            pk = B.peel(t_.a[0].a[0])
            if pk.op == "call" and B.cname(pk) == "Uint::peek" and pk.a[1]:
                d = B._lin(("sub", ("t", t_), B.int_form(T("len", B.peel(pk.a[1][0])))))
                add(d, "Le")
    for t_ in implicit:
        # the counter of `x.iter().enumerate()` stays below len(x)
        if t_.op == "field" and t_.a[1] == "0" and t_.a[0].op == "field" and t_.a[0].a[1] == "0" and t_.a[0].a[0].op == "downcast" and t_.a[0].a[0].a[1] == "Some":
            nx = B.peel(t_.a[0].a[0].a[0])
            if nx.op == "call" and B.cname(nx) == "Iterator::next" and nx.a[1]:
                src = B.peel(nx.a[1][0])
                if src.op == "loop":
                    src = B.peel(src.a[2])
                if src.op == "call" and B.cname(src) == "Iterator::enumerate" and len(src.a[1]) == 1:
                    base = B.peel(src.a[1][0])
                    k_ = 0
                    while base.op == "call" and len(base.a[1]) == 1 and B.cname(base) in ("slice::<impl [T]>::iter", "slice::<impl [T]>::iter_mut", "IntoIterator::into_iter", "Iterator::copied", "Iterator::cloned") and k_ < 4:
                        base = B.peel(base.a[1][0])
                        k_ += 1
                    try:
                        d = B._lin(("sub", ("t", t_), B.int_form(T("len", base))))
                        add(d, "Lt")
                    except Exception:
                        pass
    if cons.pop("__false__", False):
        return True
    for key, (lo, hi, ne) in cons.items():
        if lo is not None and hi is not None and (lo > hi or (lo == hi and lo in ne)):
            return True
    for a_, ps in flags.items():
        if len(ps) == 2:
            return True
    return False


def _debug_assert_ok(P, f, ev, b, site, lits):
    """debug_assert_eq!(x.is_identity()/is_zero(), 0) where x is a hash output: negligible;
    debug_assert_eq!(a.len(), b.len()) where the two lengths are the same linear form: cannot fail."""
    try:
        if _infeasible(lits, P):
            return ("restated-fact", "the assertion restates what the checks before it established: its failure branch contradicts the conditions that hold there")
    except Exception:
        pass
    for atom, pol in lits:
        if atom[0] == "atom" and atom[1] == "cmp" and ((atom[2] == "Eq" and not pol) or (atom[2] == "Ne" and pol)):
            try:
                fa, fb = B.int_form(strip_sites(atom[3])), B.int_form(strip_sites(atom[4]))
                if fa is not None and fb is not None and B.lin_eq(fa, fb):
                    return ("length-eq", "the assertion compares two lengths that are the same linear form (%s): it cannot fail" % B._show_len(fa))
            except Exception:
                pass
    for a in site.args:
        for x in subterms(strip_sites(a)):
            if x.op == "call" and B.cname(x) in ("Group::is_identity", "Field::is_zero"):
                subj = B.peel(x.a[1][0])
                if subj.op == "call" and B.cname(subj) in NEGLIGIBLE_SUBJECTS:
                    return ("negligible", "debug assertion that a hash-to-curve / hash-to-scalar output is not the identity/zero: fails with probability ~2^-255 per input, and only in debug builds")
                if subj.op == "call" and B.cname(subj) == "Neg::neg" and B.peel(subj.a[1][0]).op == "call" and B.cname(B.peel(subj.a[1][0])) in NEGLIGIBLE_SUBJECTS:
                    return ("negligible", "debug assertion on the negation of a hash-to-curve output (probability ~2^-255, debug builds only)")
    return None


def load_justified():
    p = os.path.join(SPEC_DIR, "justified_aborts.json")
    if not os.path.exists(p):
        return {}
    with open(p) as fh:
        return {e["key"]: e for e in json.load(fh)["sites"]}


def entry_fns(P, scope):
    ents = json.load(open(os.path.join(SPEC_DIR, "entrypoints.json")))
    keys = set()
    for pat in ents["untrusted_patterns"]:
        rx = re.compile(pat)
        for k in P.fns:
            if rx.search(k):
                keys.add(k)
    for k in ents["untrusted_exact"]:
        keys.add(k)
    excl = [re.compile(p) for p in ents["excluded_patterns"]]
    keys = {k for k in keys if not any(r.search(k) for r in excl)}
    return sorted(keys), ents


def check_aborts(ctx, rule, P, roots=None, scope="C17", profile="dev"):
    """Census + discharge over everything reachable from the roots (default: untrusted-input entry set)."""
    ents_keys, ents = entry_fns(P, scope)
    if roots is None:
        roots = ents_keys
    missing = [k for k in (ents["untrusted_exact"] if scope == "C17" else roots) if k not in P.fns]
    for k in missing:
        ctx.ob(rule + ".anchor", k, False, "entry point `%s` of the untrusted-input set not found" % k)
    rfns = [P.fns[k] for k in roots if k in P.fns]
    excl = [re.compile(p) for p in ents["excluded_patterns"]]
    reach = reachable_fns(P, rfns, stop={k for k in P.fns if any(r.search(k) for r in excl)})
    for f in reach.values():
        ctx.saw(f)
    sites = census(P, reach.values())
    just = load_justified()
    n_dis = 0
    kinds = {}
    for s in sites:
        key = site_key(s)
        kinds[s["kind"]] = kinds.get(s["kind"], 0) + 1
        d = discharge(P, s)
        if d:
            n_dis += 1
            ctx.ob(rule + ".site", "%s|%s" % (profile, key) if profile != "dev" else key, True, "%s: %s" % d, where=where(s["fn"], s["bb"]), sample={"site": key, "rule": d[0]})
            continue
        j = just.get(key)
        if j and profile in j.get("profiles", ["dev", "nodebug"]):
            ctx.ob(rule + ".site", key, True, "justified (%s): %s" % (j["rule"], j["because"]), where=where(s["fn"], s["bb"]), weak=True)
            continue
        ctx.ob(rule + ".site", key, False, "abort-capable %s reachable from untrusted input is not discharged by any rule (const / interval / len-guard / ok-arm / is-some-guard / contract / tiling / negligible)" % s["kind"], where=where(s["fn"], s["bb"]), sample={"site": key})
    ctx.extra.setdefault("abort_census", {})[profile + ":" + scope] = {"roots": len(rfns), "reachable_functions": len(reach), "sites": len(sites), "discharged_by_rule": n_dis, "by_kind": kinds}
    return sites, reach
