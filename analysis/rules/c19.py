"""C19 - the two arithmetic backends are interchangeable."""
import os
import re

from ..core.sym import evaluate, strip_sites, callee_id
from ..core.terms import show, subterms
from .common import where, spec
from . import constructions as K

EXPLANATION = (
    "Decides configuration equivalence of blsful's own code: (1) the crate type-checks under both feature configurations (blst and "
    "--no-default-features --features rust) on every run - a change that only compiles against one backend's API fails here although "
    "the suite never builds `rust`; (2) the MIR fact bases of the two builds are compared function by function after mapping the two "
    "backend crate names to one symbol: same set of bodies, same block/terminator structure, same callees, same constants, same switch "
    "arms - any cfg-dependent behaviour in blsful shows up as a difference; the frozen exceptions are listed with their reason; (3) "
    "the set of cfg(feature) sites is exactly {compile_error guard, the two inner_types re-exports}; (4) values derived "
    "deterministically from a caller-supplied seed never go through the backend's own sampler (Field::random is confined to "
    "ephemeral values), and the const-evaluated tags/salts are identical in both builds. Not decided: that blstrs_plus and "
    "bls12_381_plus compute identical bytes - a numerical statement about two dependency crates."
)
RULE = "E10 two-configuration type-check + MIR fact diff modulo backend crate name; lexical cfg census; who-may-call on backend sampling; constant table equality"

BACKENDS = ("blstrs_plus", "bls12_381_plus")


def norm(s):
    for b in BACKENDS:
        s = s.replace(b, "BACKEND")
    # the blst backend re-exports digest through sha3, the rust one through sha2 (same `digest` crate)
    s = s.replace("sha3::digest", "digest").replace("sha2::digest", "digest")
    return s


def shape(f):
    """Structure signature of a function body."""
    out = []
    for i, b in enumerate(f.blocks):
        t = b["term"]
        k = t["k"]
        if k in ("call", "tailcall"):
            c = t.get("callee")
            name = norm(callee_id(c)[0]) if c else "<indirect>"
            gargs = tuple(norm(a) for a in (c.get("args") or ())) if c else ()
            if name in CALLEE_EQUIV:
                gargs = ()
            consts = tuple(sorted(_consts(t.get("args", []))))
            out.append((k, name, gargs, consts, t.get("target")))
        elif k == "switch":
            out.append((k, tuple(map(tuple, t["arms"])), t["otherwise"]))
        elif k == "assert":
            out.append((k, t["kind"], t["target"]))
        else:
            out.append((k, t.get("target")))
        sc = []
        for s in b["stmts"]:
            if s["k"] == "assign":
                rv = s["rv"]
                kind = next(iter(rv.keys()))
                sc.append((kind, tuple(sorted(_consts([rv.get("use")] if "use" in rv else rv.get("ops", []) + [rv.get("a"), rv.get("b")])))))
        out.append(tuple(sc))
    return out


def _consts(ops):
    out = []
    for o in ops:
        if isinstance(o, dict) and "const" in o:
            c = o["const"]
            if "bytes_hex" in c:
                out.append("b:" + c["bytes_hex"])
            elif "int" in c:
                out.append("i:%s" % c["int"])
            elif "uneval" in c:
                out.append("u:" + norm(c["uneval"]))
    return out


# confirmed-by-reading resolution differences between the two builds (callee -> reason): the generic-argument list of
# these callees is ignored in the comparison, wherever the call is made
CALLEE_EQUIV = {
    "MillerLoopResult::final_exponentiation": "final_exponentiation is a trait method (pairing_lib::MillerLoopResult, Self generic) in blstrs_plus and an inherent method of the type MillerLoopResult in bls12_381_plus",
}
FROZEN = {}


# Functions of the backend crates that blsful calls directly on the pinned tree.  Their agreement across the two
# backends is the dependency contract this property rests on (trait contracts of group / ff / pairing, the hash-to-curve
# and wide-reduction entry points; `Field::random` is only used where C20 wants fresh randomness and E5.seeded pins the
# seeded derivations).  A call to any OTHER backend function is a new place where the two builds can part ways
# (from_raw_unchecked, from_uncompressed*, Ord on scalars, ...): it is reported until its agreement is established here.
BACKEND_CRATES = ("blstrs_plus", "bls12_381_plus", "blst")
BACKEND_SURFACE = {
    "G1Projective::hash", "G2Projective::hash", "Scalar::from_bytes_wide", "Scalar::from_okm", "elliptic_curve::Field::is_zero",
    "elliptic_curve::Field::random", "elliptic_curve::Group::generator", "elliptic_curve::Group::identity", "elliptic_curve::Group::is_identity",
    "elliptic_curve::PrimeField::from_repr", "elliptic_curve::PrimeField::to_repr", "elliptic_curve::generic_array::GenericArray::<T, N>::as_slice",
    "group::Curve::to_affine", "group::GroupEncoding::from_bytes", "group::GroupEncoding::to_bytes", "multi_miller_loop",
    "pairing::MillerLoopResult::final_exponentiation", "MillerLoopResult::final_exponentiation",
    # same contracts, other spellings a refactoring may reach for
    "elliptic_curve::Group::double", "group::Curve::batch_normalize", "group::prime::PrimeCurveAffine::to_curve", "elliptic_curve::Field::invert",
    "elliptic_curve::Field::square", "elliptic_curve::Field::double", "G1Affine::to_compressed", "G2Affine::to_compressed", "G1Affine::from_compressed", "G2Affine::from_compressed",
    "G1Projective::to_compressed", "G2Projective::to_compressed", "G1Projective::from_compressed", "G2Projective::from_compressed", "G2Prepared::from", "pairing",
}


def check_backend_surface(ctx, progs, rule="E7.backend-surface"):
    n = 0
    for name, P in progs:
        seen = set()
        for f in P.fns.values():
            if f.from_expansion:
                continue
            for bb, t in f.calls():
                c = t.get("callee") or {}
                p = c.get("path") or ""
                cr, _, rest = p.partition("::")
                if cr not in BACKEND_CRATES:
                    continue
                n += 1
                if rest in BACKEND_SURFACE or (f.key, rest) in seen:
                    continue
                seen.add((f.key, rest))
                ctx.ob(rule, "%s|%s->%s" % (name, f.key, rest), False, "%s build: %s calls the backend function `%s`, which is not among the backend functions whose agreement between blstrs_plus and bls12_381_plus this property rests on" % (name, f.key, p), where=where(f, bb))
    ctx.ob(rule, "census", True, "%d direct calls into the backend crates inspected (both builds)" % n)
    ctx.floor(rule, "direct calls into the backend crates", n, 40)


# values that depend on the identity or the layout of a type: under the two backends the associated types are different
# crates' types (different names, possibly different sizes), so a result that flows from one of these differs between the
# builds even though both bodies are "the same modulo crate name"
REFLECTION = ("type_name", "type_name_of_val", "size_of", "size_of_val", "align_of", "align_of_val", "min_align_of", "needs_drop", "type_id")


_PRIM = __import__("re").compile(r"^(u8|u16|u32|u64|u128|usize|i8|i16|i32|i64|i128|isize|bool|char|\\[u8; \\d+\\])$")


def reflection_calls(P):
    out = []
    for f in P.fns.values():
        if f.from_expansion:
            continue
        for bb, t in f.calls():
            c = t.get("callee") or {}
            p = c.get("path") or ""
            last = p.rsplit("::", 1)[-1]
            hit = (c.get("crate") in ("core", "std", "alloc") and last in REFLECTION and ("::any::" in p or "::mem::" in p or "::intrinsics::" in p)) or p.endswith("any::TypeId::of")
            if hit and not all(_PRIM.match(a) for a in (c.get("args") or ["?"])):
                out.append((f, bb, p, c.get("args") or []))
    return out


# ordering / hashing of backend values: blstrs_plus orders scalars numerically, bls12_381_plus derives PartialOrd over the raw
# Montgomery limbs (and has a different manual Ord); points have no canonical order at all.  A result that depends on how two
# backend values compare (max, min, sort, a BTreeMap key, `<`) differs between the builds.
_ORDER_FNS = ("max", "min", "clamp", "cmp", "partial_cmp", "lt", "le", "gt", "ge", "sort", "sort_unstable", "binary_search", "is_sorted", "minmax", "max_by_key", "min_by_key", "sort_by_key", "sort_unstable_by_key", "sort_by_cached_key")
_BACKEND_TY = __import__("re").compile(r"(?<![A-Za-z0-9_])(Scalar|G1Projective|G2Projective|G1Affine|G2Affine|Gt|PairingResult|PublicKey|Signature|SignatureShare|PublicKeyShare|SecretKeyShare)(?![A-Za-z0-9_])")


def ordering_calls(P):
    out = []
    for f in P.fns.values():
        if f.from_expansion:
            continue
        for bb, t in f.calls():
            c = t.get("callee") or {}
            if c.get("crate") not in ("core", "std", "alloc"):
                continue
            nm = c.get("name") or ""
            if nm not in _ORDER_FNS and "BTree" not in (c.get("path") or ""):
                continue
            tys = [a for a in (c.get("args") or []) + [c.get("self_ty") or ""] if a and _BACKEND_TY.search(str(a)) and not str(a).startswith(("[u8", "&[u8", "Vec<u8"))]
            if tys:
                out.append((f, bb, c.get("path"), tys))
    return out


def check_no_backend_ordering(ctx, progs, rule="E7.backend-order"):
    n = 0
    for name, P in progs:
        n += sum(1 for f in P.fns.values() for _ in f.calls())
        for f, bb, p, tys in ordering_calls(P):
            ctx.ob(rule, "%s|%s->%s" % (name, f.key, p), False, "%s build: %s orders backend values (`%s` over %s): the two backends compare them differently" % (name, f.key, p, tys[:2]), where=where(f, bb))
    ctx.ob(rule, "census", True, "%d call sites inspected: no ordering (max / min / sort / cmp / BTree key) over scalars, points or the types that wrap them" % n)
    from . import posctl as PC

    k = len(ordering_calls(PC.fixture_program()))
    ctx.ob(rule + ".posctl", "ordering", k > 0, "positive control: the ordering detector matched %d site(s) in fixtures/posctl (must be > 0, otherwise the rule is blind)" % k)


# textual renderings of backend values: `Display` / `Debug` of the wrappers delegate to the backend crate's own impls (affine
# hex under one backend, raw projective coordinates under the other), so a string made of one is not a function of the
# value alone.  Inside the `fmt` impls themselves that is what the text IS; anywhere else the text is being used as data
# (a dedup key, a hash input, a comparison).
_FMT_CTORS = ("new_display", "new_debug", "new_lower_hex", "new_upper_hex", "new_lower_exp", "new_upper_exp", "new_binary", "new_octal", "new_pointer")


def text_calls(P):
    out = []
    for f in P.fns.values():
        if f.from_expansion or f.name == "fmt" or (f.kind == "Closure" and "::fmt" in (f.j.get("parent_key") or "")):
            continue
        for bb, t in f.calls():
            c = t.get("callee") or {}
            if c.get("crate") not in ("core", "std", "alloc"):
                continue
            nm = c.get("name") or ""
            p = c.get("path") or ""
            if not ((nm == "to_string" and c.get("trait") == "ToString") or (nm in _FMT_CTORS and "Argument" in p) or (nm == "fmt" and c.get("trait") in ("Display", "Debug", "LowerHex", "UpperHex"))):
                continue
            tys = [a for a in (c.get("args") or []) + [c.get("self_ty") or ""] if a and _BACKEND_TY.search(str(a)) and not str(a).startswith(("[u8", "&[u8", "Vec<u8"))]
            if tys:
                out.append((f, bb, p, tys))
    return out


def check_no_backend_text(ctx, progs, rule="E7.backend-text"):
    n = 0
    for name, P in progs:
        n += sum(1 for f in P.fns.values() for _ in f.calls())
        for f, bb, p, tys in text_calls(P):
            ctx.ob(rule, "%s|%s->%s" % (name, f.key, p), False, "%s build: %s renders a backend value as text outside a `fmt` impl (`%s` over %s): the backends print them differently (canonical affine form vs raw coordinates), so the text is not a function of the value" % (name, f.key, p, tys[:2]), where=where(f, bb))
    ctx.ob(rule, "census", True, "%d call sites inspected: no to_string / format argument over scalars, points or the types that wrap them outside the `fmt` impls" % n)
    from . import posctl as PC

    k = len(text_calls(PC.fixture_program()))
    ctx.ob(rule + ".posctl", "text", k > 0, "positive control: the rendering detector matched %d site(s) in fixtures/posctl (must be > 0, otherwise the rule is blind)" % k)


def check_dep_divergence(ctx, Pa, rule="E10.dep"):
    """Places where blsful hands a whole decision to a backend-crate function that the two backends implement with
    different ACCEPTANCE: contracts read in the dependency sources (analysis/spec/dep_contracts.json, entries with
    `interchangeable: false`) whose function is reachable from blsful in the build that uses that crate."""
    import json
    import os

    p = os.path.join(os.path.dirname(os.path.dirname(os.path.abspath(__file__))), "spec", "dep_contracts.json")
    tab = json.load(open(p))
    lock = open(os.path.join(os.environ.get("VERIF_REPO", "/repo"), "Cargo.lock")).read()
    n = 0
    for e in tab["contracts"]:
        if e.get("interchangeable", True):
            continue
        n += 1
        ver_ok = ('name = "%s"\nversion = "%s"' % (e["crate"], e["version"])) in lock
        ctx.ob(rule + ".version", "%s %s" % (e["crate"], e["version"]), ver_ok, "the divergence was read in %s %s; Cargo.lock %s that version" % (e["crate"], e["version"], "pins" if ver_ok else "does NOT pin"))
        reached = []
        for f in Pa.fns.values():
            for bb, t in f.calls():
                c = t.get("callee") or {}
                r = c.get("resolved") or {}
                if c.get("trait") == "Deserialize" and c.get("self_ty") in ("Scalar", "G1Projective", "G2Projective") and r.get("crate") == e["crate"]:
                    reached.append((f, bb))
        ctx.ob(rule, e["key"], not reached, "%s: %s; reachable from blsful through %d call site(s), e.g. %s" % (e["fn"], e["differs"], len(reached), [x[0].key for x in reached[:3]]), where=where(*reached[0]) if reached else None)
    ctx.floor(rule, "backend divergences read in the dependency sources", n, 1)


def check_no_reflection(ctx, progs, rule="E7.reflection"):
    n = 0
    for name, P in progs:
        n += sum(1 for f in P.fns.values() for _ in f.calls())
        for f, bb, p, args in reflection_calls(P):
            ctx.ob(rule, "%s|%s->%s" % (name, f.key, p), False, "%s build: %s calls `%s::<%s>` - its value names or measures a type, and the library's types are the backend crate's under each feature" % (name, f.key, p, ", ".join(args)), where=where(f, bb))
    ctx.ob(rule, "census", True, "%d call sites inspected for type reflection (type_name, TypeId, size_of, align_of ... of non-primitive types) in both builds: none outside macro expansions" % n)
    ctx.floor(rule, "call sites inspected", n, 2000)
    from . import posctl as PC

    k = len(reflection_calls(PC.fixture_program()))
    ctx.ob(rule + ".posctl", "reflection", k > 0, "positive control: the reflection detector matched %d site(s) in fixtures/posctl (must be > 0, otherwise the rule is blind)" % k)


def run(ctx):
    Pa = ctx.prog("blst", "dev")
    Pb = ctx.prog("rust", "dev")  # raises ExtractError (-> violation `build/cargo-check`) if the rust configuration does not type-check
    ctx.ob("E10.typecheck", "blst", True, "cargo +nightly check --lib (default features) succeeded: %d bodies" % len(Pa.fns))
    ctx.ob("E10.typecheck", "rust", True, "cargo +nightly check --lib --no-default-features --features rust succeeded: %d bodies" % len(Pb.fns))
    check_backend_surface(ctx, (("blst", Pa), ("rust", Pb)))
    check_no_reflection(ctx, (("blst", Pa), ("rust", Pb)))
    check_no_backend_ordering(ctx, (("blst", Pa), ("rust", Pb)))
    check_no_backend_text(ctx, (("blst", Pa), ("rust", Pb)))
    check_dep_divergence(ctx, Pa)
    ka, kb = set(Pa.fns), set(Pb.fns)
    ctx.ob("E10.bodies", "same-set", ka == kb, "bodies only in blst build: %s ; only in rust build: %s" % (sorted(ka - kb)[:5], sorted(kb - ka)[:5]))
    ndiff = 0
    nsame = 0
    for k in sorted(ka & kb):
        ctx.saw(Pa.fns[k])
        sa, sb = shape(Pa.fns[k]), shape(Pb.fns[k])
        if sa == sb:
            nsame += 1
            continue
        ndiff += 1
        # first differing element for the report
        d = next((i for i, (x, y) in enumerate(zip(sa, sb)) if x != y), min(len(sa), len(sb)))
        xa = sa[d] if d < len(sa) else None
        xb = sb[d] if d < len(sb) else None
        frozen = k in FROZEN
        ctx.ob("E10.diff", k, frozen, "body differs between the builds at element %d: blst %s / rust %s%s" % (d, str(xa)[:140], str(xb)[:140], (" - frozen exception: " + FROZEN[k]) if frozen else ""), where=where(Pa.fns[k]), weak=frozen)
    ctx.ob("E10.diff", "summary", True, "%d bodies identical modulo backend crate name, %d differ" % (nsame, ndiff), sample={"identical": nsame, "different": ndiff})
    ctx.floor("E10.diff", "bodies compared", nsame + ndiff, 800)
    # constants identical
    from .common import collect_constants

    ca = {c["id"]: c["hex"] for c in collect_constants(Pa)}
    cb = {c["id"]: c["hex"] for c in collect_constants(Pb)}
    ctx.ob("E10.consts", "tags-and-salts", ca == cb, "const-evaluated tags/salts equal in both builds (%d constants)%s" % (len(ca), "" if ca == cb else ": differing " + str(sorted(k for k in set(ca) | set(cb) if ca.get(k) != cb.get(k)))))
    # layouts identical
    la = {(i["self"], t["name"]): (t["ty"], t.get("size")) for i in Pa.impls for t in i["types"]}
    lb = {(i["self"], t["name"]): (t["ty"], t.get("size")) for i in Pb.impls for t in i["types"]}
    ctx.ob("E10.consts", "assoc-types", la == lb, "associated types and their layouts equal in both builds (%d entries)" % len(la))
    # cfg census (lexical)
    sites = cfg_census(os.path.join(os.environ.get("VERIF_REPO", "/repo"), "src"))
    feat = [s for s in sites if "feature" in s[2]]
    want = {("lib.rs", 'all(not(feature="rust"),not(feature="blst"))'), ("impls.rs", 'not(feature="blst")'), ("impls.rs", 'feature="blst"')}
    got = {(os.path.basename(f), c) for f, line, c in feat}
    ctx.ob("E10.cfg", "feature-sites", got == want, "cfg(feature) sites: %s (expected exactly the compile_error guard and the two inner_types re-exports)" % sorted(got), sample={"sites": [list(map(str, s)) for s in sites]})
    other = [s for s in sites if "feature" not in s[2] and s[2] not in ("test",)]
    ctx.ob("E10.cfg", "other-cfg", not other, "other cfg conditions in src/: %s" % other)
    # provided trait methods that one backend overrides and the other inherits, among the methods blsful calls
    check_override_divergence(ctx, Pa, Pb)
    check_derived_divergence(ctx, Pa, Pb)
    # points enter only through the subgroup-checking decoders: the backends agree on prime-order points, but
    # blst's scalar multiplication (GLV) and the pure-Rust double-and-add differ on on-curve points outside the subgroup
    from . import posctl as PC

    bad = PC.unchecked_calls(Pa) + PC.unchecked_calls(Pb)
    ctx.ob("E7.unchecked", "blsful", not bad, "calls to unchecked point decoders in blsful (either build): %s" % sorted({(f.key, p) for f, bb, p in bad})[:4], where=where(bad[0][0], bad[0][1]) if bad else None)
    PC.run_posctl(ctx, "E7.unchecked", "unchecked")
    # seed-deterministic values avoid the backend sampler
    K.check_seeded_derivation(ctx, Pa)
    ctx.assume("blstrs_plus 0.8.18 and bls12_381_plus 0.8.18 implement the same curve arithmetic, encodings and hash-to-curve (numerical agreement of two dependency crates is not decided statically)")


# confirmed by reading both dependency sources: (trait, self type, method) -> why the override is the same function
OVERRIDE_TRIAGED = {
    ("Field", "Scalar", "is_zero"): "blstrs_plus 0.8.18 scalar.rs: `self.ct_eq(&ZERO)` - literally the ff 0.13 default body `self.ct_eq(&Self::ZERO)` that bls12_381_plus inherits",
    ("Field", "Fp", "is_zero"): "blstrs_plus 0.8.18 fp.rs overrides is_zero with the same ct_eq-against-zero predicate as the inherited default; blsful never handles base-field elements directly",
}


def _override_table(P):
    t = {}
    for o in (P.facts.get("walk") or {}).get("dep_overrides", []):
        for m, e in o["provided"].items():
            t[(o["trait"], norm(o["self"]), m)] = (e["overridden"], e["called_by_blsful"])
    return t


def check_override_divergence(ctx, Pa, Pb, rule="E10.override"):
    """A trait method with a default body that one backend crate overrides and the other inherits is a place where
    the same blsful call may run different code.  Every such method *that blsful calls* must be triaged (read in both
    dependency sources); calling a new one (e.g. PrimeField::from_repr_vartime, overridden only by blstrs_plus) is
    reported."""
    ta, tb = _override_table(Pa), _override_table(Pb)
    ctx.floor(rule, "provided trait methods of backend types (both builds)", min(len(ta), len(tb)), 100)
    ndiv = 0
    for k in sorted(set(ta) & set(tb)):
        (oa, ca), (ob, cb) = ta[k], tb[k]
        if oa == ob:
            continue
        ndiv += 1
        if not (ca or cb):
            continue
        why = OVERRIDE_TRIAGED.get(k)
        ctx.ob(rule, "%s::%s for %s" % (k[0], k[2], k[1]), why is not None, "blsful calls %s::%s; for %s it is %s in blstrs_plus and %s in bls12_381_plus%s" % (k[0], k[2], k[1], "overridden" if oa else "the trait default", "overridden" if ob else "the trait default", (" - triaged: " + why) if why else " - not triaged: the two backends may disagree here"), weak=why is not None)
    ctx.ob(rule, "summary", True, "%d provided methods differ in override status between the backends" % ndiv, sample={"divergent": ndiv})


# (trait, backend type) whose impl is #[derive]d in one backend and hand-written in the other, read in both sources
DERIVED_TRIAGED = {
    ("Default", "Scalar"): "blstrs_plus derives Default over blst_fr (all-zero limbs = the zero scalar in Montgomery form); bls12_381_plus returns Scalar::ZERO - both are the zero scalar",
}
_ASSOC_ALIAS = {"PairingResult": "Gt", "Scalar": "Scalar"}


def check_derived_divergence(ctx, Pa, Pb, rule="E10.derived"):
    """A trait impl that is `#[derive]`d for a type in one backend crate and written by hand in the other may mean
    different things (blstrs_plus derives `Default for Gt` = Fp12 zero, bls12_381_plus returns the identity).  Every
    such (trait, type) pair whose method blsful calls *on that type* must be triaged."""
    import re as _re

    def tab(P):
        t = {}
        for o in (P.facts.get("walk") or {}).get("dep_overrides", []):
            if "derived" in o:
                t[(o["trait"], norm(o["self"]))] = o["derived"]
        return t

    ta, tb = tab(Pa), tab(Pb)
    div = {k for k in set(ta) & set(tb) if ta[k] != tb[k]}
    ctx.floor(rule, "backend trait impls compared (both builds)", min(len(ta), len(tb)), 150)
    used = {}
    for P in (Pa, Pb):
        for f in P.fns.values():
            for bb, t in f.calls():
                c = t.get("callee") or {}
                tr, st = c.get("trait"), c.get("self_ty") or ""
                if not tr:
                    continue
                last = (_re.findall(r"[A-Za-z_][A-Za-z0-9_]*", st) or [""])[-1]
                name = _ASSOC_ALIAS.get(last, last)
                if (tr, name) in div:
                    used.setdefault((tr, name), (f, bb))
    for k in sorted(used):
        f, bb = used[k]
        why = DERIVED_TRIAGED.get(k)
        ctx.ob(rule, "%s for %s" % k, why is not None, "blsful calls %s on %s (e.g. in %s); the impl is derived in %s and hand-written in the other backend%s" % (k[0], k[1], f.key, "blstrs_plus" if ta[k] else "bls12_381_plus", (" - triaged: " + why) if why else " - not triaged: the two backends may give different values"), where=where(f, bb), weak=why is not None)
    ctx.ob(rule, "summary", True, "%d (trait, type) pairs differ in derivedness between the backends; %d of them are used by blsful" % (len(div), len(used)), sample={"divergent": sorted("%s/%s" % k for k in div)})


def cfg_census(src):
    """Lexical census of cfg attributes / cfg! macros in the crate sources (comments and strings skipped)."""
    out = []
    for root, dirs, files in os.walk(src):
        for fn in sorted(files):
            if not fn.endswith(".rs"):
                continue
            p = os.path.join(root, fn)
            text = open(p).read()
            text = re.sub(r"//[^\n]*", "", text)
            text = re.sub(r"/\*.*?\*/", "", text, flags=re.S)
            for m in re.finditer(r"(#!?\[\s*cfg(?:_attr)?|cfg!)\s*\(", text):
                i = m.end()
                depth = 1
                j = i
                while j < len(text) and depth:
                    if text[j] == "(":
                        depth += 1
                    elif text[j] == ")":
                        depth -= 1
                    j += 1
                cond = re.sub(r"\s+", "", text[i : j - 1])
                line = text.count("\n", 0, m.start()) + 1
                out.append((p, line, cond))
    return out
