"""C02 - verification accepts exactly the valid signature and nothing else."""
from ..core.sym import evaluate, strip_sites
from ..core.terms import show, subterms
from ..core import guards as G
from ..core import bytesnf as B
from .common import where, check_arm_purity, call_sites, check_tag_table
from . import constructions as K
from . import guardrules as R
from . import flow as F

EXPLANATION = (
    "Decides the routing necessary for exact verification: (1) in core_verify / core_aggregate_verify every block that builds "
    "Ok(()) is dominated by the true edge of is_identity(pairing(T)) and T contains hash_to_point(msg,dst), the public key, "
    "the signature and the negated generator; (2) from every public verifier down to the backend's hash the message, the tag, "
    "the key and the signature are forwarded as pure projections of the caller's arguments (no slice, truncation, re-encoding) - "
    "a symmetric truncation in shared code is therefore visible; augmentation hashes a term that depends on the key; (3) each "
    "verifier dispatches on the signature's own variant and each arm uses only that scheme's items; (4) the accept decision of "
    "every public verifier depends on every parameter; (5) the Miller-loop input built by the pairing helpers is a 1:1 image "
    "of the pair list (only iter/map/collect, branch-free projection closures, or a loop that accumulates on every iteration). "
    "Not decided: uniqueness of the accepted group element, agreement with an independent CoreVerify on concrete values."
)
RULE = "E4 must-pass-through of the pairing test; E5 pass-through chain on value-numbered terms; E2 arm purity; E6 dependence; iterator pipeline shape"

VERIFIERS = {
    # wrapper -> expected projections of (pk, sig, msg) args at each scheme call
    "Signature<C>::verify": ("pk", "self", "msg"),
    "MultiSignature<C>::verify": ("pk", "self", "msg"),
}


def run(ctx):
    P = ctx.P
    # 0. KeyValidate: the identity key is refused before the pairing equation is consulted (with key and signature both
    #    the identity the equation holds for every message); an assertion that exists only in debug builds is not a check
    for fk0 in ("BlsSignatureCore::core_verify", "BlsSignatureCore::core_aggregate_verify"):
        R.check_result_guard(ctx, "E4.keyvalidate", P, fk0, "is_identity", ("param", "sig"))
    R.check_result_guard(ctx, "E4.keyvalidate", P, "BlsSignatureCore::core_verify", "is_identity", ("param", "pk"))
    from . import flow as F0_
    from . import posctl as PC0_
    from .c09 import _concerns as _concerns0

    F0_.check_aggregate_key_guard(ctx, "E4.keyvalidate", P)
    # the verdict is a function of (key, message, signature) alone: nothing reachable from the verification entry points
    # draws randomness, reads a clock or keeps state between calls (a cache of prepared points / hashed messages keyed on
    # less than the whole input makes one call's verdict depend on an earlier one)
    F0_.check_no_effects(ctx, "E7.deterministic", P, ["Signature<C>::verify", "MultiSignature<C>::verify", "AggregateSignature<C>::verify", "ProofOfPossession<C>::verify", "SignatureShare<C>::verify", "PublicKeyShare<C>::verify"])
    # KeyValidate's subgroup half: keys and signatures enter only through the subgroup-checking point decoders - an
    # unchecked decoder lets pk + T (T of cofactor order) parse as another key under which pk's signatures verify
    bad0 = [(f, bb, p) for f, bb, p in PC0_.unchecked_calls(P) if _concerns0(P, f, ("PublicKey", "Signature", "deserialize_public_key", "deserialize_signature", "sig_core", "BlsSignature"))]
    ctx.ob("E7.unchecked", "key and signature decoders", not bad0, "unchecked point decoders on the way of a public key or signature: %s" % [(f.key, p) for f, bb, p in bad0][:4], where=where(bad0[0][0], bad0[0][1]) if bad0 else None)
    PC0_.run_posctl(ctx, "E7.unchecked", "unchecked")
    # 0b. the verdict depends on the message through its hash only
    from . import flow as F_

    F_.check_message_blind_control(ctx, "E6.msg-blind", P, ["Signature<C>::verify", "PublicKeyShare<C>::verify", "SignatureShare<C>::verify", "MultiSignature<C>::verify", "BlsSignatureCore::core_verify"])
    # 1. accept only through the pairing test
    for fk in ("BlsSignatureCore::core_verify", "BlsSignatureCore::core_aggregate_verify"):
        f = ctx.need_fn("E4.pairing", fk)
        if f is None:
            continue
        ev = evaluate(f)
        oks = R.ok_exits(P, f, ev)
        ctx.ob("E4.pairing.anchor", fk, len(oks) >= 1, "%d Ok exits in %s" % (len(oks), fk), where=where(f))
        for b, lits in oks:
            pair = [a for a, p in lits if p and a[1] == "is_identity" and a[2].op == "call" and B.cname(a[2]) == "Pairing::pairing"]
            ctx.ob("E4.pairing", "%s/ok" % fk, len(pair) == 1, "Ok exit must be dominated by the true edge of is_identity(pairing(..)); found %d such literal(s)" % len(pair), where=where(f, b))
            if pair and fk.endswith("core_verify"):
                T_ = pair[0][2]
                comps = []
                for s in subterms(T_):
                    if s.op == "agg" and s.a[0][0] == "tuple":
                        comps.append(tuple(B.peel(x) for x in s.a[1]))
                flat = [c for tup in comps for c in tup]
                has_hash = any(c.op == "call" and B.cname(c) == "HashToPoint::hash_to_point" and [B.peel(x).a[1] if B.peel(x).op == "param" else None for x in c.a[1]] == ["msg", "dst"] for c in flat)
                def _is(c, name):
                    if c.op == "call" and B.cname(c) == "Neg::neg":
                        c = B.peel(c.a[1][0])
                    return c.op == "param" and c.a[1] == name
                has_pk = any(c.op == "param" and c.a[1] == "pk" for c in flat)
                has_sig = any(_is(c, "sig") for c in flat)
                has_gen = any((c.op == "call" and B.cname(c) == "Group::generator") or (c.op == "call" and B.cname(c) == "Neg::neg" and B.peel(c.a[1][0]).op == "call" and B.cname(B.peel(c.a[1][0])) == "Group::generator") for c in flat)
                # the second pair is (sig, G) with exactly one of its factors negated; the first pair has none
                second = [t for t in comps if any(_is(c, "sig") for c in t)]
                neg = [c for c in flat if c.op == "call" and B.cname(c) == "Neg::neg"]
                has_neg = len(neg) == 1 and has_gen and bool(second) and any(c in second[0] for c in neg)
                # decided on the bilinear normal form when the pair list is literal (array or new-Vec + pushes): the product
                # is e(H(msg,dst), pk) * e(sig, G)^-1 up to inversion, wherever the negation is written
                from ..core import poly as PL
                from . import equations as EQ

                ps_ = PL.pairs_of(strip_sites(T_.a[1][0])) if T_.a[1] else None
                if ps_ is not None:
                    got_ = PL.named(PL.bilinear(ps_, EQ.std_atom()))
                    eq_ok = got_ is not None and PL.up_to_sign(got_) == PL.up_to_sign({("a", "pk"): 1, ("G", "sig"): -1})
                    has_neg = eq_ok
                    has_hash = has_pk = has_sig = eq_ok
                    comps = comps[:2] if eq_ok else comps
                ctx.ob("E5.equation", fk, has_hash and has_pk and has_sig and has_neg and len(comps) == 2, "pairing input = %s (want {(H(msg,dst), pk), (sig, -G)} with exactly one negated factor)" % show(strip_sites(T_), 6), where=where(f, b), sample={"pairs": show(strip_sites(T_), 6)})
        if fk.endswith("aggregate_verify"):
            # final push((sig, -G)) and per-entry push((hash(msg,dst), pk))
            # the closing pair (sig, -G), however it gets into the list (a push after the loop, `chain(once(..))`, ..): exactly
            # one pair mentions the signature, and as a bilinear term it is -(sig (x) G) against the +(H(m) (x) pk) entries
            from ..core import poly as PL
            from . import equations as EQ

            cand = F.closing_pair_candidates(P, ev)
            final = [x for x in cand if PL.named(PL.bilinear([tuple(x.a[1])], EQ.std_atom())) == {("G", "sig"): -1}]
            entry = F.entry_builders(P, f)
            ctx.ob("E5.equation", fk + "/final", len(final) == 1 and len(cand) == 1, "exactly one closing pair (sig, -G) (pairs mentioning sig: %d, of the form -(sig (x) G): %d)" % (len(cand), len(final)), where=where(f))
            ctx.ob("E5.equation", fk + "/entry", len(entry) == 1, "exactly one per-entry construction of (hash_to_point(msg,dst), pk) (found %d: %s)" % (len(entry), [e["mode"] for e in entry]), where=where(f))
            if entry:
                h = [x for x in subterms(entry[0]["value"]) if x.op == "call" and B.cname(x) == "HashToPoint::hash_to_point"][0]
                dstp = B.peel(h.a[1][1])
                while dstp.op == "call" and B.cname(dstp) in ("AsRef::as_ref", "Deref::deref") and dstp.a[1]:
                    dstp = B.peel(dstp.a[1][0])
                is_dst = (dstp.op == "param" and dstp.a[1] == "dst") or (entry[0]["mode"] == "map-closure" and dstp.op in ("field", "deref", "param") and "dst" in show(dstp, 4))
                ctx.ob("E5.equation", fk + "/dst", is_dst, "per-entry hash uses the caller's tag unmodified: %s" % show(dstp, 3), where=where(f))
            F.check_entry_pair_form(ctx, "E5.equation", P, fk, entry)
            for e in entry:
                ctx.ob("E4.loop", fk + "/every-entry", e["every"], "every list entry yields its own (hash_to_point(msg,dst), pk) pairing input or an error (%s)" % e["mode"], where=where(e["fn"], e["bb"]))
            if not entry:
                ctx.ob("E4.loop", fk + "/every-entry", False, "no per-entry construction of pairing inputs found", where=where(f))
            F.check_no_dropping_adapters(ctx, "E7.adapters", P, [fk])
    # 2. pass-through chain: wrappers -> scheme trait methods
    for fk in ("Signature<C>::verify", "MultiSignature<C>::verify", "PublicKeyShare<C>::verify", "ProofOfPossession<C>::verify", "SignatureShare<C>::verify"):
        f = ctx.need_fn("E5.chain", fk)
        if f is None:
            continue
        ev = evaluate(f)
        n = 0
        for bb, s in sorted(ev.sites.items()):
            c = s.raw.get("callee") or {}
            via_fnptr = bool(s.alt_callees) and all(a_[0].split("::")[0] in ("BlsSignatureBasic", "BlsSignatureMessageAugmentation", "BlsSignaturePop") for a_ in s.alt_callees)
            if c.get("trait") in ("BlsSignatureBasic", "BlsSignatureMessageAugmentation", "BlsSignaturePop") or s.callee[0] == "PublicKeyShare<C>::verify" or via_fnptr:
                n += 1
                for i, a in enumerate(s.args):
                    root = _proj_or_checked(a)
                    ctx.ob("E5.chain", "%s->%s#%d" % (fk, s.callee[0], i), root is not None, "argument %d of %s is %s" % (i, s.callee[0], "a pure projection of `%s`" % root if root else "NOT a projection of a caller argument: " + show(strip_sites(a), 5)), where=where(f, bb))
                roots = {_proj_or_checked(a) for a in s.args}
                roots.discard(None)
                need = {f.locals[i].get("name") for i in range(1, f.arg_count + 1)}
                ctx.ob("E6.uses-all", "%s->%s" % (fk, s.callee[0]), need <= {__import__("re").split(r"[ .]", r)[0] for r in roots}, "verifier forwards every one of its inputs %s (forwarded: %s)" % (sorted(need), sorted(roots)), where=where(f, bb))
        ctx.ob("E5.chain.anchor", fk, n >= 1, "%d scheme verification call(s) in %s" % (n, fk), where=where(f))
    K.check_core_table(ctx, P, methods=("verify", "partial_verify", "multi_sig_verify", "sign", "partial_sign"))
    # the same table without debug assertions: what is hashed must not depend on a statement inside `debug_assert!`
    with ctx.prefixed("nodebug|"):
        K.check_core_table(ctx, ctx.prog("blst", "nodebug"), methods=("verify", "partial_verify", "multi_sig_verify", "sign", "partial_sign"))
    K.check_hash_to_point_routing(ctx, P, rule="E5.chain.h2c")
    # relabelling a scheme must change the tag; decision must equal IETF CoreVerify: tag table
    check_tag_table(ctx, P)
    # 3. dispatch on the signature's own variant
    fns = [P.fns[k] for k in ("Signature<C>::verify", "MultiSignature<C>::verify", "PublicKeyShare<C>::verify", "AggregateSignature<C>::verify") if k in P.fns]
    from .common import with_mappers, check_dispatching

    check_arm_purity(ctx, "E2-A", P, with_mappers(P, fns))
    check_dispatching(ctx, "E2-A", P, fns)
    from . import spec as SP

    nsp = 0
    for f in fns:
        nsp += SP.check_trait_by_scheme(ctx, "E2.dispatch", P, f, ("sign", "verify", "partial_sign", "partial_verify", "aggregate_verify", "multi_sig_verify", "pop_prove", "pop_verify", "core_sign", "core_verify"))
    ctx.floor("E2.dispatch", "(verifying wrapper, scheme) pairs reaching the scheme's own verifier", nsp, 10)
    for f in fns:
        ev = evaluate(f)
        for b, d in ev.switch.items():
            v = G.variant_of_switch(P, f, b, 0)
            if v and v[0] in P.scheme_adts():
                root = F.projection_root(strip_sites(d).a[0]) if d.op == "discr" else None
                who = root[0].a[1] if root else None
                want = "sig" if f.key.startswith("PublicKeyShare") else "self"
                if who is None:
                    # a switch on a computed scheme value (`match sig.scheme() {..}`): it is the signature's own scheme
                    # when fixing the signature's variant fixes the switched value, for every variant
                    wroots = [(r, adt) for r, adt in SP.switch_roots(P, f) if r == (want, "")]
                    if wroots:
                        r0, adt0 = wroots[0]
                        det = True
                        for vv in P.adts[adt0]["variants"]:
                            ea = evaluate(f, {r0: vv["name"]})
                            da = ea.switch.get(b)
                            if da is None:
                                continue
                            da = strip_sites(da)
                            inner = da.a[0] if da.op == "discr" else da
                            while inner.op in ("ref", "deref"):
                                inner = inner.a[0]
                            if not ((inner.op == "agg" and inner.a[0][0] == "adt" and not inner.a[1]) or inner.op == "const"):
                                det = False
                        if det:
                            who = want
                ctx.ob("E2.own-variant", f.key, who == want, "scheme dispatch switches on `%s` (must be the signature itself: `%s`)" % (who, want), where=where(f, b))
    # 5. pairing helpers: 1:1 pipeline
    for fk in ("<Bls12381G1Impl as Pairing>::pairing", "<Bls12381G2Impl as Pairing>::pairing"):
        check_pipeline(ctx, P, fk)
    ctx.assume("Pairing::pairing of the backend computes the product of pairings; final exponentiation is correct")


def _proj_or_checked(a):
    """Projection of a parameter, possibly through the checked share conversion + `?`."""
    a = strip_sites(a)
    r = F.projection_root(a)
    if r:
        return r[0].a[1] + r[1]
    # the payload of whichever variant the value has: phi of projections of one parameter
    b = a
    while b.op in ("ref", "deref"):
        b = b.a[0]
    if b.op == "phi":
        rs = [F.projection_root(x) for x in b.a[0]]
        if all(rs) and len({x[0].a[1] for x in rs}) == 1:
            return rs[0][0].a[1] + " (payload of its variant)"
    # (Try::branch(Share::as_group_element(&proj)) as Continue).0
    t = a
    if t.op == "field" and t.a[0].op == "downcast" and t.a[0].a[1] in ("Continue", "Ok"):
        br = t.a[0].a[0]
        if br.op == "call" and B.cname(br) in ("Try::branch", "Share::as_group_element"):
            inner = B.peel(br.a[1][0]) if B.cname(br) == "Try::branch" else br
            if inner.op == "call" and B.cname(inner) == "Share::as_group_element":
                r = F.projection_root(inner.a[1][0])
                if r:
                    return r[0].a[1] + r[1] + " (checked)"
    return None


PIPE_OK = {"slice::<impl [T]>::iter", "Iterator::map", "Iterator::collect", "Vec::<T, A>::as_slice", "Deref::deref", "IntoIterator::into_iter", "AsRef::as_ref", "Iterator::enumerate", "Iterator::copied", "Iterator::cloned"}
PIPE_SINK = ("multi_miller_loop", "MultiMillerLoop::multi_miller_loop")


def check_pipeline(ctx, P, fk, rule="E5.pipeline", _depth=0):
    f = ctx.need_fn(rule, fk)
    if f is None:
        return
    ev = evaluate(f)
    from ..core.sym import inline

    # private straight-line helpers (a shared "pair the prepared terms" tail, say) are looked through
    ret = strip_sites(inline(P, ev.ret, 2, only=lambda g: not g.cfg.back_edges() and g.kind != "Closure"))
    sinks = [s for s in subterms(ret) if s.op == "call" and (B.cname(s) in PIPE_SINK or B.cname(s).endswith("multi_miller_loop"))]
    if len(sinks) != 1:
        # the pairing may be handed as a whole to one crate function with loops of its own: the rule is decided there
        inner = [B.cname(s) for s in subterms(ret) if s.op == "call" and B.cname(s) in P.fns and B.cname(s) != fk and P.fns[B.cname(s)].kind != "Closure"]
        if len(set(inner)) == 1 and _depth < 2:
            return check_pipeline(ctx, P, inner[0], rule, _depth + 1)
        ctx.ob(rule + ".anchor", fk, False, "Miller-loop call not found in %s" % fk, where=where(f))
        return
    fe = ret.op == "call" and B.cname(ret).endswith("final_exponentiation")
    ctx.ob(rule + ".finalexp", fk, fe, "result is final_exponentiation(multi_miller_loop(..)): %s" % show(ret, 3), where=where(f))
    # walk from the sink argument down to the parameter
    t = sinks[0].a[1][0]
    steps = []
    ok = True
    bad = None
    looped = False
    via_image = False
    while True:
        while t.op in ("ref", "deref"):
            t = t.a[0]
        if t.op == "param":
            break
        if t.op == "call" and B.cname(t) in PIPE_OK:
            steps.append(B.cname(t))
            if B.cname(t) == "Iterator::map":
                clo = B.peel(t.a[1][1])
                if not _closure_is_projection(P, clo):
                    ok = False
                    bad = "map closure is not a branch-free per-element projection"
            t = t.a[1][0]
            continue
        if t.op == "call" and B.cname(t) in P.fns:
            g = P.fns[B.cname(t)]
            res = F.loops_push_every_iteration(g)
            drops = [a for a in F.adapter_calls(g) if a[1] in F.ELEMENT_DROPPING]
            cl = [h for h in P.fns.values() if h.kind == "Closure" and (h.j.get("parent_key") or "") == g.key]
            for h in cl:
                drops += [a for a in F.adapter_calls(h) if a[1] in F.ELEMENT_DROPPING]
            if drops or not all(r[1] for r in res) or not res:
                ok = False
                bad = "helper `%s` does not map every pair to exactly one Miller-loop input (%s)" % (g.key, "adapters " + str([d[1] for d in drops]) if drops else "a loop iteration may skip accumulation")
            steps.append(g.key)
            t = t.a[1][0]
            continue
        if t.op == "loop" and not looped:
            # a vector filled by a loop in this very function: decided on the unstripped terms of the evaluation
            looped = True
            raw = [s_ for _, s_ in sorted(ev.sites.items()) if s_.callee[0] in PIPE_SINK or s_.callee[0].endswith("multi_miller_loop")]
            if len(raw) == 1:
                x_, st_ = F.image_source(P, f, ev, raw[0].args[0])
                if x_ is not None:
                    steps.extend(st_)
                    t = x_
                    via_image = True
                    continue
                bad = st_
            ok = False
            bad = bad or "unrecognised step `%s`" % show(t, 2)
            break
        ok = False
        bad = "unrecognised step `%s`" % show(t, 2)
        break
    if f.cfg.back_edges() and not via_image:
        res = F.loops_push_every_iteration(f)
        if not all(r[1] for r in res):
            ok = False
            bad = "loop in %s may skip a pair" % fk
    ctx.ob(rule, fk, ok, "Miller-loop input is a 1:1 image of the caller's pair list via %s%s" % (list(reversed(steps)), "" if ok else " - " + str(bad)), where=where(f), sample={"steps": list(reversed(steps))})


def _closure_is_projection(P, clo):
    if not (clo.op == "agg" and clo.a[0][0] == "closure"):
        return False
    g = P.fns.get(clo.a[0][1])
    if g is None:
        return False
    if g.cfg.back_edges():
        return False
    for b in g.cfg.reachable:
        if g.blocks[b]["term"]["k"] == "switch":
            return False
    return True
